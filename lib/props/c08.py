"""C08 — numeric operators are exact or fail (DESIGN.md §3 C08)."""
import json, struct, collections, sys, re, os, math, zlib, hashlib, subprocess, time
import concurrent.futures, multiprocessing
if hasattr(sys, "set_int_max_str_digits"):
    sys.set_int_max_str_digits(0)
from fractions import Fraction

READY = True

META = {
    "technique": "Lean 4 proof (model of ops::coerce/add/sub/mul/int_div/rem/pow/neg/int_as_value over the four integer representations and Bool: exact-or-error, total on the signed 128-bit range, width independent, Euclid law; ** for every exponent; float + - * / proved exactly rounded for ALL finite operands (overflow to the infinity of the right sign exactly from f64::MAX + ulp/2 on, subnormals included) on a bit-pattern model whose rounding function is proved round-to-nearest-even; tests, filters and string parsing modelled; final form `C08_main`: the full statement follows from ONE named hypothesis, unary minus at 2^127, which is the recorded finding; `cmp_zero_signs_equal`: -0.0, 0.0 and the integer 0 of every width are one number for all six operators) + differential run of the model against the real engine + exact-integer/rational and IEEE oracle",
    "category": "proof",
    "text": "The full statement is FALSE on the pinned code at exactly one operand, proved as `C08_counterexample : ¬ C08_full` (unary minus of 2^127 stored as u128 returns +2^127; kept as a recorded known finding because an existing snapshot pins it); everything else is proved as `C08_holds_partial` with that operand as an explicit hypothesis of the unary-minus exactness clause only. Kernel-checked theorems about the Lean model of minijinja's integer arithmetic (every representation U64/I64/U128/I128, every well-formed payload): a successful + - * // % ** or unary minus returns the mathematically exact integer, the operation succeeds whenever operands and result fit the signed 128-bit range (divisor non-zero, exponent non-negative), the outcome depends only on the mathematical operands and not on the stored width, and // and % satisfy q*b + r = a with 0 <= r < |b|. Round 5: ** completely (`pow_exact`, `pow_total_in_range` for EVERY non-negative exponent of the 128-bit range - two defects fixed on the way: 1 ** 2^32 failed, commit 3a8d5c6 - `pow_large_exponent_error`: an exponent >= 128 with |base| >= 2 is an error whatever its low 32 bits, `pow_negative_exponent_error`); Bool operands (`bool_operand_as_u64`: in every binary operator a Bool is exactly the u64 0/1, hence exact, total and width independent; `neg_bool_error`; `bool_eq_number_exact`; `bool_before_every_number`: the ordering operators compare the kinds first); the tests odd / even / divisibleby on every integer representation (`odd_exact`, `even_exact`, `divisibleby_exact`: the same % as the operator, i128::MIN divisibleby -1 included, `tests_width_independent`), min / max on integer/float mixes (`min_max_exact`), round on integers; strings through the int filter (`int_text_sound`: str::parse::<i128> accepts an optional sign and ASCII digits only - no blanks, `_`, radix prefixes; `int_filter_string_sound`: the only other way to an integer is the exact truncation of an accepted float text; `int_text_exact`: sign, leading zeros, digits -> that integer; `int_text_overflow_is_error`: an integer text outside i128 is an error, never the neighbour its float approximation truncates to - second defect fixed, commit ab4512f); floats: `round_to_nearest_even` - the rounding function of the model returns a double nearest to p/q, the even one on a tie, against every bit pattern - hence float + - * / are exactly rounded (`float_add_rounded`, `float_sub_rounded`, `float_mul_rounded`, `float_div_rounded`) and exact when the result is a double (`float_*_exact`), decimal texts are read correctly rounded (`float_text_rounded_*`), and the IEEE 754-2008 special cases of ** hold as a table (`float_pow_special_table`). Integer literals: the Lean model of Tokenizer::eat_number is proved to read every well-formed spelling as the token for its value and to reject values >= 2^128. Finite doubles are bit patterns with exact dyadic values (no Float): int/float comparison is proved exact for all i64/u64/i128/u128 x non-NaN doubles, int->float conversion exact below 2^53 and within half an ulp with ties to even above, float % and // produce the Euclidean remainder/quotient of the exact values whenever those are representable, int-of-float exact or error. The model is tied to /repo by ~5*10^5 (quick) cases - the boundary zoo squared, a representation box (24 core values in every pair of forms under every operator, comparison, filter and test), ** on [-17,17] x [0,130] plus the overflow edge of every exponent and exponents around and beyond 2^32, Bool operands everywhere, float arithmetic aimed at ties / cancellation / overflow / underflow, float ** on all class pairs, round(precision), strings around every boundary - run through Expression::eval, template rendering, a run-time (unfoldable) variant and 17 other features / entry points, and through the compiled Lean model (0 disagreements on ~95% of the cases, the rest is libm pow and consistency-only functions); an independent Python oracle (unbounded ints, Fractions, IEEE doubles) adjudicates. Session 4: `C08_main (h : NegOf2p127Exact) : C08_full ∧ C08_full_num` (integer clauses + comparison exact + float Euclid law) with `C08_main_gap_is_open : ¬ NegOf2p127Exact ∧ (NegOf2p127Exact ↔ C08_full)` - the gap between the code and the full statement is exactly that one operand; `cmp_zero_signs_equal` / `zero_signs_table` / `cmp_f64_zero_signs_equal` (the `left == right` guard of cmp_f64 is what keeps -0.0 from sorting below 0: `totalCmp negZero 0 = .lt`). New generator axes: NEGATIVE ZERO as literal (three spellings, bare and parenthesised minus), variable (f64, serde f64, f32, serde f32) and COMPUTED operand (new operand form `fexp:(X<op>Y)=bits`: `0.0*(-1)`, `(-4.0)%2.0`, `(-0.0)/3`, `(-6)%2.0`, underflowing products) in every two-operand comparison against every zero (each integer form, +0.0 literal / variable / computed) and the nearest non-zero numbers, in first / middle / last position of chains under all 36 operator pairs, and in the tests / select / reject / selectattr under all 15 names; COMPUTED OPERANDS in general: every nested case `(A op1 B) op2 C` now carries the engine's inner value and the outer operator is judged by the full oracle on (that value, C) instead of by consistency only; the INT/FLOAT COMPARISON BOX (every core integer in every integer form x the doubles at and next to it, twice and half of it - the power of two just above a type maximum is where the saturating casts of cmp_f64_i128 / cmp_f64_u128 bite - in every float form incl. computed, all six operators, chains); FLOAT RESULTS AS TEXT: every float result is read back from its rendered text and has to be the same number (no digit lost on the way out; shortness and notation are not demanded).",
    "design_ref": "DESIGN.md §3 C08",
    "level_note": "Trusted: Lean kernel; hand transcription of ops.rs (coerce, int_as_value, add, sub, mul, div, int_div, rem, pow, neg, as_f64, f64_div_euclid), of i128::try_from(Value) incl. its Bool and float arms, of filters abs/int/float/round/sum/min/max, tests odd/even/divisibleby, str::parse::<i128>/<f64> and of Tokenizer::eat_number into MJ/Model/{Num,NumF,NumLex,NumX}.lean (comparisons: C07's MJ/Model/Cmp.lean), validated differentially on every generated case they cover; source facts the model duplicates (neg's special constant, the checked_* method of each operator, the exponent conversion and unit-base arm of pow, the lexer's prefix table and parsing calls, `x % 2 != 0`, wrapping_rem, the parse steps of the int filter, f64_to_int's limit, `val as usize`) are regenerated from /repo and re-proved equal on every run. Rust's i128::checked_* and from_str are modelled by their contract; IEEE operations by exact-result-then-round (encodeRat, proved to be round-to-nearest-even). Validated only (model or oracle, no theorem): round(precision) (bit-exact model built from the proved-rounded * and /), powf outside the special cases and exact small powers (libm, within 1 ulp), odd/even/divisibleby on floats, that f64::from_str itself is correctly rounded (the model is, the engine agrees on every case), range, batch, `~`, filesizeformat/truncate/indent arguments (consistency across widths only). MOVED FROM VALIDATED TO PROVED in session 4: the equality of the zeros of either sign under every comparison operator (`cmp_zero_signs_equal`, `zero_signs_table`: was an instance of `cmp_ops_exact` nobody had stated; the seeded change C08-7 lives exactly there), the role of cmp_f64's guard (`cmp_f64_zero_signs_equal`), and the final form: `C08_main` makes the distance between what is proved and the full statement ONE named hypothesis (`NegOf2p127Exact`, refuted on the current code by `C08_main_gap_is_open` = the recorded known finding; every other clause of `C08_full` and the comparison / float-Euclid sentence `C08_full_num` are discharged by audited theorems). float + - * / as TOTAL theorems (`float_add_total`, `float_sub_total`, `float_mul_total`, `float_div_total` over `encodeRat_overflow_iff`: the rounding function saturates to infinity EXACTLY when the value is at least (2^54 - 1) * 2^2044 units of 2^-1074 = f64::MAX + ulp/2, where the tie goes to the even neighbour 2^1024; so for every pair of finite operands the result is finite iff the exact result is below that threshold in magnitude, then it is the round-to-nearest-even double - subnormal and zero results included, the low branch of encodeRat is the integer grid - and otherwise it is the infinity with the sign of the exact result; before, the rounding theorems carried the hypothesis `isFinite result`). NOT MODELLED IN LEAN, ORACLE ONLY: the decimal text of a float result (Rust's `Display for f64`, shortest round-trip): validated by reading every float result back (Python float(), correctly rounded) on ~10^5 float results per quick run; float literal lexing is modelled and proved correctly rounded (`float_text_rounded_*`) for mantissa * 10^e, |e| <= 400. A regenerated-table tie for the shape of cmp_f64 (guard before total order) was considered and left out: it would only turn a source-shape change into `no-failing-input-found`, while the behaviour is reached by ~2*10^4 negative-zero cases.",
}

P63, P64, P127, P128 = 1 << 63, 1 << 64, 1 << 127, 1 << 128
# Recorded known finding (KNOWN_FINDINGS.jsonl): unary minus of 2^127 stored as u128 yields +2^127.
# A template spells i128::MIN as `-170141183460469231731687303715884105728`, i.e. exactly that
# negation, so an operand written `lit:-2^127` reaches the operator as the u128 +2^127.
KNOWN_NEG_SITE = "neg:u128:2^127"
DEFECT_LIT = "lit:-%d" % P127
DEFECT_AS = "u128:%d" % P127
OPS_BIN = ("add", "sub", "mul", "fdiv", "rem", "pow")
OPS_CMP = ("lt", "le", "gt", "ge", "eq", "ne")


def f_of_bits(h):
    return struct.unpack(">d", struct.pack(">Q", int(h, 16)))[0]


INT_VAR_FORMS = ("u64", "i64", "u128", "i128", "su64", "si64", "su128", "si128",
                 "i8", "i16", "i32", "isize", "u8", "u16", "u32", "usize")


def unwrap_literal(text):
    """`(-X)` / `-X` / `X` -> (negated, X)"""
    if text.startswith("(") and text.endswith(")"):
        text = text[1:-1]
    if text.startswith("-"):
        return True, text[1:]
    return False, text


def value_of_int_spelling(text):
    """independent reading of an integer literal: prefix -> radix, `_` ignored"""
    neg, body = unwrap_literal(text)
    radix = {"0b": 2, "0o": 8, "0x": 16}.get(body[:2].lower(), 10)
    digits = (body[2:] if radix != 10 else body).replace("_", "")
    v = int(digits, radix)
    return -v if neg else v


def value_of_float_spelling(text):
    neg, body = unwrap_literal(text)
    v = float(body.replace("_", ""))
    return -v if neg else v


class BadCase(Exception):
    pass


def value_of_float_expression(text):
    """`(X<op>Y)`, X and Y number literals (a minus sign / parentheses allowed), op in * / %:
    the double the engine has to compute (operands as doubles; % is f64::rem_euclid)"""
    m = re.fullmatch(r"\((\(?-?[0-9][0-9.e_-]*\)?)([*/%])(\(?-?[0-9][0-9.e_-]*\)?)\)", text)
    if not m:
        raise BadCase(f"generator: float expression {text} is not of the form (X<op>Y)")
    x, op, y = float(m.group(1).strip("()").replace("_", "")), m.group(2), float(m.group(3).strip("()").replace("_", ""))
    if op == "*":
        return x * y
    if y == 0:
        raise BadCase(f"generator: float expression {text} divides by zero")
    if op == "/":
        return x / y
    r = math.fmod(x, y)
    return r + abs(y) if r < 0.0 else r


def parse_operand(tok):
    """-> (kind 'i'|'f', value, form)"""
    form, val = tok.split(":", 1)
    if form in ("flit", "f64", "sf64"):
        return ("f", f_of_bits(val), form)
    if form in ("f32", "sf32"):
        return ("f", struct.unpack(">f", struct.pack(">I", int(val, 16)))[0], form)
    if form == "str":
        return ("s", bytes.fromhex(val).decode("utf-8"), form)
    if form == "fsrc":
        text, bits = val.rsplit("=", 1)
        v = f_of_bits(bits)
        if struct.pack(">d", value_of_float_spelling(text)) != struct.pack(">d", v):
            raise BadCase(f"generator: float spelling {text} does not denote {bits}")
        return ("f", v, form)
    if form == "fexp":
        # a float COMPUTED by the engine from two literals, `(X<op>Y)` with op one of * / %; the
        # value the token announces is checked against an independent evaluation (IEEE doubles)
        text, bits = val.rsplit("=", 1)
        v = f_of_bits(bits)
        if struct.pack(">d", value_of_float_expression(text)) != struct.pack(">d", v):
            raise BadCase(f"generator: float expression {text} does not evaluate to {bits}")
        return ("f", v, form)
    if form == "src":
        text, dec = val.rsplit("=", 1)
        if value_of_int_spelling(text) != int(dec):
            raise BadCase(f"generator: integer spelling {text} does not denote {dec}")
        return ("i", int(dec), form)
    if form == "bool" or form == "lit" or form in INT_VAR_FORMS:
        return ("i", int(val), form)
    raise BadCase(f"unknown operand form {form}")


def in_i128(x):
    return -P127 <= x < P127


def euclid_divmod(a, b):
    """Euclidean quotient and remainder of integers or Fractions, b != 0: 0 <= r < |b|"""
    r = a % abs(b)
    q = (a - r) / b
    if isinstance(q, Fraction):
        assert q.denominator == 1
        q = q.numerator
    else:
        q = int((a - r) // b)
    return q, r


def int_exact(op, a, b):
    """-> (defined, exact) ; defined False = no integer result exists (must be an error).
    exact None with defined True = too large to matter (certainly outside 128 bits)"""
    if op == "neg":
        return True, -a
    if op == "add":
        return True, a + b
    if op == "sub":
        return True, a - b
    if op == "mul":
        return True, a * b
    if op in ("fdiv", "rem"):
        if b == 0:
            return False, None
        q, r = euclid_divmod(a, b)
        return True, (q if op == "fdiv" else r)
    if op == "pow":
        if b < 0:
            if a in (1, -1):
                return True, (a if b % 2 else 1)
            return False, None
        if abs(a) >= 2 and b >= 128:
            return True, None
        if abs(a) <= 1:
            return True, (a if b % 2 else a * a) if b > 0 else 1
        return True, a ** b
    raise ValueError(op)


def int_required(op, a, b, exact):
    """must the engine return the exact result (no error allowed)?"""
    if exact is None or not in_i128(a) or (b is not None and not in_i128(b)) or not in_i128(exact):
        return False
    if op == "pow" and b < 0:
        return False
    return True


def region(x):
    ax = abs(x)
    if x < 0:
        return "neg-min" if ax == P127 else "neg"
    if ax < P63:
        return "small"
    if ax < P64:
        return "u64hi"
    if ax < P127:
        return "mid"
    return "big"   # [2^127, 2^128): only representable as u128


def check_int(r, case, op, A, B, impl):
    a = A[1]
    b = B[1] if B else None
    defined, exact = int_exact(op, a, b)
    forms = A[2] + ("," + B[2] if B else "")
    reg = region(a) + ("," + region(b) if B else "")
    res, rend = split_impl(impl)[0], split_impl(impl)[1].get("render", "")
    if op == "neg" and A[2] == "bool":
        # unary minus is defined on numbers only: a Bool is rejected (`neg_bool_error`)
        if not res.startswith("err:"):
            r.oracle_failure(case, f"-<bool> returned {res}; ops::neg rejects values whose kind is not Number", "int:neg:bool-accepted")
        return "err"
    if rend:
        r.oracle_failure(case, f"template prints {rend!r} but Expression::eval gives {res}", f"int:{op}:render:{reg}")
    if res == "panic":
        r.oracle_failure(case, "panic", f"int:{op}:panic:{reg}")
        return "panic"
    if res == "err:SyntaxError":
        r.oracle_failure(case, "a well-formed number literal is rejected by the lexer/parser", "literal:syntax-error")
        return "err"
    if res.startswith("err:"):
        if defined and int_required(op, a, b, exact):
            r.oracle_failure(case, f"error {res} although operands and exact result {exact} fit the signed 128-bit range", f"int:{op}:spurious-error:{reg}")
        return "err"
    if res.startswith("i:"):
        got = int(res[2:])
        if not defined:
            r.oracle_failure(case, f"returned {got} where no integer result exists", f"int:{op}:missing-error:{reg}")
        elif op == "neg" and a == P127 and got == P127:
            # the one recorded defect: ops::neg's special case returns the positive u128 again
            r.oracle_failure(case, f"-(2^127 stored as u128) returned +{got}, exact result is {exact}", KNOWN_NEG_SITE)
        elif exact is None or got != exact:
            ex = "a number outside 128 bits" if exact is None else exact
            r.oracle_failure(case, f"returned {got}, exact result is {ex}", f"int:{op}:wrong-value:{reg}")
        return "exact"
    r.oracle_failure(case, f"integer operation returned {res}", f"int:{op}:non-integer:{reg}")
    return "other"


def as_fraction(X):
    """operand as the float the engine computes with (ints are converted `as f64`, round to nearest)"""
    if X[0] == "f":
        return Fraction(X[1])
    return Fraction(float(X[1]))


def check_float_euclid(r, case, op, A, B, impl):
    res, rend = split_impl(impl)[0], split_impl(impl)[1].get("render", "")
    kinds = A[0] + B[0]
    if rend:
        r.oracle_failure(case, f"template prints {rend!r} but Expression::eval gives {res}", f"float:{op}:render")
    if res == "panic":
        r.oracle_failure(case, "panic", f"float:{op}:panic")
        return "panic"
    a, b = as_fraction(A), as_fraction(B)
    if b == 0:
        return "zero-divisor"          # the law says nothing; only "no panic" is demanded
    if not res.startswith("f:"):
        r.oracle_failure(case, f"float operation returned {res}", f"float:{op}:non-float:{kinds}")
        return "other"
    got = f_of_bits(res[2:])
    q, rem = euclid_divmod(a, b)
    if op == "rem":
        want = float(rem)              # correctly rounded exact Euclidean remainder
        if got != got or not (0 <= got):
            r.oracle_failure(case, f"a % b = {got!r} is negative or NaN (exact Euclidean remainder {want!r})", f"float:rem:negative:{kinds}")
            return "bad"
        if not (Fraction(got) < abs(b)):
            r.oracle_failure(case, f"a % b = {got!r} is not below |b| (exact remainder {want!r})", "float:rem:rounds-to-modulus")
            return "bad"
        if got != want:
            r.oracle_failure(case, f"a % b = {got!r}, exact Euclidean remainder is {want!r}", f"float:rem:wrong-value:{kinds}")
            return "bad"
        return "exact"
    # fdiv: the Euclidean quotient itself while integers are exact in f64 with room for the
    # rounding of a - r (|q| < 2^51), within 2 ulp beyond that (only 53 bits can be carried)
    if abs(q) < (1 << 51):
        if got != q:
            r.oracle_failure(case, f"a // b = {got!r}, Euclidean quotient is {q} (a % b exact = {float(rem)!r})", f"float:fdiv:wrong-value:{kinds}")
            return "bad"
        return "exact"
    if abs(q) >= (1 << 1023):
        return "overflow"
    if got != got or got in (float("inf"), float("-inf")) or Fraction(got).denominator != 1 \
            or abs(Fraction(got) - q) * (1 << 51) > abs(q):
        r.oracle_failure(case, f"a // b = {got!r}, Euclidean quotient is {q}", f"float:fdiv:wrong-large:{kinds}")
        return "bad"
    return "approx"


def bits_of(x):
    return struct.unpack(">Q", struct.pack(">d", x))[0]


def ulp_distance(x, y):
    """number of doubles between two finite doubles of the same sign region (ordered bit patterns)"""
    def ordered(v):
        b = bits_of(v)
        return b if b < (1 << 63) else (1 << 63) - b
    return abs(ordered(x) - ordered(y))


def as_float_operand(X):
    """the f64 the engine computes with: ints and bools are converted `as f64` (round to nearest even)"""
    return X[1] if X[0] == "f" else float(X[1])


def check_float_arith(r, case, op, A, B, impl):
    """+ - * / ** with at least one float operand (and / of any two numbers): IEEE-754 binary64,
    i.e. the exact result rounded to nearest, ties to even; Python's float arithmetic is the
    independent witness (the Lean bit-pattern model is the other one)"""
    res, rend = split_impl(impl)[0], split_impl(impl)[1].get("render", "")
    kinds = A[0] + B[0]
    if rend:
        r.oracle_failure(case, f"template prints {rend!r} but Expression::eval gives {res}", f"farith:{op}:render")
    if res == "panic":
        r.oracle_failure(case, "panic", f"farith:{op}:panic")
        return "panic"
    if not res.startswith("f:"):
        r.oracle_failure(case, f"float operation returned {res}", f"farith:{op}:non-float:{kinds}")
        return "other"
    got = f_of_bits(res[2:])
    a, b = as_float_operand(A), as_float_operand(B)
    nan = float("nan")
    try:
        if op == "add":
            want = a + b
        elif op == "sub":
            want = a - b
        elif op == "mul":
            want = a * b
        elif op == "div":
            if b == 0:
                want = nan if (a == 0 or a != a) else math.copysign(float("inf"), a) * math.copysign(1.0, b)
            else:
                want = a / b
        else:
            want = None
    except OverflowError:
        want = None
    if op == "pow":
        try:
            want = math.pow(a, b)
        except (OverflowError, ValueError, ZeroDivisionError):
            return "special"           # the IEEE special cases are judged by the Lean table only
        if want != want or got != got:
            if (want != want) != (got != got):
                r.oracle_failure(case, f"a ** b = {got!r}, libm pow gives {want!r}", "farith:pow:nan-mismatch")
                return "bad"
            return "nan"
        if want in (float("inf"), float("-inf")) or got in (float("inf"), float("-inf")) or want == 0 or got == 0:
            if bits_of(want) != bits_of(got):
                r.oracle_failure(case, f"a ** b = {got!r}, libm pow gives {want!r}", "farith:pow:wrong-value")
                return "bad"
            return "exact"
        if ulp_distance(got, want) > 1:
            r.oracle_failure(case, f"a ** b = {got!r}, libm pow gives {want!r} ({ulp_distance(got, want)} ulps apart)", "farith:pow:wrong-value")
            return "bad"
        return "exact" if got == want else "1ulp"
    if want is None:
        return "unconstrained"
    if want != want:
        if got == got:
            r.oracle_failure(case, f"returned {got!r}, IEEE result is NaN", f"farith:{op}:wrong-value:{kinds}")
            return "bad"
        return "nan"
    if bits_of(got) != bits_of(want):
        r.oracle_failure(case, f"returned {got!r} (bits {res[2:]}), the correctly rounded result is {want!r} (bits {bits_of(want):016x})", f"farith:{op}:wrong-value:{kinds}")
        return "bad"
    return "exact"


def cmp_exact(op, x, y):
    return {"lt": x < y, "le": x <= y, "gt": x > y, "ge": x >= y, "eq": x == y, "ne": x != y}[op]


def check_cmp(r, case, op, A, B, impl):
    res, rend = split_impl(impl)[0], split_impl(impl)[1].get("render", "")
    kinds = A[0] + B[0]
    if rend:
        r.oracle_failure(case, f"template prints {rend!r} but Expression::eval gives {res}", f"cmp:{op}:render")
    truth = cmp_exact(op, A[1], B[1])                        # Python compares int/float exactly
    ab, bb = A[2] == "bool", B[2] == "bool"
    if ab != bb and op not in ("eq", "ne"):
        # `Ord for Value` compares the kinds first: every Bool sorts before every number
        # (`bool_before_every_number`); only `==` / `!=` look at the number a Bool stands for
        truth = {"lt": ab, "le": ab, "gt": bb, "ge": bb}[op]
    want = "b:1" if truth else "b:0"
    if res != want:
        which = "int" if kinds == "ii" else ("float" if kinds == "ff" else "int-float")
        r.oracle_failure(case, f"{op} gives {res}, exact comparison gives {want}", f"cmp:{which}:{'eq' if op in ('eq', 'ne') else 'order'}")
        return "bad"
    return "exact"


OPS_FILTER = ("f_abs", "f_int", "f_float", "f_round", "f_sum", "t_odd", "t_even", "t_divby")
OPS_MORE = ("f_min", "f_max", "f_sortfirst", "f_sortlast", "f_rsortfirst", "f_uniquelen", "f_in", "f_concat", "f_range", "f_rangelen", "f_rangestep", "f_batchlen", "f_fsize",
            "f_trunc", "f_indent", "f_strint", "f_strfloat", "f_roundp")
I64_MIN, I64_MAX = -(1 << 63), (1 << 63) - 1
TEST_NAMES = {"eq": "eq", "equalto": "eq", "==": "eq", "ne": "ne", "!=": "ne", "lt": "lt", "lessthan": "lt", "<": "lt",
              "le": "le", "<=": "le", "gt": "gt", "greaterthan": "gt", ">": "gt", "ge": "ge", ">=": "ge"}


def check_chain(r, case, op, opds, impl):
    """`a OP1 b OP2 c ...` must be the conjunction of its links (exact comparisons of the values)"""
    res = split_impl(impl)[0]
    ops = op.split(":", 1)[1].split(",")
    if res == "panic":
        r.oracle_failure(case, "panic", "chain:panic")
        return "panic"
    if any(o in ("in", "notin") for o in ops):
        # a list takes part: judged by the metamorphic relation only (harness: `|conj=`)
        return "metamorphic"
    want = all(cmp_exact(o, opds[i][1], opds[i + 1][1]) for i, o in enumerate(ops))
    if res != ("b:1" if want else "b:0"):
        first_bad = next((i for i, o in enumerate(ops) if not cmp_exact(o, opds[i][1], opds[i + 1][1])), None)
        pos = "final" if (first_bad if first_bad is not None else len(ops) - 1) == len(ops) - 1 else "inner"
        r.oracle_failure(case, f"chain gives {res}, the conjunction of the exact comparisons is {want}", f"chain:wrong-value:{pos}-link")
        return "bad"
    return "exact"


def check_impl(r, case, op, A, B, impl):
    """tests `is <name>`, select / reject / selectattr with a test name: the same answer as the operator"""
    res = split_impl(impl)[0]
    kind, name = op.split(":", 1)
    if res == "panic":
        r.oracle_failure(case, "panic", f"impl:{kind}:panic")
        return "panic"
    truth = cmp_exact(TEST_NAMES[name], A[1], B[1])
    if kind == "is":
        want = "b:1" if truth else "b:0"
    elif kind == "rej":
        want = "i:0" if truth else "i:1"
    else:
        want = "i:1" if truth else "i:0"
    if res != want:
        r.oracle_failure(case, f"returned {res}, the operator {TEST_NAMES[name]} gives {truth}", f"impl:{kind}:{TEST_NAMES[name]}")
        return "bad"
    return "exact"


def split_impl(impl):
    """`res|render=..|runtime=..|embedK=..` -> (res, {tag: value})"""
    parts = impl.split("|")
    res, extra = parts[0], {}
    for p in parts[1:]:
        tag, _, v = p.partition("=")
        if tag in ("render", "runtime", "conj", "conjrt", "via", "stepwise", "inner", "shown") or tag.startswith("embed"):
            extra[tag] = v
        else:                      # a `|` inside a value
            res = res if not extra else res
            last = list(extra)[-1] if extra else None
            if last is None:
                res += "|" + p
            else:
                extra[last] += "|" + p
    return res, extra


def check_consistency(r, case, op, impl):
    """the same expression must give the same answer when folded at compile time, evaluated at run
    time, printed by a template, and reached through other features / entry points"""
    res, extra = split_impl(impl)
    for tag, v in extra.items():
        if tag in ("render", "inner"):
            continue               # reported by the stream's own check
        if tag == "shown":
            check_float_print(r, case, res, v)
            continue
        if tag == "runtime":
            r.oracle_failure(case, f"constant folding gives {res}, the run-time operator gives {v}", "consistency:folded-vs-runtime")
        elif tag == "via":
            r.oracle_failure(case, f"the direct form gives {res}, the same filter / test applied by name through map / select gives {v}", "consistency:via-map-select")
        elif tag == "stepwise":
            r.oracle_failure(case, f"the nested expression gives {res}, evaluating the inner operator first and the outer one on its value gives {v}", "consistency:nested-vs-stepwise")
        elif tag in ("conj", "conjrt"):
            r.oracle_failure(case, f"the chained comparison gives {res}, the conjunction of its links gives {v}"
                             + (" (run-time operands)" if tag == "conjrt" else ""), "chain:not-the-conjunction")
        else:
            r.oracle_failure(case, f"Expression::eval displays {res}, embedding {tag[5:]} prints {v!r}", f"consistency:embedding:{tag[5:]}")
    return res


def check_float_print(r, case, res, text):
    """a float result is observed as rendered text: the text has to denote that very double (read back
    correctly rounded it gives the same bits), so that no digit the operators computed is lost on
    the way out.  Shortness / notation are not demanded."""
    if not res.startswith("f:"):
        return
    bits = res[2:]
    try:
        back = float(text.replace("_", "x"))        # Python's float() would accept `_`
    except ValueError:
        r.oracle_failure(case, f"the float result {bits} is printed as {text!r}, which is not a number text", "float:print:not-a-number-text")
        return
    if bits == "nan" or (int(bits, 16) & 0x7fffffffffffffff) > 0x7ff0000000000000:
        ok = back != back
    else:
        ok = back == f_of_bits(bits)                # as numbers: the sign of a zero is not demanded
    if not ok:
        r.oracle_failure(case, f"the float result {f_of_bits(bits)!r} (bits {bits}) is printed as {text!r}, which reads back as {back!r}", "float:print:not-round-trip")


def as_exact(res):
    """engine result -> exact rational, or None"""
    if res.startswith("i:"):
        return Fraction(int(res[2:]))
    if res.startswith("f:"):
        v = f_of_bits(res[2:])
        return Fraction(v) if v == v and v not in (float("inf"), float("-inf")) else None
    return None


def isize_ok(x):
    return I64_MIN <= x <= I64_MAX


def check_more(r, case, op, A, B, impl):
    res = split_impl(impl)[0]
    name = op[2:]
    if res == "panic":
        r.oracle_failure(case, "panic", f"func:{name}:panic")
        return "panic"
    if res == "err:SyntaxError":
        r.oracle_failure(case, "a well-formed number literal is rejected by the lexer/parser", "literal:syntax-error")
        return "err"

    def text():
        return bytes.fromhex(res[2:]).decode("utf-8") if res.startswith("s:") else None

    if op == "f_uniquelen":
        want = 1 if A[1] == B[1] else 2
        if res != "i:%d" % want:
            r.oracle_failure(case, f"unique keeps {res} items, the values are {'equal' if want == 1 else 'different'}", "func:unique:wrong-value")
            return "bad"
        return "exact"
    if op == "f_in":
        want = A[1] == B[1]
        if res != ("b:1" if want else "b:0"):
            r.oracle_failure(case, f"`a in [b]` gives {res}, a == b is {want}", "func:in:wrong-value")
            return "bad"
        return "exact"
    if op in ("f_min", "f_max", "f_sortfirst", "f_sortlast", "f_rsortfirst"):
        if A[2] == "bool" or B[2] == "bool":
            # the value order puts every Bool before every number and returns the Bool itself; judged
            # by the Lean model (C07's `cmpV`) only
            return "bool"
        infs = (float("inf"), float("-inf"))
        if A[1] in infs or B[1] in infs:
            return "unconstrained"
        vals = [Fraction(X[1]) for X in (A, B)]
        want = min(vals) if op in ("f_min", "f_sortfirst") else max(vals)
        got = as_exact(res)
        if got is None or got != want:
            r.oracle_failure(case, f"returned {res}, the exact {'minimum' if op in ('f_min', 'f_sortfirst') else 'maximum'} is {want}", f"func:{name}:wrong-value")
            return "bad"
        return "exact"
    if op == "f_concat":
        if res.startswith("err:"):
            return "err"
        want = str(A[1]) + str(B[1])
        if text() != want:
            r.oracle_failure(case, f"returned {text()!r}, the decimal texts concatenated are {want!r}", "func:concat:wrong-value")
            return "bad"
        return "exact"
    if op in ("f_range", "f_rangelen", "f_rangestep"):
        if op == "f_rangestep":
            lo, hi, step = 0, A[1], B[1]
        else:
            lo, hi, step = A[1], B[1], 1
        ok_args = isize_ok(lo) and isize_ok(hi) and isize_ok(step) and step != 0
        n = None
        if ok_args:                # length of range(lo, hi, step) without materialising it
            n = max(0, -((lo - hi) // step)) if step > 0 else max(0, -((hi - lo) // -step))
        if res.startswith("err:"):
            if ok_args and n <= 100000:
                r.oracle_failure(case, f"error {res} for a range of {n} items with arguments that fit isize", f"func:{name}:spurious-error")
            return "err"
        if not ok_args:
            r.oracle_failure(case, f"returned {res} for arguments outside isize / a zero step", f"func:{name}:missing-error")
            return "bad"
        if op == "f_rangelen":
            good = res == "i:%d" % n
        else:
            good = n <= 100000 and text() == ",".join(str(x) for x in range(lo, hi, step))
        if not good:
            r.oracle_failure(case, f"returned {res}, Python's range({lo}, {hi}, {step}) has {n} items", f"func:{name}:wrong-value")
            return "bad"
        return "exact"
    if op == "f_batchlen":
        n, per = A[1], B[1]
        if res.startswith("err:"):
            if 1 <= per <= I64_MAX:
                r.oracle_failure(case, f"error {res} for batch({per}) of {n} items", "func:batchlen:spurious-error")
            return "err"
        want = -(-n // per) if per >= 1 else None
        if want is None or res != "i:%d" % want:
            r.oracle_failure(case, f"returned {res}, ceil({n}/{per}) batches expected", "func:batchlen:wrong-value")
            return "bad"
        return "exact"
    if op == "f_roundp":
        if A[0] == "i":
            if res.startswith("err:"):
                if in_i128(A[1]):
                    r.oracle_failure(case, f"error {res} rounding an integer", "func:roundp:spurious-error")
                return "err"
            if res != "i:%d" % A[1]:
                r.oracle_failure(case, f"returned {res}, an integer rounds to itself", "func:roundp:wrong-value")
                return "bad"
            return "exact"
        if A[0] != "f" or B[0] != "i":
            return "other"
        p = B[1]
        if not (-22 <= p <= 22) or A[1] != A[1] or A[1] in (float("inf"), float("-inf")):
            return "unconstrained"
        # `let x = 10f64.powi(p); (x * val).round() / x`: each step correctly rounded, `round` = half away from zero
        x = float(10 ** p) if p >= 0 else 1.0 / float(10 ** -p)
        m = x * A[1]
        if m in (float("inf"), float("-inf")):
            return "unconstrained"
        n = (abs(Fraction(m)) + Fraction(1, 2)).__floor__()
        rounded = math.copysign(float(n), m)
        want = rounded / x
        if not res.startswith("f:") or bits_of(f_of_bits(res[2:])) != bits_of(want):
            r.oracle_failure(case, f"returned {res}, expected {want!r} (bits {bits_of(want):016x})", "func:roundp:wrong-value")
            return "bad"
        return "exact"
    if op in ("f_strint", "f_strfloat"):
        t = A[1]
        plain_int = re.fullmatch(r"[+-]?[0-9]+", t) is not None
        try:
            fl = float(t) if re.fullmatch(r"[+-]?([0-9]+\.?[0-9]*|\.[0-9]+)([eE][+-]?[0-9]+)?", t) else None
        except ValueError:
            fl = None
        # a more lenient reading some parser might accept (surrounding blanks, `_`, radix prefixes):
        # accepting it is not a wrong number
        lenient_int = lenient_fl = None
        tt = t.strip().replace("_", "")
        try:
            lenient_int = int(tt, 0) if not re.fullmatch(r"[+-]?0[0-9]+", tt) else int(tt)
        except ValueError:
            pass
        try:
            lenient_fl = float(tt) if tt.lower().lstrip("+-") not in ("nan", "inf", "infinity") else None
        except ValueError:
            pass
        if op == "f_strfloat":
            word = t[1:].lower() if t[:1] in ("+", "-") else t.lower()
            if word in ("inf", "infinity", "nan"):
                # Rust's f64::from_str reads these words (any case, optional sign)
                want = float(("-" if t[:1] == "-" else "") + word)
                if not same_float(res, want) or (want == want and bits_of(f_of_bits(res[2:])) != bits_of(want)):
                    r.oracle_failure(case, f"{t!r}|float returned {res}, expected {want!r}", "func:strfloat:wrong-value")
                    return "bad"
                return "exact"
            if res.startswith("err:"):
                return "err"           # Rust's grammar is narrower than any oracle's: failing is allowed
            if fl is None and lenient_fl is not None and same_float(res, lenient_fl):
                return "lenient"
            if fl is None or not same_float(res, fl):
                r.oracle_failure(case, f"{t!r}|float returned {res}, correctly rounded value is {fl!r}", "func:strfloat:wrong-value")
                return "bad"
            return "exact"
        # int filter on strings: exact integer text -> that integer; otherwise through f64 -> trunc
        if res.startswith("err:"):
            if plain_int and in_i128(int(t)):
                r.oracle_failure(case, f"{t!r}|int fails although it is an integer that fits i128", "func:strint:spurious-error")
            return "err"
        if plain_int and not in_i128(int(t)):
            # an integer text that does not fit is out of range: never the neighbour its float
            # approximation truncates to (`int_text_overflow_is_error`)
            r.oracle_failure(case, f"{t!r}|int returned {res} for an integer text outside the signed 128-bit range", "func:strint:int-text-out-of-range")
            return "bad"
        if plain_int and in_i128(int(t)):
            want = int(t)
        elif fl is not None and fl == fl and abs(fl) != float("inf") and in_i128(int(fl)):
            want = int(fl)
        else:
            want = None
        if want is None and lenient_int is not None and in_i128(lenient_int) and res == "i:%d" % lenient_int:
            return "lenient"
        if want is None and lenient_fl is not None and abs(lenient_fl) != float("inf") and in_i128(int(lenient_fl)) \
                and res == "i:%d" % int(lenient_fl):
            return "lenient"
        if want is None or res != "i:%d" % want:
            what = "no integer of the signed 128-bit range (an error is required)" if want is None else str(want)
            r.oracle_failure(case, f"{t!r}|int returned {res}, expected {what}", "func:strint:" + ("saturated" if want is None else "wrong-value"))
            return "bad"
        return "exact"
    # f_fsize, f_trunc, f_indent: no arithmetic spec here; no panic, and (via the operand key) the
    # same answer for every width / spelling of the same argument
    return "err" if res.startswith("err:") else "consistent"





def same_float(res, want):
    return res.startswith("f:") and (f_of_bits(res[2:]) == want or (want != want and f_of_bits(res[2:]) != f_of_bits(res[2:])))


def check_filter(r, case, op, A, B, impl):
    """filters and tests must agree with the operators: exact, or an error where the operator may fail"""
    res, rend = split_impl(impl)[0], split_impl(impl)[1].get("render", "")
    name = op[2:]
    if rend:
        r.oracle_failure(case, f"template prints {rend!r} but Expression::eval gives {res}", f"filter:{name}:render")
    if res == "panic":
        r.oracle_failure(case, "panic", f"filter:{name}:panic")
        return "panic"
    if res == "err:SyntaxError":
        r.oracle_failure(case, "a well-formed number literal is rejected by the lexer/parser", "literal:syntax-error")
        return "err"
    a = A[1]

    def int_result(exact, required, what):
        if res.startswith("err:"):
            if required:
                r.oracle_failure(case, f"error {res}, but {what} = {exact} fits the signed 128-bit range", f"filter:{name}:spurious-error")
            return "err"
        if res != "i:%d" % exact:
            r.oracle_failure(case, f"returned {res}, {what} = {exact}", f"filter:{name}:wrong-value")
            return "bad"
        return "exact"

    def bool_result(constrained, want):
        if not constrained:
            return "unconstrained"
        if res != ("b:1" if want else "b:0"):
            r.oracle_failure(case, f"returned {res}, the operators give {want}", f"filter:{name}:wrong-value")
            return "bad"
        return "exact"

    if A[2] == "bool":
        # Bool operands: `int` -> 0 / 1, `float` -> 0.0 / 1.0, odd / even of 0 / 1; abs, round and sum
        # accept numbers only
        if op == "f_int":
            return int_result(a, True, "the number the bool stands for")
        if op == "f_float":
            if not same_float(res, float(a)):
                r.oracle_failure(case, f"returned {res}, expected {float(a)!r}", "filter:float:wrong-value")
                return "bad"
            return "exact"
        if op in ("f_abs", "f_round", "f_sum"):
            if not res.startswith("err:"):
                r.oracle_failure(case, f"returned {res} for a Bool operand; the filter accepts numbers only", f"filter:{name}:bool-accepted")
                return "bad"
            return "err"
        if op == "t_odd":
            return bool_result(True, a % 2 == 1)
        if op == "t_even":
            return bool_result(True, a % 2 == 0)
    if op == "f_sum" and B is not None and B[2] == "bool":
        if not res.startswith("err:"):
            r.oracle_failure(case, f"returned {res} for a Bool item; sum accepts numbers only", "filter:sum:bool-accepted")
            return "bad"
        return "err"
    if op == "t_divby" and (A[0] == "f" or B[0] == "f"):
        # `coerce(v, other, false)`: F64(a, b) => (a % b) == 0.0; a lossless common float must exist
        fa, fb = as_float_operand(A), as_float_operand(B)
        lossless = (A[0] == "f" or Fraction(fa) == A[1]) and (B[0] == "f" or Fraction(fb) == B[1])
        if not lossless:
            return bool_result(True, False)
        if fa != fa or fb != fb or fa in (float("inf"), float("-inf")) or fb == 0:
            return bool_result(True, False)
        if fb in (float("inf"), float("-inf")):
            return bool_result(True, fa == 0)
        return bool_result(True, math.fmod(fa, fb) == 0)
    if op in ("t_odd", "t_even") and A[0] == "f":
        # `i128::try_from(value)`: an integral float inside the i64 range counts as that integer
        x = A[1]
        finite = x == x and x not in (float("inf"), float("-inf"))
        if not finite or x != math.floor(x):
            return bool_result(True, False)               # neither odd nor even
        if -(1 << 63) <= x < (1 << 63):
            return bool_result(True, int(x) % 2 == (1 if op == "t_odd" else 0))
        # an integral float beyond i64 is not an integer for the engine (both tests say false); every
        # such double is an even number, so `odd` must be false, `even` may follow either reading
        if op == "t_odd":
            return bool_result(True, False)
        return "unconstrained" if res in ("b:0", "b:1") else bool_result(True, False)
    if A[0] == "i":
        if op == "f_abs":        # x|abs == -x for negative x, x otherwise
            return int_result(abs(a), in_i128(a) and in_i128(abs(a)), "|x|")
        if op in ("f_int", "f_round"):
            return int_result(a, in_i128(a), "x")
        if op == "f_float":
            if not same_float(res, float(a)):
                r.oracle_failure(case, f"returned {res}, the correctly rounded float is {float(a)!r}", "filter:float:wrong-value")
                return "bad"
            return "exact"
        if op == "f_sum":        # [a, b]|sum == a + b
            b = B[1]
            return int_result(a + b, in_i128(a) and in_i128(b) and in_i128(a + b), "a + b")
        if op == "t_odd":        # x is odd  <=>  x % 2 == 1 (where % yields a value)
            return bool_result(in_i128(a), a % 2 == 1)
        if op == "t_even":
            return bool_result(in_i128(a), a % 2 == 0)
        if op == "t_divby":      # x is divisibleby(y)  <=>  x % y == 0 (where % yields a value)
            b = B[1]
            return bool_result(in_i128(a) and in_i128(b) and b != 0, b != 0 and a % b == 0)
    else:
        x = Fraction(a)
        if op == "f_abs":
            want = abs(a)
        elif op == "f_float":
            want = a
        elif op == "f_round":    # half away from zero
            n = (abs(x) + Fraction(1, 2)).__floor__()
            want = float(n) if a >= 0 else -float(n)
        elif op == "f_int":
            t = int(a)           # truncation, exact
            if not in_i128(t):
                if not res.startswith("err:"):
                    r.oracle_failure(case, f"returned {res} for a float outside the signed 128-bit range (trunc(x) = {t}): an error is required", "filter:int:saturated")
                    return "bad"
                return "err"
            return int_result(t, True, "trunc(x)")
        else:
            return "other"
        if not same_float(res, want):
            r.oracle_failure(case, f"returned {res}, expected {want!r}", f"filter:{name}:wrong-value")
            return "bad"
        return "exact"
    return "other"


def check_lex(r, case, text, impl, model):
    """the lexer alone: real tokenizer against the Lean model of eat_number; for well-formed
    literals also against the independent reading"""
    norm = impl
    if impl.startswith("float:"):
        bits, _, end = impl[6:].partition("@")
        norm = "float@" + end
        try:
            want = float(text[:int(end)].replace("_", ""))
            if struct.pack(">d", want) != struct.pack(">d", f_of_bits(bits)):
                r.oracle_failure(case, f"float literal {text[:int(end)]} lexed to {f_of_bits(bits)!r}, correctly rounded value is {want!r}", "literal:float-value")
        except ValueError:
            pass
    if model is not None and norm != model:
        r.model_disagreement(case, impl, model)
    return "lexed"


def py_spec(case):
    """the exact-integer verdict in the same notation as the Lean driver's third column"""
    f = case.split(" ")
    op = f[0]
    if op == "lex" or op not in OPS_BIN + ("neg",):
        return "-"
    A = parse_operand(f[1])
    B = parse_operand(f[2]) if len(f) > 2 else None
    if op not in OPS_BIN + ("neg",) or A[0] != "i" or (B is not None and B[0] != "i"):
        return "-"
    if A[2] == "bool" or (B is not None and B[2] == "bool"):
        return "-"
    a, b = A[1], (B[1] if B else None)
    defined, exact = int_exact(op, a, b)
    if not defined:
        return "undef"
    if exact is None or (op == "pow" and abs(a) >= 2 and b >= 128):
        return "big"
    return "x:%d:%s" % (exact, "req" if int_required(op, a, b, exact) else "opt")


class _Collect:
    """stand-in for Run that only collects oracle failures"""
    def __init__(self):
        self.fails = []

    def oracle_failure(self, case, what, site=None):
        self.fails.append((case, what, site))


def judge_core(case, impl):
    """-> (stream, op, outcome, width_key or None, failures); no side effects"""
    c = _Collect()
    f = case.split(" ")
    op = f[0]
    opds = [parse_operand(t) for t in f[1:]]
    A = opds[0]
    B = opds[1] if len(opds) > 1 else None
    allint = A[0] == "i" and (B is None or B[0] == "i")
    key = None
    check_consistency(c, case, op, impl)
    if op.startswith("nest:"):
        stream = "nested"
        res, extra = split_impl(impl)
        if res == "panic":
            c.oracle_failure(case, "panic", "nested:panic")
        out = "err" if res.startswith("err:") else "consistent"
        # `(A op1 B) op2 C`: the value V the engine computed for `A op1 B` (judged by the case `op1 A B`
        # of its own) is an operand like any other - the outer operator on (V, C) gets the full oracle
        tok = computed_operand_token(extra.get("inner", ""))
        o2 = op.split(":", 1)[1].split(",")[1]
        if tok is not None and len(f) == 4 and not any(k in extra for k in ("stepwise", "runtime")):
            sub = judge_core(f"{o2} {tok} {f[3]}", res)
            for _, what, site in sub[4]:
                c.oracle_failure(case, f"with the computed left operand {tok}: {what}", site)   # same site as the direct form
            out = "judged:" + sub[2]
    elif op.startswith("chain:"):
        stream = "chain"
        out = check_chain(c, case, op, opds, impl)
    elif op.split(":")[0] in ("is", "sel", "rej", "selattr"):
        stream = "impl"
        out = check_impl(c, case, op, A, B, impl)
    elif op in OPS_MORE:
        stream = "func"
        out = check_more(c, case, op, A, B, impl)
        if A[0] == "i" and (B is None or B[0] == "i") and A[2] != "bool" and (B is None or B[2] != "bool"):
            key = (op, A[1], B[1] if B else None)
    elif op in OPS_FILTER:
        stream = "filter"
        out = check_filter(c, case, op, A, B, impl)
    elif op == "neg" and A[0] == "f":
        stream = "float-unary"
        res = split_impl(impl)[0]
        want = -A[1]
        if not (res.startswith("f:") and struct.pack(">d", f_of_bits(res[2:])) == struct.pack(">d", want)):
            c.oracle_failure(case, f"-x returned {res}, expected {want!r}", "float:neg:wrong-value")
            out = "bad"
        else:
            out = "exact"
    elif op in OPS_CMP:
        stream = "cmp-int" if allint else "cmp-float"
        out = check_cmp(c, case, op, A, B, impl)
    elif op == "div" or (not allint and op in ("add", "sub", "mul", "pow")):
        stream = "float-arith"
        out = check_float_arith(c, case, op, A, B, impl)
    elif allint:
        stream = "int"
        out = check_int(c, case, op, A, B, impl)
        if not (op == "neg" and A[2] == "bool"):
            # a Bool counts as the integer it stands for (`bool_width_independent`)
            key = (op, A[1], B[1] if B else None)
    else:
        stream = "float-euclid"
        out = check_float_euclid(c, case, op, A, B, impl)
    return stream, op, out, key, c.fails


def computed_operand_token(inner):
    """engine value of an inner expression -> operand token of the same value (None: not a finite number)"""
    if inner.startswith("i:"):
        v = int(inner[2:])
        return ("i128:%d" if in_i128(v) else "u128:%d") % v
    if inner.startswith("f:") and inner[2:] != "nan":
        bits = int(inner[2:], 16)
        if (bits & 0x7fffffffffffffff) < 0x7ff0000000000000:
            return "f64:%016x" % bits
    return None


def explained_by_neg_defect(case, impl):
    """the case has an operand spelled `-2^127` and the engine's answer is exactly right for the
    operand the recorded defect produces instead (+2^127 as u128)"""
    toks = case.split(" ")
    hit = [t.startswith(("lit:", "src:")) and parse_operand(t)[1] == -P127 for t in toks[1:]]
    if not any(hit):
        return None
    alt = " ".join([toks[0]] + [DEFECT_AS if h else t for t, h in zip(toks[1:], hit)])
    res = judge_core(alt, impl)
    return res if all(site == KNOWN_NEG_SITE for _, _, site in res[4]) else None


def judge(r, case, impl, width):
    stream, op, out, key, fails = judge_core(case, impl)
    if fails:
        alt = explained_by_neg_defect(case, impl)
        if alt is not None:
            # wrong only because the operand `-2^127` was evaluated to +2^127: the known site, once
            r.oracle_failure(case, "operand -170141183460469231731687303715884105728 is evaluated to +2^127 "
                             "(unary minus of the u128 literal); " + fails[0][1], KNOWN_NEG_SITE)
            key, fails = alt[3], []
    for c, what, site in fails:
        r.oracle_failure(c, what, site)
    if key is not None:
        res = split_impl(impl)[0]
        prev = width.setdefault(key, (res, case, impl))
        if prev[0] != res:
            # two spellings of the same operands disagree; attributable to the recorded defect only
            # if one of them spells -2^127 as a literal and behaves exactly as that defect predicts
            if explained_by_neg_defect(case, impl) is not None or explained_by_neg_defect(prev[1], prev[2]) is not None:
                r.oracle_failure(case, f"outcome {res} differs from {prev[0]} for `{prev[1]}` because the literal -2^127 is evaluated to +2^127", KNOWN_NEG_SITE)
            else:
                r.oracle_failure(case, f"outcome {res} differs from {prev[0]} for the same mathematical operands written as `{prev[1]}`", f"int:{op}:width-dependent")
    return stream, op, out, key is not None


EMBEDDINGS = ["set-variable", "macro-call", "namespace-augmented-assign", "for-loop-variable", "render_block via render_captured",
              "custom-delimiters", "autoescape-html", "concat-with-empty-string", "strict-undefined+debug-off",
              "loader-template via render_captured_to", "State::call_macro", "conditional-expression", "with-block",
              "list-item", "dict-value", "default-filter-argument", "dict()-keyword-argument inside for+if", "fuel-limited-environment"]


def embedding_of(case):
    """which embedding the harness adds for this case (same FNV-1a hash as harness/src/bin/c08.rs)"""
    h = 0xcbf29ce484222325
    for f in case.split(" "):
        for b in f.encode() + b" ":
            h ^= b
            h = (h * 0x100000001b3) & 0xFFFFFFFFFFFFFFFF
    return EMBEDDINGS[(h // 4) % len(EMBEDDINGS)] if h % 4 == 0 else None


N_SHARDS = max(2, min(16, os.cpu_count() or 4))


def shard_of(case, n):
    """cases with the same operator and the same mathematical operands land in the same shard (the
    width-independence check compares them); deterministic"""
    f = case.split(" ")
    vals = [t.rsplit("=", 1)[1] if t.startswith(("src:", "fsrc:", "fexp:")) else t.split(":", 1)[-1] for t in f[1:]]
    return zlib.crc32((f[0] + " " + " ".join(vals)).encode()) % n


class _Shard:
    """what a worker process collects for its share of the cases; merged by the parent in shard order"""
    def __init__(self):
        self.fails, self.disagreements, self.broken, self.samples = [], [], [], []
        self.hist = collections.defaultdict(collections.Counter)
        self.evaluations, self.distinct = 0, set()
        self.n_model, self.n_width = 0, 0

    def oracle_failure(self, case, what, site=None):
        self.fails.append((case, what, site))

    def model_disagreement(self, case, impl, model):
        self.disagreements.append((case, impl, model))

    def count(self, case_key=None, nontrivial=True, n=1):
        self.evaluations += n
        if case_key is not None and nontrivial:
            self.distinct.add(hashlib.blake2b(str(case_key).encode(), digest_size=8).digest())

    def sample(self, obj):
        self.samples.append(obj)


_INFO_TAGS = re.compile(r"\|(?:shown|inner)=[^|]*")


def same_result(impl, m):
    """engine result line == model result line; any two NaNs are the same result.  `|shown=` (the
    text of a float result) and `|inner=` (the inner value of a nested case) are observations for
    the oracle, not disagreements of the engine with itself"""
    impl = _INFO_TAGS.sub("", impl)
    if impl == m:
        return True
    if impl.startswith("f:") and m.startswith("f:") and "|" not in impl:
        x = impl[2:]
        xn = x != "nan" and (int(x, 16) & 0x7fffffffffffffff) > 0x7ff0000000000000
        mn = m[2:] == "nan" or (int(m[2:], 16) & 0x7fffffffffffffff) > 0x7ff0000000000000
        return xn and mn
    return False


def run_shard(args):
    exe, driver_exe, env, cases_text, index = args
    sh = _Shard()
    t0 = time.time()
    p = subprocess.run([exe, "run"], input=cases_text, capture_output=True, text=True, env=env)
    if p.returncode != 0:
        sh.broken.append(f"harness c08 run (shard {index}) exited {p.returncode}: {p.stderr[-300:]}")
        return sh
    out = p.stdout
    lines = out.splitlines()
    t1 = time.time()
    d = subprocess.run([driver_exe], input=out, capture_output=True, text=True)
    model = d.stdout.splitlines() if d.returncode == 0 else None
    if model is None or len(model) != len(lines):
        sh.broken.append(f"model driver output does not line up with the harness cases (shard {index}): {d.stderr[-200:]}")
        model = None
    t2 = time.time()
    width = {}
    for i, line in enumerate(lines):
        case, impl = line.split("\t")
        if case.startswith("lex "):
            m = model[i].split("\t")[1] if model is not None else None
            check_lex(sh, case, case[4:], impl, m)
            sh.count(case, True)
            sh.hist["stream"]["lex"] += 1
            sh.hist["outcome"]["lex:" + impl.split(":")[0].split("@")[0]] += 1
            sh.n_model += 1 if m is not None else 0
            continue
        try:
            stream, op, outcome, allint = judge(sh, case, impl, width)
        except BadCase as e:
            if len(sh.broken) < 5:
                sh.broken.append(f"{e} (case `{case}`)")
            continue
        sh.count(case, outcome not in ("zero-divisor",))
        sh.hist["stream"][stream] += 1
        sh.hist["op"][op] += 1
        sh.hist["outcome"][stream + ":" + outcome] += 1
        sh.hist["forms"][",".join(t.split(":")[0] for t in case.split(" ")[1:])] += 1
        e = embedding_of(case)
        if e:
            sh.hist["embedding"][e] += 1
        if any(t.split(":")[0] in ("lit", "src", "flit", "fsrc", "fexp") for t in case.split(" ")[1:]):
            sh.hist["entry"]["folded-vs-runtime compared"] += 1
        if model is not None:
            c2, m, lspec = model[i].split("\t")
            if lspec != py_spec(case) and len(sh.broken) < 5:
                sh.broken.append(f"exact-arithmetic oracles disagree on `{case}`: Lean Int {lspec}, Python int {py_spec(case)}")
            if c2 != case:
                sh.broken.append(f"model driver line {i} is for `{c2}`, expected `{case}`")
                model = None
            elif m != "skip":
                sh.n_model += 1
                sh.hist["model"][stream] += 1
                if not same_result(impl, m):
                    sh.model_disagreement(case, impl, m)
        if zlib.crc32(case.encode()) % 40009 == 0:
            sh.sample({"case": case, "engine": impl})
    sh.n_width = len(width)
    sh.timing = (round(t1 - t0, 1), round(t2 - t1, 1), round(time.time() - t2, 1))
    return sh


def run(r):
    r.rule = ("boundary zoo (0, +-1, +-2^31, +-2^53+-1, +-2^63+-1, 2^64+-1, +-2^127+-1, 2^128-1, ...) squared x 6 binary operators "
              "x literal and i64/u64/i128/u128 variable forms, unary minus on the zoo in every form, random pairs biased to the "
              "2^63/2^64/2^127/2^128 neighbourhoods (half targeted so that the exact result lands within 2 of an overflow edge), "
              "the REPRESENTATION BOX: 24 core values in every pair of the five forms (serde twins mixed in) x 6 operators, 6 comparisons, "
              "/, sum, divisibleby, min/max, and every form under unary minus, abs, int, float, round, odd, even; "
              "** on [-17,17] x [0,130], the overflow edge of every exponent 1..130 (floor(2^(127/k)) and neighbours, both signs), "
              "exponents around 2^31/2^32/2^63/2^64/2^96/2^127 and with small low 32 bits, negative exponents; "
              "comparisons int/int, int/float, float/float, chained comparisons of length 3 and 4 (all 36 operator pairs on equal / "
              "ordered operand patterns, every comparison case as first / middle link, in / not in links; variables, literals and "
              "mixes) against the conjunction of their links, the tests is eq/ne/lt/le/gt/ge and select/reject/selectattr under all "
              "15 registered names, min/max/sort/unique/in, and // and % with float operands; every literal also re-spelled "
              "(hex/octal/binary with either prefix case, `_` separators, leading zeros, bare or parenthesised minus, floats in "
              "exponent / .0 notation) with all spellings of the same operands required to agree; the tokenizer alone on those "
              "spellings, edge texts and random texts against the Lean model of eat_number; Bool operands of every operator, filter and "
              "test against every core value in every form, the float zoo and random integers; float + - * / on the float zoo squared "
              "and on random pairs aimed at ties, cancellation, overflow and underflow, int/float mixes, / of two integers; float ** on "
              "27 x 35 class representatives (NaN, infinities, zeros, +-1, magnitudes around 1, odd / even / fractional exponents) and "
              "random pairs; round(precision) for precisions -3..22; odd/even/divisibleby on floats; i8..u32 / isize / usize / "
              "serde-passed operands; abs/int/float/round/sum filters and odd/even/divisibleby tests against the operators; strings "
              "through the int and float filters: sign x leading zeros x the integers around 0, 2^53, 2^63, 2^64, 2^127 (incl. the "
              "2^74 wide band below -2^127 whose float approximation is -2^127), blanks, separators, radix prefixes, exponents, "
              "inf / nan words, long digit strings, random texts; NEGATIVE ZERO as literal / variable / computed operand (`fexp:` form) x every zero "
              "(integer forms, +0.0, -0.0) and the nearest non-zero numbers x 6 comparisons both ways, chains with -0.0 in first / middle / last "
              "position x 36 operator pairs, tests / select / reject / selectattr; nested cases `(A op1 B) op2 C` judged by the full oracle on the "
              "engine's inner value (computed operands), targeted at inner zeros of either sign; every float result read back from its rendered text; "
              "the INT/FLOAT comparison box: every core value in every integer form (serde twins included) against the double it rounds to, "
              "both neighbours, its double and its half, in every float form (literal, f64, serde f64, f32 where exact, computed) x 6 "
              "comparisons in alternating order + two chains; odd / even on every zoo float and its neighbours in every float form; "
              "a case is non-trivial when it is distinct and the exact result is defined")
    r.assumptions = ["Rust's i128::checked_add/sub/mul/pow/div_euclid/rem_euclid return the exact result or None (std contract)",
                     "IEEE-754 binary64 +, -, *, /, fmod, trunc, round are the exact result rounded to nearest-even (the Lean float model encodes exactly that; validated bit-for-bit against the engine on every float case, and against Python's float arithmetic)",
                     "f64::from_str is correctly rounded (the Lean model of the float filter on strings computes the correctly rounded value; also judged against Python's float())",
                     "powf follows IEEE 754-2008 9.2.1 in its special cases (Lean table, validated on every class pair) and is within 1 ulp of the platform libm otherwise"]
    r.regen_tables(needed=["C08_NEG_SPECIAL", "C08_INT_METHODS", "C08_LEX_RADIX", "C08_COMPARE_ARMS", "C08_FILTER_FACTS"])
    r.lean_prove("MJ.Props.C08", "MJ/Audit/C08.lean", extra_targets=["drive_c08"])
    exe = r.cargo_build("c08")
    if exe is None:
        return
    t0 = time.time()
    rc, out, err = r.harness(exe, ["cases", r.tier])
    if rc != 0:
        r.broken.append(f"harness c08 cases exited {rc}: {err[-300:]}")
        return
    cases = out.splitlines()
    ok, _ = r.lean_build(["drive_c08"])
    if not ok:
        r.broken.append("model driver drive_c08 does not build")
        return
    import common
    driver_exe = os.path.join(common.LEAN, ".lake", "build", "bin", "drive_c08")
    env = dict(common.ENV)
    env["VERIF_SEED"] = str(r.seed)
    env["VERIF_TIER"] = r.tier
    n = N_SHARDS
    buckets = [[] for _ in range(n)]
    for c in cases:
        buckets[shard_of(c, n)].append(c)
    jobs = [(exe, driver_exe, env, "\n".join(b) + "\n", i) for i, b in enumerate(buckets) if b]
    with concurrent.futures.ProcessPoolExecutor(max_workers=n, mp_context=multiprocessing.get_context("fork")) as pool:
        shards = list(pool.map(run_shard, jobs))
    n_model = n_width = 0
    for sh in shards:                      # shard order, generation order inside a shard: deterministic
        r.broken.extend(sh.broken[: max(0, 8 - len(r.broken))])
        for c, what, site in sh.fails:
            r.oracle_failure(c, what, site)
            r.hist["failure-site"][str(site)] += 1      # every site with its count (finish() lists the first five only)
        for c, impl, m in sh.disagreements:
            r.model_disagreement(c, impl, m)
            r.hist["disagreement-op"][c.split(" ")[0]] += 1
        r.evaluations += sh.evaluations
        r.distinct |= sh.distinct
        for k, cnt in sh.hist.items():
            r.hist[k].update(cnt)
        for smp in sh.samples[:1]:
            r.sample(smp)
        n_model += sh.n_model
        n_width += sh.n_width
    if r.evaluations != len(cases) and not r.broken:
        r.broken.append(f"{len(cases)} cases generated but {r.evaluations} judged")
    # every failure site / disagreeing operator with its count (the histograms of the evidence keep the 40 largest only)
    r.extra["failure_sites"] = dict(sorted(r.hist["failure-site"].items())) if "failure-site" in r.hist else {}
    r.extra["disagreement_ops"] = dict(sorted(r.hist["disagreement-op"].items())) if "disagreement-op" in r.hist else {}
    r.extra["model_compared"] = n_model
    r.extra["distinct_operand_pairs"] = n_width
    r.extra["shards"] = len(jobs)
    r.extra.setdefault("timing_s", {})["cases+harness+driver+judge (parallel)"] = round(time.time() - t0, 1)
    r.extra["timing_s"]["per shard (harness, driver, judge) max"] = [max(getattr(sh, "timing", (0, 0, 0))[i] for sh in shards) for i in range(3)]


def replay(r, path):
    d = json.load(open(path))
    exe = r.cargo_build("c08")
    for case in [d.get("case")] + d.get("more_cases", []):
        if not case:
            continue
        rc, out, err = r.harness(exe, ["one"] + case.split())
        print("engine:", out.strip())
        model = r.driver("drive_c08", out)
        print("model / Lean Int spec:", model[0].split("\t")[1:] if model else None)
        print("python spec:", py_spec(case))
        r2 = type("R", (), {"oracle_failure": lambda self, c, w, s=None: print("oracle:", w, "[site %s]" % s),
                            "model_disagreement": lambda self, c, i, m: print("model disagrees:", i, "vs", m)})()
        if case.startswith("lex "):
            check_lex(r2, case, case[4:], out.strip().split("\t")[1], model[0].split("\t")[1] if model else None)
        else:
            judge(r2, case, out.strip().split("\t")[1], {})
    return 0
