"""C04 — compile-time evaluation is transparent: literals behave like variables (DESIGN.md §3 C04)."""
import json

READY = True

META = {
    "technique": "Lean 4 proof (constant folder sound for the run-time semantics of the emitted jump/compare code, for every "
                 "implementation of the shared value operations; hoisting lemma at expression and at statement level; every call "
                 "form with *args/**kwargs; operator, traversal, constant-site and statement-traversal tables regenerated from the "
                 "source) + differential runs: every hoisting variant (items one by one AND whole literal containers) of generated "
                 "expressions and statements on the real engine, real as_const / LoadConst lists of the instruction streams / block "
                 "tables / values against the model",
    "category": "proof",
    "text": "Kernel-checked theorems about a transcription of Expr::as_const/eval_binop/eval_compare (folder), of what the emitted "
            "instructions compute (short-circuit jumps returning the operand, CompareAndPreserve chains, op_binop! undefined "
            "assertions, Not/In/Neg, list/tuple/map construction, static keyword arguments, and the never-folded constructs that "
            "sit between constants: attribute/item access with handle_undefined, slices, conditional expressions with the silent "
            "undefined, filters, tests, calls) and of compile_expr's fold-first scheme: whenever the folder yields a value, run-time "
            "evaluation yields the same value in every mode and context (so it never masks an error); the emitted code computes "
            "exactly the unfolded run-time semantics; replacing any subset of literal sub-expressions by variables bound to the same "
            "values changes neither value nor error; code generation has no error channel, a failing constant expression fails only "
            "when executed. PROVED SINCE THE LAST ROUND (was validated / oracle-only): (1) every call form - function, method, "
            "object, filter, test, each with any mix of positional, *splat, keyword and **splat arguments, and the call of a "
            "{% call %} block on any of them - is a constructor of the model (`callx`, the two loops of compile_call_args): "
            "static_kwargs_eq_dynamic_all_forms, call_forms_transparent, static_kwargs_path_all_forms, splats_and_the_static_path "
            "(**splat switches the static path off, *splat does not), call_block_all_forms_keep_caller; C04_holds covers them. "
            "(2) `a in <literal list/tuple>`: the emitted code is the code of a, ONE LoadConst of the list the folder builds, In "
            "(in_literal_container_code, for every number and kind of items) and all four hoisting variants evaluate the same "
            "contains(list, a) of the shared ops::contains (in_literal_container_same_relation, concrete_in_literal_container: a "
            "scan with ==), also `not in` (not_in_literal_container_code). (3) the constants of the emitted code are a function "
            "`constsC` of the model (a folded node is one constant, no operator rewrites an operand into another constant) which "
            "the check compares with the LoadConst values of the real instruction streams. (4) statement level: "
            "stmt_hoist_transparent - hoisting literals in any heads of a template changes neither the block table the code "
            "generator registers, nor the macro declarations, nor the value/error of any compiled head in any scope environment "
            "that keeps the hoisted variables; const_if_elimination_breaks_block_table shows that the seeded constant-branch "
            "elimination is not transparent in the same model. The value operations (ops::add..neg, contains, string_concat, ==, "
            "Ord, is_true, map insertion, get_item/get_attr/slice, filters, tests, callees, UnpackLists/MergeKwargs) are parameters "
            "of the theorems because folder and VM share them. Tie: (a) tables regenerated from the source - operator arms of "
            "eval_binop/eval_compare/compile_bin_op/emit_compare/compare_op/func_binop!/op_binop!/CompareAndPreserve proved equal "
            "to the model's; the Expr variants as_const handles and the code generator's compile-time special cases, over which the "
            "model's folder DISPATCHES; the call sites of compile_call_args/compile_call; NEW: every Instruction::LoadConst site and "
            "every pattern match on a literal/container variant of ast::Expr in codegen.rs (const_sites_from_source: an "
            "operator-specific precomputed constant such as a lookup table needs a new row), every Vec<Stmt> field of the AST with "
            "the one canonical loop that compiles it and the conditions around those loops (stmt_traversal_from_source: no "
            "statement list is compiled under a condition on an expression's value); (b) the harness generates expressions over "
            "the literal grammar (depth<=5, numeric boundary zoo, floats, escaped strings, containers with repeated keys, chains, "
            "keyword arguments, item/attribute access, slices, if-expressions, filters, tests, calls of a function / a method / an "
            "item with method syntax / an object with *args and **kwargs) and templates with literals in statement heads, PLUS the "
            "size-class stream: ~100 operator forms (in, not in, ==, <, +, *, subscripts, slices, 20 filters with literal "
            "arguments, tests, chains, splats, map lookups, strings, 28 statement forms incl. loop variables, break/continue, "
            "recursive loops, set-then-use, macros) x container sizes 0,1,2,7,8,9,16,17,32,33,64,65 on both sides, items and "
            "probes drawn from twelve cross-kind equality classes in which ==, Ord, Hash and the text differ (true/1/1.0, "
            "false/0/0.0/-0.0, ints of every width against floats at 2^53, 2^63, 2^64, strings vs safe strings, none/false/0/'')"
            "; renders all 2^k (k<=6, 64..80 sampled beyond; templates: k<=4, 20..28 sampled) hoisting variants - a literal "
            "container is hoisted item by item AND as a whole (nested leaves) - on the real engine under the four undefined modes "
            "(oracle: identical output / error kind, identical value via compile_expression, template loads, block tables, "
            "render_block, exports, five consumer templates), and compares the real as_const, the LoadConst list of the real "
            "instruction stream of up to eight hoisting variants per expression, the compiled block table of every template and "
            "the real values with the Lean model run on the real parser's AST. Entry points rotate (template_from_str, render_str, "
            "render_named_str, add_template_owned+get_template, render_captured_to, render_captured, template_from_named_str, the "
            "Expression API followed by an emit), cases rotate through environment configurations (plain, html auto-escape "
            "callback, custom formatter, debug off, custom syntax; literal emissions run under each), and a second build with "
            "feature preserve_order runs a quarter of the cases under the hoisting oracle. ADDED IN SESSION 4: (5) the "
            "INSTRUCTION STREAM of compile_expr is a function `codeC` of the model for EVERY expression form, constant or not "
            "(MJ/Model/FoldCode.lean: fold-first, children in evaluation order, the jumps of and/or with relative targets, "
            "CompareAndPreserve chains with their cleanup tail, Not/Neg without any rewrite of the operand, conditional "
            "expressions, compile_call_args with its BuildList/UnpackLists and BuildKwargs/MergeKwargs batches and argument "
            "counts); a stack machine `run` executes it with the VM handlers, and compile_transparent proves for the whole "
            "call-free expression language that running codeC e pushes exactly the value of the unfolded run-time semantics "
            "and fails exactly when it fails (negated_ge_peephole_is_not_transparent: the seeded `not (a >= b)` -> `a; b; "
            "Lte` rewrite is refuted in the same model). The check compares codeC with the REAL instruction stream "
            "(instruction names, operands, relative jump targets, argument counts) of up to eight hoisting variants of "
            "every expression case. (6) the operator x context MATRIX stream: 52 unary/binary/chain/test/filter/"
            "container forms x 49 expression contexts (not, not not, -, - -, tests, conditional expressions with and "
            "without else, and/or operands, ==/!=/in against booleans, filters, list/map/call arguments, identities "
            "`~ \"\"`, `+ 0`, `* 1`) and 10 statement contexts (if/elif, set, for-if, with, macro defaults) x four operand "
            "relations (equal incl. equal across kinds, less, greater, special: mixed kinds, members, identities, zero "
            "divisors, undefined), every hoisting subset rendered. (7) the hoisting oracle compares the typed VALUE of every "
            "hoisting variant (Expression API), not only its text. (8) operator CHAINS: three and four operands under every "
            "pair of arithmetic, comparison and boolean operators, natural / left / right association, operand triples that "
            "witness non-associativity and overflow (floats at 2^53, 1e308, signed zeros, integers at the 2^63, 2^64 and 2^127 "
            "limits with neighbours of mixed sign, zero divisors, strings and sequences for + * ~, equal-across-kinds values "
            "for comparison chains), every subset of operands hoisted; positions that are never executed (`true or #`, dead "
            "branches, unused macros, empty loops) hold every form incl. failing constants.",
    "design_ref": "DESIGN.md §3 C04",
    "level_note": "Trusted: Lean kernel; hand transcription of as_const's traversal, compile_expr/compile_compare/compile_call_args "
                  "and the VM handlers into MJ/Model/Fold.lean and of compile_stmt's traversal into MJ/Model/FoldStmt.lean (the "
                  "operator tables, the folded variants, the constant sites and the statement-list loops are regenerated from the "
                  "source and proved equal to / covered by the model's; evaluation order and jump structure are validated by the "
                  "differential streams and, since session 4, by the instruction-stream correspondence: codeC against the real stream). "
                  "compile_transparent covers the call-free language (Expr.Core); for filters, tests and calls the instruction "
                  "stream incl. every argument count and batch is compared with the real one but `run` does not execute the call "
                  "instructions (their value semantics is evalC's, proved transparent under hoisting). The theorems assume Prims.Lawful (no operation returns undefined, is_true(Bool b)=b, "
                  "contains returns a bool) - PROVED for the concrete Lean model of the value operations (concrete_prims_lawful) - "
                  "and Expr.WF, checked on the real parser's AST of every harness case. The concrete value operations "
                  "(MJ/Model/FoldPrims.lean: exact binary64 incl. shortest float text, python string repr, i128 arithmetic, Ord/==, "
                  "slices, MergeKwargs/UnpackLists, the harness' callees, the filters default/length/abs/first/last/min/max/sum/"
                  "string/list/safe/upper(ASCII), the tests defined/none/odd/even/number/integer/float/string/eq/ne/lt/le/gt/ge/in/divisibleby/true/false) are validated by the value correspondence; what is not transcribed "
                  "(inexact powf, NaN ordering, the filters join/sort/unique/batch/slice/reverse/map/select/reject/items/dictsort/"
                  "tojson/int/round, `is sequence`) is reported unmodelled (<5% of the expression cases) and covered by the hoisting "
                  "oracle alone. Statement level: proved are the compile-time effects (block table, macro declarations) and the "
                  "values of the compiled heads; HOW a statement uses its head values at run time (loop mechanics, scoping, "
                  "captures) is not modelled here - the hoisting oracle observes rendering, block table, render_block, exports and "
                  "consumers, and the block table is also compared with the model's. With preserve_order, sources that build or "
                  "index a map and can produce a boolean are left out (C07's recorded finding eq-vs-hash:Bool~Number). Callees other "
                  "than the harness' (kw, kwf, kwt, ob.m, ob.f, ob['f'], {'f': kw}.f) are parameters of the theorems and outside "
                  "the value correspondence; block calls `self.name()` are oracle-only.",
}

FIELDS = ["key", "ast", "load", "k", "nvar", "lit", "hoist", "diff", "fold", "code", "vallit", "valhoist", "cfg", "tag", "codes"]


def classify(lit, other):
    if not lit.startswith(("ok", "err", "loaderr", "panic")) or not other.startswith(("ok", "err", "loaderr", "panic")):
        return "hoist-changes-output"
    if lit.startswith("ok") and other.startswith("ok"):
        return "hoist-changes-output"
    if lit.startswith("ok"):
        return "hoist-turns-success-into-failure"
    if other.startswith("ok"):
        return "hoist-turns-failure-into-success"
    return "hoist-changes-error"


def variant_codes(c):
    """[(mask, ast tokens, LoadConst values)] of the instruction streams dumped for a case"""
    if c.get("codes", "-") == "-":
        return []
    out = []
    for ent in c["codes"].split(";"):
        p = ent.split("|")
        if len(p) == 4:
            out.append((p[0], p[1], p[2], p[3]))
    return out


def vsrc(c, mask):
    """source of a hoisting variant (spans of the key, bit i of the hex mask = span i replaced by v<i>)"""
    try:
        f = c["key"].split()
        src = bytes.fromhex(f[1])
        spans = [] if f[2] == "-" else [tuple(int(x) for x in sp.split("-")) for sp in f[2].split(",")]
        m = int(mask, 16)
        out, pos = b"", 0
        for i, (a, b) in enumerate(spans):
            if a < pos:
                continue
            if m >> i & 1:
                out += src[pos:a] + b"v%d" % i
                pos = b
        return (out + src[pos:]).decode()
    except Exception:
        return "?"


def root_of(ast):
    t = ast.split()
    if not t:
        return "?"
    if t[0] in ("b", "c", "call", "filt", "test", "callx") and len(t) > 1:
        return t[0] + ":" + t[1]
    return t[0]


def ops_in(ast):
    t = ast.split()
    out = []
    for i, x in enumerate(t):
        if x == "b" and i + 1 < len(t):
            out.append(t[i + 1])
        elif x in ("not", "neg", "L", "T", "M", "gi", "sl", "if"):
            out.append(x)
        elif x == "ga":
            out.append("ga")
        elif x in ("call", "filt", "test") and i + 1 < len(t):
            out.append(x + ":" + t[i + 1])
        elif x == "callx" and i + 3 < len(t):
            out.append("callx:" + t[i + 1] + ":" + t[i + 3])
        elif x in ("ps", "ks"):
            out.append("splat:" + x)
        elif x == "c":
            out.append("chain")
    return out


def stmt_head(src):
    """first statement keyword of a template source (or `expr` for `{{ … }}`)"""
    import re
    m = re.search(r"\{%-?\s*(\w+)", src)
    return m.group(1) if m else "expr"


def depth_of(src):
    """nesting depth of brackets in an expression source (proxy for the generator's depth)"""
    d = best = 0
    for ch in src:
        if ch in "([{":
            d += 1
            best = max(best, d)
        elif ch in ")]}":
            d -= 1
    return best


def src_of(key):
    try:
        return bytes.fromhex(key.split()[1]).decode()
    except Exception:
        return key


def run(r):
    r.rule = ("operator x context matrix (every form under every unary/boolean/test/conditional/call/statement context at "
              "equal / less / greater / special operands; 1 round quick, 4 thorough) plus operator chains of three and four operands (every pair of arithmetic / comparison / boolean operators x natural, left and right association x non-associativity witnesses: floats at 2^53 and 1e308, signed zeros, integers at the 2^63 / 2^64 / 2^127 limits with neighbours of mixed sign, zero divisors, strings and sequences) plus hand-written seeds (and/or on falsy operands, negated boundary literals, constant division by zero, `in`, `~`, "
              "comparison chains, map literals with repeated/colliding keys, floats and their text, escaped strings, keyword "
              "arguments, splats, method/object calls, item/attribute access, slices, if-expressions, filters, tests, undefined) "
              "plus random expressions over the grammar (depth 1..5, every 16th case 6..8, <=48 literal leaves) plus the size-class "
              "stream (every operator/filter/statement form x 12 container sizes, 3 rounds quick / 30 thorough, items from the "
              "cross-kind equality classes) plus templates with literal expressions in statement heads (34 statement shapes, "
              "compile-time-effect templates, seeds, literal emissions under every configuration); for each, all hoisting subsets "
              "for k<=6 leaves (a literal container is a leaf around its item leaves) and 64..80 sampled beyond (none, all-outer, "
              "all-inner, every container, every top-level scalar with/without the rest, item singletons, co-singletons, random); a "
              "case is non-trivial when it has at least one literal leaf and an operator or statement")
    r.assumptions = ["context variables hold exactly the Value the front end builds for the literal (obtained by evaluating the literal alone)",
                     "the callee of a call does not depend on how its keyword arguments were built (the harness' callee returns them)",
                     "the preserve_order build is covered by the hoisting oracle only (the Lean map model is the sorted map)"]
    r.regen_tables(["C04_BINOP_KINDS", "C04_FOLD_BINOP", "C04_FOLD_COMPARE", "C04_FOLD_UNARY", "C04_CODEGEN_BINOP",
                    "C04_CODEGEN_COMPARE", "C04_VM_BINOP", "C04_TRAVERSAL", "C04_CONST_SITES", "C04_STMT_TRAVERSAL"])
    r.lean_prove("MJ.Props.C04", "MJ/Audit/C04.lean", extra_targets=["drive_c04"])
    exe = r.cargo_build("c04")
    if exe is None:
        return
    rc, out, err = r.harness(exe, ["gen", r.tier])
    if rc != 0:
        r.broken.append(f"harness c04 exited {rc}: {err[-300:]}")
        return
    process(r, out, "default", True)
    # the same generator against a build with IndexMap-backed maps (insertion order is observable there);
    # the Lean map model is the sorted one, so this stream is checked by the hoisting oracle only
    exe_po = r.cargo_build("c04", features=["preserve_order"])
    if exe_po is None:
        return
    rc, out, err = r.harness(exe_po, ["gen", r.tier, "small"])
    if rc != 0:
        r.broken.append(f"harness c04 (preserve_order) exited {rc}: {err[-300:]}")
        return
    process(r, out, "preserve_order", False)


def process(r, out, build, with_model):
    lines = out.splitlines()
    cases = []
    for line in lines:
        f = line.split("\t")
        if len(f) != len(FIELDS):
            r.broken.append(f"harness line with {len(f)} fields: {line[:200]}")
            continue
        cases.append(dict(zip(FIELDS, f)))
    expr_idx = [i for i, c in enumerate(cases) if c["ast"] != "-" and "XS" not in c["ast"].split()] if with_model else []
    # driver input: one line per expression case, followed by one `consts` line per instruction stream of a
    # hoisting variant the harness dumped
    drv = []
    slots = {}
    for i in expr_idx:
        slots[i] = len(drv)
        drv.append(cases[i]["key"].split()[0] + "\t" + cases[i]["ast"])
        for ent in variant_codes(cases[i]):
            drv.append("consts\t" + ent[1])
    # … and one `stmt` line per template whose statement tree the harness dumped
    stmt_slots = {}
    if with_model:
        for i, c in enumerate(cases):
            if c["ast"] == "-" and c.get("codes", "-").startswith("T|"):
                stmt_slots[i] = len(drv)
                drv.append("stmt\t" + c["codes"].split("|")[1])
    model_lines = r.driver("drive_c04", "".join(x + "\n" for x in drv)) if with_model else []
    model = None
    if not with_model:
        pass
    elif model_lines is None or len(model_lines) != len(drv):
        r.broken.append("model driver output does not line up with the harness cases")
    else:
        model = {i: model_lines[slots[i]] for i in expr_idx}
    r.exhaustive = False
    unmodelled = 0
    for i, c in enumerate(cases):
        key, ast = c["key"], c["ast"]
        k, nvar = int(c["k"]), int(c["nvar"])
        stmt = ast == "-"
        ops = [] if stmt else ops_in(ast)
        r.count(build + " " + key, k >= 1 and (stmt or len(ops) >= 1), n=max(nvar, 1))
        r.hist["stream"][("statement" if stmt else "expression") + "/" + build] += 1
        r.hist["configuration"][c["cfg"]] += 1
        if not stmt:
            r.hist["depth"][str(depth_of(src_of(key)))] += 1
        r.hist["mode"][key.split()[0]] += 1
        r.hist["root"][stmt_head(src_of(key)) if stmt else root_of(ast)] += 1
        for o in set(ops):
            r.hist["operator"][o] += 1
        r.hist["leaves"][str(k) if k <= 6 else "7+"] += 1
        r.hist["outcome"][c["lit"].split(":")[0] + (":" + c["lit"].split(":")[1] if c["lit"].startswith("err") else "")] += 1
        r.hist["folded"][c["fold"].split()[0]] += 1
        if c["tag"].startswith("sized:"):
            _, form, size, klass = c["tag"].split(":")
            r.hist["container size class"][size] += 1
            r.hist["equality class of items"][klass] += 1
            r.hist["sized form"][("stmt " if form[0] == "s" else "expr ") + form[1:]] += 1
        if c["tag"].startswith("mx:"):
            _, ctx, form, rel = c["tag"].split(":")
            r.hist["matrix context"][("stmt " if ctx[0] == "s" else "expr ") + ctx[1:]] += 1
            r.hist["matrix form"][form] += 1
            r.hist["matrix operand relation"][rel] += 1
        if c["tag"].startswith("ch:"):
            _, ops, shape, fam = c["tag"].split(":")
            r.hist["chain operators"][ops] += 1
            r.hist["chain shape"][["natural", "left", "right", "", "four operands"][int(shape)]] += 1
        where = ("stmt:" + stmt_head(src_of(key))) if stmt else root_of(ast)
        # ---- oracle: the property on the implementation's own results
        if c["load"] != "ok":
            r.oracle_failure(key, f"loading `{{{{ {src_of(key)} }}}}` (or a hoisted variant) fails: {c['load']}", "load-fails:" + where)
        if c["diff"] != "-":
            first = c["diff"].split(";")[0]
            mask, other = first.split("=", 1)
            mask = mask.replace("@", " rendered through ")
            where = where + ("" if build == "default" else ":" + build)
            la, oa = c["lit"].split("|"), other.split("|")
            if stmt and len(la) == len(oa) and len(la) > 1:
                # template observation = own rendering | block table | render_block(..) | exports | consumers
                j = next(i for i in range(len(la)) if la[i] != oa[i])
                lit_part, other_part = la[j], oa[j]
                what_obs = ["rendering", "block names"][j] if j < 2 else lit_part.split("=")[0]
                r.oracle_failure(key, f"`{src_of(key)}`: {what_obs} differs: all-literal variant {lit_part}, variant with leaves mask {mask} hoisted {other_part}",
                                 classify(lit_part.split("=", 1)[-1], other_part.split("=", 1)[-1]) + ":" + where + ":" + what_obs.split(".")[0])
            elif mask.endswith("through value"):
                r.oracle_failure(key, f"`{src_of(key)}`: value of the all-literal variant {c['vallit']}, of the variant with leaves mask {mask.split()[0]} hoisted {other}",
                                 "hoist-changes-value:" + where)
            else:
                r.oracle_failure(key, f"`{src_of(key)}`: all-literal variant gives {c['lit']}, variant with leaves mask {mask} hoisted gives {other}",
                                 classify(c["lit"], other) + ":" + where)
        elif c["vallit"] != c["valhoist"]:
            r.oracle_failure(key, f"`{src_of(key)}`: value with literals {c['vallit']} differs from value with variables {c['valhoist']}",
                             "hoist-changes-value:" + where)
        if "panic" in (c["lit"], c["hoist"], c["vallit"], c["valhoist"], c["code"]):
            r.hist["outcome"]["panic"] += 1
        # ---- tie (statements): the block table the real code generator registers is the one the model's
        # traversal (every statement list, unconditionally) registers for the real parser's tree
        if stmt and with_model and model is not None and i in stmt_slots:
            ml = model_lines[stmt_slots[i]]
            real_blocks = c["codes"].split("|")[2]
            r.hist["model"]["block tables compared"] += 1
            if ml == "bad-case":
                r.broken.append(f"model driver could not parse the statement tree of {src_of(key)}")
            elif ml != "blocks=" + real_blocks:
                r.model_disagreement(key, "block table of the compiled template: " + real_blocks, "registeredBlocks: " + ml[7:])
        # ---- tie: parser guarantees the model's well-formedness assumptions; real folder vs real code generator
        if stmt or not with_model:
            continue
        if "XS" in ast.split():
            unmodelled += 1
            r.hist["model"]["unmodelled primitive"] += 1
            r.hist["unmodelled"]["splat arguments"] += 1
            continue
        if " X" in " " + ast:
            r.broken.append(f"harness AST dump met a node outside the fragment: {src_of(key)}")
            continue
        fold_impl = c["fold"]
        code_impl = c["code"]
        # the model says: LoadConst(v) is emitted only for v = as_const.  (Folding *less* than as_const allows is harmless.)
        if code_impl != "rt" and (fold_impl == "none" or fold_impl[5:] != code_impl[6:]):
            r.model_disagreement(key, f"instruction stream={code_impl} but as_const={fold_impl}",
                                 "model: code generator emits LoadConst(v) only for as_const = some v")
        if code_impl == "rt" and fold_impl != "none":
            r.hist["model"]["as_const folds, code generator does not"] += 1
        if model is None:
            continue
        m = model[i]
        if m == "bad-case":
            r.broken.append(f"model driver could not parse the AST of {src_of(key)}")
            continue
        d = dict(x.split("=", 1) for x in m.split("\t"))
        if d["wf"] != "1":
            r.broken.append(f"real AST violates Expr.WF (undefined constant or empty comparison chain): {src_of(key)}")
        if d["supp"] != "1":
            unmodelled += 1
            r.hist["model"]["unmodelled primitive"] += 1
            for why in d["supp"][2:].split(","):
                r.hist["unmodelled"][why] += 1
            continue
        r.hist["model"]["compared"] += 1
        # every constant the real folder / code generator produces must be the one the (proved sound) model
        # folder produces; a real folder that gives up where the model folds is a harmless difference
        for what, impl in (("as_const", fold_impl), ("LoadConst", "none" if code_impl == "rt" else "some " + code_impl[6:])):
            if impl != "none" and impl != d["fold"]:
                r.model_disagreement(key, what + " " + impl, "asConst " + d["fold"])
            elif impl == "none" and d["fold"] != "none":
                r.hist["model"][what + " gives up where the model folds"] += 1
        if d["comp"] != c["vallit"]:
            r.model_disagreement(key, "all-literal eval " + c["vallit"], "evalC " + d["comp"])
        if d["rt"] != c["valhoist"]:
            r.model_disagreement(key, "all-hoisted eval " + c["valhoist"], "evalRt " + d["rt"])
        # the constants of the real instruction stream of the dumped hoisting variants are the model's `constsC`
        # (a folded node is one constant = the folder's value; nothing else is precomputed)
        for j, (mask, vast, consts, ops) in enumerate(variant_codes(c)):
            ml = model_lines[slots[i] + 1 + j]
            r.hist["model"]["instruction streams compared"] += 1
            if ml == "bad-case":
                r.broken.append(f"model driver could not parse the AST of variant {mask} of {src_of(key)}")
                continue
            mconsts, _, mops = ml.partition("\tops=")
            if mconsts != "consts=" + consts:
                r.model_disagreement(key, f"variant with leaves mask {mask} hoisted: LoadConst values in the instruction stream: {consts}",
                                     "constsC: " + mconsts[7:])
            # the whole stream: every instruction, its operand, every (relative) jump target, every argument count
            if mops != ops:
                r.model_disagreement(key, f"variant with leaves mask {mask} hoisted (`{c['key'] and vsrc(c, mask)}`): instruction stream: {ops}",
                                     "codeC: " + mops)
            for o in ops.split():
                r.hist["instruction"][o.split(":")[0]] += 1
        if i % max(1, len(cases) // 10) == 0:
            r.sample({"src": src_of(key), "mode": key.split()[0], "leaves": k, "variants": nvar, "outcome": c["lit"][:60],
                      "as_const": fold_impl[:60], "model": d["fold"][:60]})
    r.extra["cases/" + build] = len(cases)
    if with_model:
        nexpr = sum(1 for c in cases if c["ast"] != "-")
        r.extra["unmodelled_cases"] = unmodelled
        r.extra["expression_cases"] = nexpr
        r.extra["unmodelled_fraction_of_expression_cases"] = round(unmodelled / max(1, nexpr), 4)


def replay(r, path):
    d = json.load(open(path))
    exe = r.cargo_build("c04")
    for case in [d.get("case")] + d.get("more_cases", []):
        if not case:
            continue
        rc, out, err = r.harness(exe, ["one"] + case.split())
        f = out.rstrip("\n").split("\t")
        c = dict(zip(FIELDS, f))
        print("source:", src_of(case))
        for k in FIELDS[2:]:
            print(f"  {k}: {c.get(k)}")
        model = r.driver("drive_c04", case.split()[0] + "\t" + c.get("ast", "") + "\n")
        print("  model:", model[0] if model else None)
    return 0
