"""C04 — compile-time evaluation is transparent: literals behave like variables (DESIGN.md §3 C04)."""
import json

READY = True

META = {
    "technique": "Lean 4 proof (constant folder sound for the run-time semantics of the emitted jump/compare code, for every "
                 "implementation of the shared value operations; hoisting lemma; operator and traversal tables regenerated from the "
                 "source) + differential runs: every hoisting variant of generated expressions and statements on the real engine, "
                 "real as_const / instruction stream / values against the model",
    "category": "proof",
    "text": "Kernel-checked theorems about a transcription of Expr::as_const/eval_binop/eval_compare (folder), of what the emitted "
            "instructions compute (short-circuit jumps returning the operand, CompareAndPreserve chains, op_binop! undefined "
            "assertions, Not/In/Neg, list/tuple/map construction, static keyword arguments of calls, filters and tests, and the "
            "never-folded constructs that sit between constants: attribute/item access with handle_undefined, slices, conditional "
            "expressions with the silent undefined, filters, tests, global function calls) and of compile_expr's fold-first scheme: "
            "whenever the folder yields a value, run-time evaluation yields the same value in every mode and context (so it never "
            "masks an error); the emitted code computes exactly the unfolded run-time semantics; replacing any subset of literal "
            "sub-expressions by variables bound to the same values changes neither value nor error; code generation has no error "
            "channel, a failing constant expression fails only when executed. The value operations (ops::add..neg, contains, "
            "string_concat, ==, Ord, is_true, map insertion, get_item/get_attr/slice, filters, tests, callees) are parameters of the "
            "theorems because folder and VM share them. Tie: (a) tables regenerated from the source - operator arms of eval_binop/"
            "eval_compare/compile_bin_op/emit_compare/compare_op/func_binop!/op_binop!/CompareAndPreserve proved equal to the model's, "
            "the set of Expr variants as_const handles and the code generator's compile-time special cases, over which the model's folder "
            "DISPATCHES (it folds exactly the node kinds the source folds; a new foldable kind or a second as_const call site breaks "
            "traversal_from_source), the call sites of compile_call_args/compile_call with their caller argument and the three facts about the caller of a "
            "{% call %} block (call_sites_from_source; call_block_static_kwargs_keep_caller: the call of a call block passes the user's "
            "keyword arguments plus the run-time caller also when all keyword values are literals - the guard static_kwargs = "
            "caller.is_none() is regenerated from the source and discharged by decide for the concrete instance), "
            "MAX_REPEATED_STRING_LEN and the ValueKind order used by the concrete value model; (b) the harness "
            "generates expressions over the literal grammar (depth<=5, numeric boundary zoo, floats, escaped strings, containers with "
            "repeated keys, chains, keyword arguments, item/attribute access, slices, if-expressions, filters, tests) and templates with "
            "literals in statement heads (if/elif, for, set, with, macro defaults, include/extends/import/from targets, autoescape, "
            "filter arguments, call blocks with keyword arguments, do, filter blocks and set blocks with keyword arguments), renders all 2^k (k<=6, 64 sampled beyond (templates: k<=4, 20 sampled beyond)) hoisting variants on the real engine under the "
            "four undefined modes (oracle: identical output / error kind, identical value via compile_expression, template loads), and "
            "compares the real as_const, the LoadConst in the real instruction stream and the real values with the Lean model run on "
            "the real parser's AST. Every hoisting variant of an expression is rendered through a rotating entry point "
            "(template_from_str, render_str, render_named_str, add_template_owned+get_template, render_captured_to, render_captured, "
            "template_from_named_str, the Expression API followed by an emit), cases rotate through environment configurations "
            "(plain, html auto-escape callback, custom formatter, debug off, custom syntax), and a second build with "
            "feature preserve_order runs a quarter of the cases under the hoisting oracle.",
    "design_ref": "DESIGN.md §3 C04",
    "level_note": "Trusted: Lean kernel; hand transcription of as_const's traversal, compile_expr/compile_compare/compile_call_args "
                  "and the VM handlers into MJ/Model/Fold.lean (the operator tables and the list of folded variants are regenerated "
                  "from the source and proved equal to the model's; evaluation order and jump structure are validated by the "
                  "differential streams). The theorems assume Prims.Lawful (no operation returns undefined, is_true(Bool b)=b, "
                  "contains returns a bool) - PROVED for the concrete Lean model of the value operations (concrete_prims_lawful, so "
                  "C04_concrete has no hypothesis about them left; also proved there: the last pair of a map literal / the last "
                  "keyword argument of a name wins), which the value correspondence ties to the real ops.rs on every harness case - and Expr.WF (no undefined constant, Compare has >=1 "
                  "operator), checked on the real parser's AST of every harness case. The concrete value operations "
                  "(MJ/Model/FoldPrims.lean: exact binary64 on bit patterns incl. shortest float text, python string repr, i128 "
                  "arithmetic, Ord/==, slices, a dozen builtin filters/tests) are validated by the value correspondence; what is not "
                  "transcribed (inexact powf, NaN ordering, the filters upper/int/round, `is sequence` because lazy iterables are "
                  "dumped as lists) is reported unmodelled (<3% of the expression cases) and covered by the hoisting oracle alone. "
                  "With preserve_order, sources that build or index a map and can produce a boolean are left out (true==1 hash "
                  "differently: C07's recorded finding eq-vs-hash:Bool~Number makes such maps depend on the random hash seed). "
                  "Statements are covered by the hoisting oracle only (no statement model); for every template variant the oracle "
                  "observes its own rendering, the compiled block table, render_block of every candidate name, the exports and the "
                  "renderings of consumers that extend/import/include it. Method calls and calls of non-global "
                  "callables are outside the box; splat arguments are oracle-only.",
}

FIELDS = ["key", "ast", "load", "k", "nvar", "lit", "hoist", "diff", "fold", "code", "vallit", "valhoist", "cfg"]


def classify(lit, other):
    if not lit.startswith(("ok", "err", "loaderr", "panic")) or not other.startswith(("ok", "err", "loaderr", "panic")):
        return "hoist-changes-output"
    if lit.startswith("ok") and other.startswith("ok"):
        return "hoist-changes-output"
    if lit.startswith("ok"):
        return "hoist-turns-success-into-failure"
    if other.startswith("ok"):
        return "hoist-turns-failure-into-success"
    return "hoist-changes-error"


def root_of(ast):
    t = ast.split()
    if not t:
        return "?"
    if t[0] in ("b", "c", "call", "filt", "test") and len(t) > 1:
        return t[0] + ":" + t[1]
    return t[0]


def ops_in(ast):
    t = ast.split()
    out = []
    for i, x in enumerate(t):
        if x == "b" and i + 1 < len(t):
            out.append(t[i + 1])
        elif x in ("not", "neg", "L", "T", "M", "gi", "sl", "if"):
            out.append(x)
        elif x == "ga":
            out.append("ga")
        elif x in ("call", "filt", "test") and i + 1 < len(t):
            out.append(x + ":" + t[i + 1])
        elif x == "c":
            out.append("chain")
    return out


def stmt_head(src):
    """first statement keyword of a template source (or `expr` for `{{ … }}`)"""
    import re
    m = re.search(r"\{%-?\s*(\w+)", src)
    return m.group(1) if m else "expr"


def depth_of(src):
    """nesting depth of brackets in an expression source (proxy for the generator's depth)"""
    d = best = 0
    for ch in src:
        if ch in "([{":
            d += 1
            best = max(best, d)
        elif ch in ")]}":
            d -= 1
    return best


def src_of(key):
    try:
        return bytes.fromhex(key.split()[1]).decode()
    except Exception:
        return key


def run(r):
    r.rule = ("hand-written seeds (and/or on falsy operands, negated boundary literals, constant division by zero, `in`, `~`, "
              "comparison chains, map literals with repeated/colliding keys, floats and their text, escaped strings, keyword "
              "arguments, item/attribute access, slices, if-expressions, filters, tests, undefined) plus random expressions over "
              "the grammar (depth 1..5, every 16th case 6..8, <=48 literal leaves) plus templates with literal expressions in statement heads (27 "
              "statement shapes + seeds); for each, all 2^k hoisting subsets for k<=6 and 64 sampled (none, all, singletons, "
              "co-singletons, random) beyond; a case is non-trivial when it has at least one literal leaf and an operator or statement")
    r.assumptions = ["context variables hold exactly the Value the front end builds for the literal (obtained by evaluating the literal alone)",
                     "the callee of a call does not depend on how its keyword arguments were built (the harness' callee returns them)",
                     "the preserve_order build is covered by the hoisting oracle only (the Lean map model is the sorted map)"]
    r.regen_tables(["C04_BINOP_KINDS", "C04_FOLD_BINOP", "C04_FOLD_COMPARE", "C04_FOLD_UNARY", "C04_CODEGEN_BINOP",
                    "C04_CODEGEN_COMPARE", "C04_VM_BINOP", "C04_TRAVERSAL"])
    r.lean_prove("MJ.Props.C04", "MJ/Audit/C04.lean", extra_targets=["drive_c04"])
    exe = r.cargo_build("c04")
    if exe is None:
        return
    rc, out, err = r.harness(exe, ["gen", r.tier])
    if rc != 0:
        r.broken.append(f"harness c04 exited {rc}: {err[-300:]}")
        return
    process(r, out, "default", True)
    # the same generator against a build with IndexMap-backed maps (insertion order is observable there);
    # the Lean map model is the sorted one, so this stream is checked by the hoisting oracle only
    exe_po = r.cargo_build("c04", features=["preserve_order"])
    if exe_po is None:
        return
    rc, out, err = r.harness(exe_po, ["gen", r.tier, "small"])
    if rc != 0:
        r.broken.append(f"harness c04 (preserve_order) exited {rc}: {err[-300:]}")
        return
    process(r, out, "preserve_order", False)


def process(r, out, build, with_model):
    lines = out.splitlines()
    cases = []
    for line in lines:
        f = line.split("\t")
        if len(f) != len(FIELDS):
            r.broken.append(f"harness line with {len(f)} fields: {line[:200]}")
            continue
        cases.append(dict(zip(FIELDS, f)))
    expr_idx = [i for i, c in enumerate(cases) if c["ast"] != "-" and "XS" not in c["ast"].split()] if with_model else []
    drv_in = "".join(cases[i]["key"].split()[0] + "\t" + cases[i]["ast"] + "\n" for i in expr_idx)
    model_lines = r.driver("drive_c04", drv_in) if with_model else []
    model = None
    if not with_model:
        pass
    elif model_lines is None or len(model_lines) != len(expr_idx):
        r.broken.append("model driver output does not line up with the harness cases")
    else:
        model = dict(zip(expr_idx, model_lines))
    r.exhaustive = False
    unmodelled = 0
    for i, c in enumerate(cases):
        key, ast = c["key"], c["ast"]
        k, nvar = int(c["k"]), int(c["nvar"])
        stmt = ast == "-"
        ops = [] if stmt else ops_in(ast)
        r.count(build + " " + key, k >= 1 and (stmt or len(ops) >= 1), n=max(nvar, 1))
        r.hist["stream"][("statement" if stmt else "expression") + "/" + build] += 1
        r.hist["configuration"][c["cfg"]] += 1
        if not stmt:
            r.hist["depth"][str(depth_of(src_of(key)))] += 1
        r.hist["mode"][key.split()[0]] += 1
        r.hist["root"][stmt_head(src_of(key)) if stmt else root_of(ast)] += 1
        for o in set(ops):
            r.hist["operator"][o] += 1
        r.hist["leaves"][str(k) if k <= 6 else "7+"] += 1
        r.hist["outcome"][c["lit"].split(":")[0] + (":" + c["lit"].split(":")[1] if c["lit"].startswith("err") else "")] += 1
        r.hist["folded"][c["fold"].split()[0]] += 1
        where = ("stmt:" + stmt_head(src_of(key))) if stmt else root_of(ast)
        # ---- oracle: the property on the implementation's own results
        if c["load"] != "ok":
            r.oracle_failure(key, f"loading `{{{{ {src_of(key)} }}}}` (or a hoisted variant) fails: {c['load']}", "load-fails:" + where)
        if c["diff"] != "-":
            first = c["diff"].split(";")[0]
            mask, other = first.split("=", 1)
            mask = mask.replace("@", " rendered through ")
            where = where + ("" if build == "default" else ":" + build)
            la, oa = c["lit"].split("|"), other.split("|")
            if stmt and len(la) == len(oa) and len(la) > 1:
                # template observation = own rendering | block table | render_block(..) | exports | consumers
                j = next(i for i in range(len(la)) if la[i] != oa[i])
                lit_part, other_part = la[j], oa[j]
                what_obs = ["rendering", "block names"][j] if j < 2 else lit_part.split("=")[0]
                r.oracle_failure(key, f"`{src_of(key)}`: {what_obs} differs: all-literal variant {lit_part}, variant with leaves mask {mask} hoisted {other_part}",
                                 classify(lit_part.split("=", 1)[-1], other_part.split("=", 1)[-1]) + ":" + where + ":" + what_obs.split(".")[0])
            else:
                r.oracle_failure(key, f"`{src_of(key)}`: all-literal variant gives {c['lit']}, variant with leaves mask {mask} hoisted gives {other}",
                                 classify(c["lit"], other) + ":" + where)
        elif c["vallit"] != c["valhoist"]:
            r.oracle_failure(key, f"`{src_of(key)}`: value with literals {c['vallit']} differs from value with variables {c['valhoist']}",
                             "hoist-changes-value:" + where)
        if "panic" in (c["lit"], c["hoist"], c["vallit"], c["valhoist"], c["code"]):
            r.hist["outcome"]["panic"] += 1
        # ---- tie: parser guarantees the model's well-formedness assumptions; real folder vs real code generator
        if stmt or not with_model:
            continue
        if "XS" in ast.split():
            unmodelled += 1
            r.hist["model"]["unmodelled primitive"] += 1
            r.hist["unmodelled"]["splat arguments"] += 1
            continue
        if " X" in " " + ast:
            r.broken.append(f"harness AST dump met a node outside the fragment: {src_of(key)}")
            continue
        fold_impl = c["fold"]
        code_impl = c["code"]
        # the model says: LoadConst(v) is emitted only for v = as_const.  (Folding *less* than as_const allows is harmless.)
        if code_impl != "rt" and (fold_impl == "none" or fold_impl[5:] != code_impl[6:]):
            r.model_disagreement(key, f"instruction stream={code_impl} but as_const={fold_impl}",
                                 "model: code generator emits LoadConst(v) only for as_const = some v")
        if code_impl == "rt" and fold_impl != "none":
            r.hist["model"]["as_const folds, code generator does not"] += 1
        if model is None:
            continue
        m = model[i]
        if m == "bad-case":
            r.broken.append(f"model driver could not parse the AST of {src_of(key)}")
            continue
        d = dict(x.split("=", 1) for x in m.split("\t"))
        if d["wf"] != "1":
            r.broken.append(f"real AST violates Expr.WF (undefined constant or empty comparison chain): {src_of(key)}")
        if d["supp"] != "1":
            unmodelled += 1
            r.hist["model"]["unmodelled primitive"] += 1
            for why in d["supp"][2:].split(","):
                r.hist["unmodelled"][why] += 1
            continue
        r.hist["model"]["compared"] += 1
        # every constant the real folder / code generator produces must be the one the (proved sound) model
        # folder produces; a real folder that gives up where the model folds is a harmless difference
        for what, impl in (("as_const", fold_impl), ("LoadConst", "none" if code_impl == "rt" else "some " + code_impl[6:])):
            if impl != "none" and impl != d["fold"]:
                r.model_disagreement(key, what + " " + impl, "asConst " + d["fold"])
            elif impl == "none" and d["fold"] != "none":
                r.hist["model"][what + " gives up where the model folds"] += 1
        if d["comp"] != c["vallit"]:
            r.model_disagreement(key, "all-literal eval " + c["vallit"], "evalC " + d["comp"])
        if d["rt"] != c["valhoist"]:
            r.model_disagreement(key, "all-hoisted eval " + c["valhoist"], "evalRt " + d["rt"])
        if i % max(1, len(cases) // 10) == 0:
            r.sample({"src": src_of(key), "mode": key.split()[0], "leaves": k, "variants": nvar, "outcome": c["lit"][:60],
                      "as_const": fold_impl[:60], "model": d["fold"][:60]})
    r.extra["cases/" + build] = len(cases)
    if with_model:
        nexpr = sum(1 for c in cases if c["ast"] != "-")
        r.extra["unmodelled_cases"] = unmodelled
        r.extra["expression_cases"] = nexpr
        r.extra["unmodelled_fraction_of_expression_cases"] = round(unmodelled / max(1, nexpr), 4)


def replay(r, path):
    d = json.load(open(path))
    exe = r.cargo_build("c04")
    for case in [d.get("case")] + d.get("more_cases", []):
        if not case:
            continue
        rc, out, err = r.harness(exe, ["one"] + case.split())
        f = out.rstrip("\n").split("\t")
        c = dict(zip(FIELDS, f))
        print("source:", src_of(case))
        for k in FIELDS[2:]:
            print(f"  {k}: {c.get(k)}")
        model = r.driver("drive_c04", case.split()[0] + "\t" + c.get("ast", "") + "\n")
        print("  model:", model[0] if model else None)
    return 0
