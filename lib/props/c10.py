"""C10 — text is verbatim and whitespace control exact under any delimiter configuration
(DESIGN.md §3 C10)."""
import json, os, re, collections, functools

READY = True

META = {
    "technique": "Lean 4 proof (model of the root tokenizer incl. tag interiors with string literals and every escape of utils::unescape, line statements/comments and the Aho-Corasick start-marker search as syntax.rs builds it = declarative whitespace rules on segment lists, for every setting, marker placement, line ending and every delimiter set SyntaxConfigBuilder::build accepts except those whose delimiters contain rule-relevant whitespace) + enumerated/sampled correspondence of model, Lean spec, an independent Python implementation of the rules and the real engine (tokenizer, find_start_marker, the automaton's own overlapping-match report, the tokens inside tags and Environment::render_str); final theorem C10_main states the property for the tokenizer itself with the two ties to the code (AcSpec of the automaton, tokenizer = model) as named hypotheses",
    "category": "proof",
    "text": "Kernel-checked theorems about MJ/Model/Lexer.lean (transcription of Tokenizer::new, tokenize_root, find_start_marker incl. validated_start_delims / pattern_to_marker / the overlapping-match loop with max_pattern_len, find_start_marker_memchr, lstrip_block, should_lstrip_block, handle_tail_ws, skip_newline_if_trim_blocks, comment and raw handling incl. skip_basic_tag's marker-then-end rule, tokenize_block_or_var with numbers, operators, bracket depth and string literals: eat_string's quote search and unescape's \\uXXXX with surrogate pairs, \\xXX, octal and simple escapes, unterminated strings; line statements and line comments with skip_nl): the search the tokenizer uses is leftmost-longest for every delimiter set build accepts; the end of a tag is found exactly behind any well-formed token-list interior, for every end delimiter that does not begin with ASCII whitespace (it may begin with -, +, digits, letters, quotes: `-->`, `+}`, `1>`, `v>`); on every template whose texts contain no start delimiter and whose tags read back as written the lexed text equals specRender, which applies the five rules of the statement locally and treats a line statement / line comment as the block / comment tag occupying its line; the result does not depend on the delimiter set and default-looking tags are plain text under other delimiters.  Tied to /repo by running segment sequences (alphabets of the quantifier x tags incl. degenerate and rich interiors, strings that contain the family's own delimiters, ~100 escape bodies valid and invalid x marker pairs x 8 settings x 23 delimiter families incl. end delimiters beginning with -, +, a digit, a letter, whitespace and ending in blanks), degenerate tags as programs in every family against the default syntax, random delimiter sets x random sources, line statement layouts under 79 families with line prefixes and core-fragment programs through machinery::tokenize, Environment::render_str, the compiled Lean model and spec, and a second implementation of the rules in Python; the real find_start_marker (hook) against the model of the automaton path, the Lean reference search and a Python search on every haystack of length <= 5 (thorough 6) over {a, b, blank, newline} for start delimiter sets whose members are prefixes / suffixes / infixes of one another and overlap themselves, in every role; invalid delimiter sets must be rejected by SyntaxConfigBuilder::build.  Session 4: C10_main (named hypotheses hAc: the report of aho_corasick::find_overlapping meets AcSpec = exactly the occurrences, ordered by end offset; hLex: the tokenizer is the model run on that report) gives the full statement for the tokenizer; ac_loop_of_spec proves the max_pattern_len loop leftmost-longest over ANY report that meets AcSpec, ac_spec_decided that the executable acSpecB decides AcSpec, and the kac stream runs acSpecB on what the REAL automaton reports (hook start_marker_matches) on every enumerated haystack and the model loop on that real report.  The expression-level lexer emits its tokens in the model (scanPieces: text of every identifier, number in every notation, string literal, one / two character operator, bracket and every skipped blank): tokens_concat_verbatim (for every end delimiter and every input on which the tag end is found, the pieces in order + marker + end delimiter + unread rest are the input: no character lost or invented), interior_is_partitioned (for a tag that reads back as written the pieces concatenate to exactly the interior), pieces_same_end; the itok stream compares the model's token texts and tag end with the source text of the tokens the real lexer emits (from their spans) on ~95k interiors glued from token fragments with and without blanks (longest-match cases `1.5.2`, `2.foo`, `//=`, `***`, `1e+`, `0x`), every closing marker, 13 families incl. end delimiters that begin with -, +, a digit, a letter, and as line statements.",
    "design_ref": "DESIGN.md §3 C10",
    "level_note": "Trusted: Lean kernel; hand transcription of lexer.rs / syntax.rs / utils::unescape into MJ/Model/Lexer.lean (validated on every generated case, including non-delimiter-free texts and lexer errors; = hypothesis hLex of C10_main); aho_corasick::find_overlapping enters only through the named specification AcSpec (hypothesis hAc of C10_main; evaluated by the proved decision procedure acSpecB on the real automaton's report for every kac haystack: exhaustive on haystacks of length <= 5 / 6, not proved for longer ones); byte offsets of the Rust code are character positions of the model.  MOVED FROM VALIDATED TO PROVED in session 4: (1) the abstraction 'find_overlapping = all occurrences ordered by end offset' is no longer built into the definition the theorems use: acLoop_eq_findLL_of_spec / ac_loop_of_spec hold for every report that meets AcSpec (order among equal ends and multiplicities free), and C10_main takes the report as a parameter; (2) the tokens inside tags: tokens_concat_verbatim, interior_is_partitioned, pieces_same_end about scanPieces (before: only the position of the tag end was modelled, interior tokens were invisible to the correspondence - the `tok=` comparison ignores them); (3) the main theorem C10_main with the gap to the code as hypotheses, C10_main_gives_full; (4) the clause 'the only characters ever removed are those the whitespace rules name' as theorems about the declarative rules themselves: text_is_partitioned (every text = removed prefix ++ printed part ++ removed suffix), removed_left_is_named (behind `-` exactly the leading whitespace, under trim_blocks exactly one line break behind an unmarked block / comment / raw tag, nothing behind `+` / a variable tag), removed_right_is_named (in front of `-` trailing whitespace, under lstrip_blocks only horizontal whitespace and only when the line holds nothing else, nothing in front of `+`) - before, these readings of specRender were only cross-checked against the Python rules.  (5) the whole-source partition: source_is_partitioned / lexed_source_is_partitioned (the spans specParts - removed prefix, printed part, removed suffix of every text, and every tag - concatenate to the source as Tokenizer::new keeps it, i.e. every character belongs to exactly one span; the tokenizer prints exactly what the printed spans and the tags contribute; removed spans hold only whitespace), with interior_is_partitioned for the tokens and blanks inside a tag.  STILL NOT DONE: the two partitions are separate theorems (a tag is one span of the outer one; start delimiter ++ marker ++ interior pieces ++ marker ++ end delimiter is not assembled into one list); non-ASCII identifiers (hook lex_identifier exists, the model still answers unsupported); parser-level constructs are in the declarative spec only through the wrap stream's Python evaluator (for / macro / call / set / filter / block / with / autoescape / if), not in Lean.  The table C10_SEARCH_SITES skips functions that exist only under cfg(feature = verif_hooks) (instrumentation, not compiled for users).  MOVED FROM VALIDATED TO PROVED in this round: (1) string literals with \\uXXXX (incl. surrogate pairs and from_str_radix's leading +), \\xXX and octal escapes are tokens of lex_eq_spec / interior_end_found (Tok.str with strBodyOk = what unescape accepts, proved equal to the model's character-by-character reading; they were 'unsupported'); (2) end delimiters that begin with - / + (after fix 2cdfe64), with digits, letters, quotes or any other non-blank character, comment ends that begin with whitespace, end delimiters that end in horizontal whitespace, and block/variable/comment start delimiters that end in a line break are inside goodDelims (they were excluded by hypothesis; the excluded point hid the defect); (3) raw tags under such end delimiters (skip_basic_tag).  NOT COVERED by the theorems, with the reason (real code probed at each point): (a) start delimiters that begin with whitespace (` {%`): after `-}}` or, for a leading line break, under trim_blocks the lexer removes the whitespace the next delimiter begins with and the tag becomes text - the statement's clauses 'whitespace adjacent to a - marker is removed' and 'rewriting tags to other delimiters changes nothing' contradict each other there; (b) line prefixes that end in a line break and end delimiters whose last non-blank character is a line break (`%}\\n`): Tokenizer::new removes the template's trailing line break, which is then part of the last tag's delimiter (the tag no longer closes), and lstrip_blocks sees a line start behind the tag - again a rule of the statement applies to whitespace that belongs to a delimiter; (c) variable / block end delimiters that begin with ASCII whitespace: build accepts them but blanks inside a tag are skipped before the end delimiter is looked for, so no tag ever closes (every tag is a syntax error; the cfg stream checks that such a set renders the probe as written or fails); (d) non-ASCII identifiers (model answers 'unsupported'; 713 of 12216 random-set cases).  Sources that do not read back as written are outside by definition of the statement (`<!---->` = `<!--` + left marker + unclosed body; end delimiter `--` followed by the text `-x` = marker + end, as in Jinja2).  The parser / code generator / renderer behind the lexer are covered by the differential runs only.",
}

_WS_CP = [9, 10, 11, 12, 13, 32, 0x85, 0xA0, 0x1680] + list(range(0x2000, 0x200B)) + [0x2028, 0x2029, 0x202F, 0x205F, 0x3000]
WS = "".join(chr(c) for c in _WS_CP)  # Rust char::is_whitespace
HWS = WS.replace("\n", "").replace("\r", "")
VM, BM = "\x01", "\x02"
MK = {"_": "", "-": "-", "+": "+"}


@functools.lru_cache(maxsize=1 << 16)
def unhex(h):
    return bytes.fromhex(h).decode("utf-8")


def parse_fam(s):
    name, ds = s.split(":")
    d = [unhex(x) for x in ds.split(",")]
    return name, dict(bs=d[0], be=d[1], vs=d[2], ve=d[3], cs=d[4], ce=d[5], ls=d[6], lc=d[7])


def parse_segs(segs):
    """-> list of ('T', text) | ('V'|'B'|'C', l, r, interior) | ('R', l, ri, l2, r2, content, tight)"""
    out = []
    if segs == ".":
        return out
    nb = 0
    for it in segs.split(";"):
        k = it[0]
        if k in "Bb":
            w = "if t" if nb % 2 == 0 else "endif"
            out.append(("B", it[1], it[2], " " + w + " " if k == "B" else w))
            nb += 1
        else:
            out.append(parse_item(it))
    return out


@functools.lru_cache(maxsize=1 << 16)
def parse_item(it):
    out = []
    if True:
        k = it[0]
        if k == "T":
            out.append(("T", unhex(it[1:])))
        elif k in "Vv":
            out.append(("V", it[1], it[2], " v " if k == "V" else "v"))
        elif k == "C":
            out.append(("C", it[1], it[2], " c "))
        elif k == "K":
            out.append(("C", it[1], it[2], unhex(it[3:])))
        elif k == "G":
            out.append(({"v": "V", "b": "B", "c": "C"}[it[1]], it[2], it[3], unhex(it[4:])))
        elif k in "Rr":
            out.append(("R", it[1], it[2], it[3], it[4], unhex(it[5:]), k == "r"))
        else:
            raise ValueError(it)
    return out[0]


def tag_src(d, it):
    k = it[0]
    if k == "V":
        return d["vs"] + MK[it[1]] + it[3] + MK[it[2]] + d["ve"]
    if k == "B":
        return d["bs"] + MK[it[1]] + it[3] + MK[it[2]] + d["be"]
    if k == "C":
        return d["cs"] + MK[it[1]] + it[3] + MK[it[2]] + d["ce"]
    p = "" if it[6] else " "
    return (d["bs"] + MK[it[1]] + p + "raw" + p + MK[it[2]] + d["be"] + it[5] + d["bs"] + MK[it[3]] + p + "endraw" + p + MK[it[4]] + d["be"])


def own_start(d, it):
    return {"V": d["vs"], "B": d["bs"], "C": d["cs"], "R": d["bs"]}[it[0]]


_ASCII_WS = " \t\n\x0c\r"
_TOK = re.compile(r"""(?P<ws>[ \t\n\x0c\r]+)|(?P<ident>[A-Za-z_][A-Za-z0-9_]*)|(?P<int>[0-9]+)
    |(?P<str>'(?:\\.|[^'\\])*'|"(?:\\.|[^"\\])*")
    |(?P<op2>//|\*\*|==|!=|>=|<=)|(?P<op>[-+*/%.,:~|=<>()\[\]{}])""", re.X | re.S)


def _radix16(s):
    """u16/u8::from_str_radix(s, 16): an optional `+`, then at least one hex digit, nothing else"""
    t = s[1:] if s[:1] == "+" else s
    return int(t, 16) if t and all(c in "0123456789abcdefABCDEF" for c in t) else None


def unescape_ok(body):
    """utils::unescape, transcribed: does it accept the body of a string literal?"""
    it = iter(body)
    pending = 0

    def push_char():
        return pending == 0

    for c in it:
        if c != "\\":
            if not push_char():
                return False
            continue
        d = next(it, None)
        if d is None:
            return False
        if d == "u":
            h = "".join(next(it, "\0") for _ in range(4))
            v = _radix16(h)
            if v is None:
                return False
            surrogate = 0xD800 <= v <= 0xDFFF
            if pending == 0 and not surrogate:
                pass
            elif not surrogate:
                return False
            elif pending == 0:
                pending = v
            elif pending <= 0xDBFF and v >= 0xDC00:
                pending = 0
            else:
                return False
        elif d == "x":
            h = "".join(x for x in (next(it, None), next(it, None)) if x is not None)
            if len(h.encode()) != 2 or _radix16(h) is None or not push_char():
                return False
        elif d in "01234567":
            o = d
            rest = "".join(it)
            while len(o) < 3 and rest[:1] and rest[0] in "01234567":
                o, rest = o + rest[0], rest[1:]
            it = iter(rest)
            if int(o, 8) > 255 or not push_char():
                return False
        elif not push_char():
            return False
    return pending == 0


def interior_reads_back(e, interior, l, r, following, block):
    """second opinion on `interiorOk`: the interior is a sequence of blanks, ASCII identifiers, decimal
    integers, string literals (every escape `unescape` accepts), operators and brackets that the lexer reads token
    by token; at bracket depth 0 no token starts with the end delimiter or with a marker directly
    in front of it; brackets are closed at the end; nothing behind an unmarked opening side looks
    like a marker; a block tag is not `raw`"""
    src = interior + MK[r] + e + following
    if l == "_" and (interior + MK[r] + e)[:1] in ("-", "+"):
        return False
    if not close_ok(e, r, following):
        return False
    if block and src.lstrip(_ASCII_WS).startswith("raw"):
        return False
    p, bal, n = 0, 0, len(interior)
    while p < n:
        m = _TOK.match(interior, p)
        if not m:
            return False
        kind = m.lastgroup
        if kind != "ws" and bal == 0:
            if src.startswith(e, p) or (src[p] in "-+" and src.startswith(e, p + 1)):
                return False
        nxt = src[m.end():m.end() + 1]
        if kind == "ident" and (nxt.isalnum() or nxt == "_" or (nxt and ord(nxt) >= 128)):
            return False
        if kind == "int":
            if nxt.isalnum() or nxt in ("_", ".") or (nxt and ord(nxt) >= 128) or int(m.group()) >= 2 ** 128:
                return False
        if kind == "str" and "\\" in m.group() and not unescape_ok(m.group()[1:-1]):
            return False
        if kind == "op":
            if (m.group() + nxt) in ("//", "**", "==", "!=", ">=", "<="):
                return False
            bal += {"(": 1, "[": 1, "{": 1, ")": -1, "]": -1, "}": -1}.get(m.group(), 0)
        p = m.end()
    return bal == 0


def close_ok(e, r, following):
    """an unmarked closing side is not read as a marked one: the end delimiter `--` followed by the
    text `-x` is read as `-` + `--` (by the lexer as by Jinja2)"""
    return r != "_" or not (e[:1] in ("-", "+") and (e + following)[1:].startswith(e))


def comment_reads_back(d, it):
    """a comment tag is the one its source spells: the body does not contain the comment end, a
    body character next to an unmarked side is not `-`/`+`, and `{#-#}` is the comment with a LEFT
    marker (so "empty body, right marker only" is not a writing of its own)"""
    l, r, body = it[1], it[2], it[3]
    br = body + MK[r]
    if (br + d["ce"]).find(d["ce"]) != len(br):
        return False
    # (an end delimiter that itself starts with `-`/`+`, e.g. `-->`, counts: `<!---->` is a comment
    # with a left marker that is never closed)
    if l == "_" and (br + d["ce"])[:1] in ("-", "+"):
        return False
    # the byte in front of the end delimiter is the closing marker; an empty body has none (whatever
    # the end delimiter begins with)
    if r == "_" and body[-1:] in ("-", "+"):
        return False
    return True


def alternate(items):
    """head text and [(tag, text)] with adjacent texts joined"""
    head, tail = "", []
    for it in items:
        if it[0] == "T":
            if tail:
                tail[-1][1] += it[1]
            else:
                head += it[1]
        else:
            tail.append([it, ""])
    return head, tail


# ------------------------------------------------------------------ the rules, second opinion
def strip_one_newline_end(s):
    if s.endswith("\r\n"):
        return s[:-2]
    if s.endswith("\n") or s.endswith("\r"):
        return s[:-1]
    return s


def one_newline_len(s):
    if s.startswith("\r\n"):
        return 2
    if s.startswith("\n") or s.startswith("\r"):
        return 1
    return 0


def text_out(t, trim, lstrip, first, left, right):
    """left = (blockish, right marker of the tag before) or None; right = (blockish, left marker of
    the tag after) or None.  Returns the surviving part of t."""
    lcut = rcut = 0
    if left is not None:
        lb, lm = left
        if lm == "-":
            lcut = len(t) - len(t.lstrip(WS))
        elif lm == "_" and lb and trim:
            lcut = one_newline_len(t)
    if right is not None:
        rb, rm = right
        if rm == "-":
            rcut = len(t) - len(t.rstrip(WS))
        elif rm == "_" and rb and lstrip:
            body = t.rstrip(HWS)
            # the horizontal run reaches the start of a line (or of the template)
            if (body == "" and first) or body.endswith("\n") or body.endswith("\r"):
                rcut = len(t) - len(body)
    if lcut + rcut >= len(t):
        return ""
    return t[lcut:len(t) - rcut]


def blockish(it):
    return it[0] != "V"


def py_spec_pieces(tlk, items):
    """[(tag or None, text)]: for every text and every tag (in template order) what it contributes"""
    trim, lstrip, keep = tlk[0] == "1", tlk[1] == "1", tlk[2] == "1"
    head, tail = alternate(items)
    if not keep:
        if tail:
            tail[-1][1] = strip_one_newline_end(tail[-1][1])
        else:
            head = strip_one_newline_end(head)
    texts = [head] + [t for _, t in tail]
    tags = [g for g, _ in tail]
    out = []
    for i, t in enumerate(texts):
        left = (blockish(tags[i - 1]), tags[i - 1][4] if tags[i - 1][0] == "R" else tags[i - 1][2]) if i > 0 else None
        right = (blockish(tags[i]), tags[i][1]) if i < len(tags) else None
        out.append((None, text_out(t, trim, lstrip, i == 0, left, right)))
        if i < len(tags):
            g = tags[i]
            if g[0] == "V":
                out.append((g, VM))
            elif g[0] == "B":
                out.append((g, BM))
            elif g[0] == "R":
                out.append((g, text_out(g[5], trim, lstrip, False, (True, g[2]), (True, g[3]))))
            else:
                out.append((g, ""))
    return out


def py_spec(tlk, items):
    return "".join(t for _, t in py_spec_pieces(tlk, items))


OPENERS = {"for": "endfor", "macro": "endmacro", "set": "endset", "filter": "endfilter", "block": "endblock",
           "call": "endcall", "with": "endwith", "autoescape": "endautoescape", "if": "endif"}


def eval_pieces(pieces):
    """what a template of the wrap stream renders, given what every text contributes: a small
    evaluator for for / macro / call / set-block / filter / block / with / autoescape / if bodies"""
    pos = 0
    macros, setvals = {}, {}

    def body(closer, caller):
        nonlocal pos
        out = []
        while pos < len(pieces):
            g, text = pieces[pos]
            pos += 1
            if g is None or g[0] in "CR":
                out.append(text)
                continue
            word = g[3].split()
            if g[0] == "V":
                name = g[3].strip()
                if name == "v":
                    out.append("V")
                elif name == "x":
                    out.append(setvals["x"])
                elif name == "m()":
                    out.append(macros["m"](None))
                elif name == "caller()":
                    out.append(caller() if caller else "")
                else:
                    raise ValueError(name)
                continue
            if word[0] == closer:
                return "".join(out)
            kind = word[0]
            start = pos
            if kind == "for":
                inner = body("endfor", caller)
                out.append(inner * 2)
            elif kind == "macro":
                # the body is rendered at each call; remember where it starts
                mstart = pos
                body("endmacro", None)
                mend = pos

                def call_macro(c, mstart=mstart, mend=mend):
                    nonlocal pos
                    save = pos
                    pos = mstart
                    r = body("endmacro", c)
                    pos = save
                    return r
                macros["m"] = call_macro
            elif kind == "set":
                setvals["x"] = body("endset", caller)
            elif kind == "filter":
                out.append(body("endfilter", caller).upper())
            elif kind == "call":
                cstart = pos
                body("endcall", caller)
                cend = pos

                def the_caller(cstart=cstart):
                    nonlocal pos
                    save = pos
                    pos = cstart
                    r = body("endcall", caller)
                    pos = save
                    return r
                out.append(macros["m"](the_caller))
            elif kind in ("block", "with", "autoescape", "if"):
                out.append(body(OPENERS[kind], caller))
            else:
                raise ValueError(kind)
        return "".join(out)

    return body(None, None)


# ------------------------------------------------------------------ delimiter-freeness
def at_line_start(src, p):
    i = p
    while i > 0 and src[i - 1] in " \t":
        i -= 1
    return i == 0 or src[i - 1] in "\r\n"


def py_free(d, items):
    starts = [(d["vs"], False), (d["bs"], False), (d["cs"], False)]
    if d["ls"]:
        starts.append((d["ls"], True))
    if d["lc"]:
        starts.append((d["lc"], False))
    src, regions, tags, rs = "", [], [], 0
    pending = []
    pending_raw = []
    for it in items:
        if it[0] == "T":
            src += it[1]
            continue
        regions.append((rs, len(src)))
        tags.append((len(src), own_start(d, it)))
        src += tag_src(d, it)
        rs = len(src)
        if it[0] == "C" and not comment_reads_back(d, it):
            return False
        if it[0] in "VB":
            pending.append((it, len(src)))
        if it[0] == "R":
            c, bs = it[5], d["bs"]
            if "endraw" in c:
                return False
            p = "" if it[6] else " "
            pending_raw.append((it, c + bs + MK[it[3]] + p + "endraw" + p + MK[it[4]] + d["be"], len(src)))
            probe = c + bs
            for p in range(max(0, len(c) - len(bs) + 1), len(c)):
                if probe.startswith(bs, p):
                    return False
    regions.append((rs, len(src)))
    for it, inner, end in pending_raw:
        # the unmarked closing sides of `raw` and `endraw`
        if not close_ok(d["be"], it[2], inner + src[end:]) or not close_ok(d["be"], it[4], src[end:]):
            return False
    for it, end in pending:
        e = d["ve"] if it[0] == "V" else d["be"]
        if not interior_reads_back(e, it[3], it[1], it[2], src[end:], it[0] == "B"):
            return False
    for a, b in regions:
        for p in range(a, b):
            for pat, is_ls in starts:
                if src.startswith(pat, p) and (not is_ls or at_line_start(src, p)):
                    return False
    for p, own in tags:
        best = ""
        for pat, is_ls in starts:
            if src.startswith(pat, p) and (not is_ls or at_line_start(src, p)) and len(pat) > len(best):
                best = pat
        if best != own:
            return False
    return True


@functools.lru_cache(maxsize=1 << 16)
def render_tok(tok):
    """engine token list -> text with markers, or None when the lexer reported an error"""
    if tok in ("panic", "badcfg"):
        return None
    out = []
    for it in tok.split(","):
        if not it:
            continue
        if it == "V":
            out.append(VM)
        elif it == "B":
            out.append(BM)
        elif it[0] == "D":
            out.append(unhex(it[1:]))
        else:
            return None
    return "".join(out)


def kern_words(n):
    alpha = [b"-", b"{", b"%"]
    out, level = [b""], [b""]
    for _ in range(n):
        level = [w + c for w in level for c in alpha]
        out += level
    return out


def kern_digit(i):
    return "." if i < 0 else "0123456789abcdefghijklmnopqrstuvwxyz"[i]


KAC_ALPHA = "ab \n"


@functools.lru_cache(maxsize=8)
def kac_words(n):
    out, level = [""], [""]
    for _ in range(n):
        level = [w + c for w in level for c in KAC_ALPHA]
        out += level
    return out


def py_find_start(d, prefix, hay):
    """leftmost start delimiter, the longest one there; the line statement prefix counts only
    when nothing but blanks and tabs precede it on its line"""
    pats = [("v", d["vs"]), ("b", d["bs"]), ("c", d["cs"])]
    if d["ls"]:
        pats.append(("s", d["ls"]))
    if d["lc"]:
        pats.append(("l", d["lc"]))
    src = prefix + hay
    for p in range(len(prefix), len(src)):
        best = None
        for kind, pat in pats:
            if src.startswith(pat, p) and (kind != "s" or at_line_start(src, p)):
                if best is None or len(pat) > len(best[1]):
                    best = (kind, pat)
        if best:
            return kern_digit(p - len(prefix)) + best[0] + kern_digit(len(best[1]))
    return "..."


def fields_of(parts):
    return {p.split("=", 1)[0]: p.split("=", 1)[1] for p in parts if "=" in p}


def seg_site(fam, items, tlk):
    sig = "".join((it[0] + (it[1] + it[2] + ("" if it[0] == "R" or it[3] in (" v ", " if t ", " endif ", " c ") else "[" + it[3] + "]")
                            if it[0] != "R" else it[1] + it[2] + it[3] + it[4] + ("tight" if it[6] else ""))) if it[0] != "T" else "t" for it in items)
    return f"seg/{fam}/{sig}/trim={tlk[0]},lstrip={tlk[1]},keep={tlk[2]}"


# ------------------------------------------------------------------ line statements, second opinion
def line_expect(tlk, nl, lines):
    """whole statement/comment lines vanish, a trailing line comment takes the rest of its line with
    it; the template's final line break goes unless keep_trailing_newline"""
    nlc = {"n": "\n", "rn": "\r\n", "r": "\r"}[nl]
    items = lines.split(";")
    no_final = items and items[-1] == "!"
    items = [x for x in items if x != "!"]
    out, last_src_is_text_nl = [], False
    for i, it in enumerate(items):
        this_nl = "" if (i + 1 == len(items) and no_final) else nlc
        if it[0] == "X":
            t = unhex(it[1:])
            # a raw block at the end of the line: trim_blocks takes the line break
            eaten = t.endswith("\x03") and tlk[0] == "1" and this_nl != ""
            out.append(t.replace("\x01", "V").replace("\x03", "r") + ("" if eaten else this_nl))
            if t + this_nl != "":
                last_src_is_text_nl = this_nl != "" and not eaten
        elif it[0] == "Z":
            out.append(unhex(it[1:].split(".")[0]).replace("\x01", "V").replace("\x03", "r"))
            last_src_is_text_nl = False
        else:
            last_src_is_text_nl = False
    s = "".join(out)
    if tlk[2] == "0" and last_src_is_text_nl:
        s = s[: len(s) - len(nlc)]
    return s


def valid_cfg(d):
    """start delimiters non-empty and pairwise distinct (line prefixes optional), end delimiters non-empty"""
    req = [d["vs"], d["bs"], d["cs"]]
    if any(x == "" for x in req) or any(d[k] == "" for k in ("ve", "be", "ce")):
        return False
    allp = req + [x for x in (d["ls"], d["lc"]) if x]
    return len(set(allp)) == len(allp)


def usable_cfg(d):
    """block / variable end delimiters that start with ASCII whitespace can never be found (blanks
    inside a tag are skipped first): such a configuration is accepted, every tag is a syntax error"""
    return not (d["ve"][:1] in " \t\n\r\x0c" or d["be"][:1] in " \t\n\r\x0c")


def run(r):
    r.rule = ("seg: default delimiters, all 8 settings, exhaustively: every sequence of <= 2 items, every text-tag-text and tag-text-tag "
              "triple (thorough: every sequence of 3 items) over 12 whitespace/newline/CR/brace/look-alike texts x {variable, if/endif, "
              "comment} x 9 marker pairs + raw blocks (outer and inner markers, 16 contents); degenerate tags (empty / blank / marker-like "
              "comment bodies, tight tags, empty raw blocks with 81 marker combinations), 70 richer interiors (strings containing end "
              "delimiters, brackets, numbers in every notation, operators next to the end delimiter, lexer errors) and ~100 string "
              "literals with every escape of unescape (\\u incl. surrogate pairs, \\x, octal, leading +; valid, invalid, unterminated) in "
              "text contexts; 60k (thorough 300k) sampled sequences of 3-4 items over 44 texts; the same vocabulary with look-alike texts "
              "under 22 custom delimiter families (every sequence of <= 2 items, degenerate tags between texts and next to other tags, "
              "strings that contain the family's own delimiters), among them end delimiters that begin with - (`-->`, `-%>`), + , a digit, "
              "a letter, whitespace (comment end), end in blanks, and `--` / `++` whose marked reading can swallow text.  rand: 500 "
              "(thorough 4000) random delimiter sets (shared stems, nested and contained start "
              "delimiters, multi-byte characters, optional line prefixes) x 30-40 random sources made of delimiter fragments.  prog: "
              "degenerate tags as programs (comments with empty / blank / marker-like bodies, tight variable tags, if blocks, raw blocks x "
              "all marker placements; every sequence of <= 2 segments) and random core-fragment programs, rewritten to each family and "
              "compared with the default syntax (lexed by the model as well).  line: random line statement / line "
              "comment layouts (statements also continued over a line break inside brackets) x 3 line endings x 8 settings under 79 families (every family x {#/##, @@/@, statement prefix only, comment "
              "prefix only}), as templates with line tags (Lean spec) and against the in-place tag form.  "
              "kern: the real utils::memstr / utils::memchr on every haystack of length <= 8 over a 3-letter alphabet x every needle of "
              "length 1-4 (exhaustive) against the Lean kernels and Python's str.find.  kac: the real find_start_marker on every haystack "
              "of length <= 5 (thorough 6) over {a, b, blank, newline} (also behind a prefix, mid-line and at a line start) x 450 "
              "(thorough 1680) start delimiter sets whose members are prefixes / suffixes / infixes of one another and self-overlapping, "
              "in every role incl. both line prefixes, against the model of the automaton path, the Lean leftmost-longest search and a "
              "Python search; on the same haystacks the automaton's own report (start, end, pattern of every overlapping match, max_pattern_len) is checked against AcSpec by the Lean acSpecB and by Python (every 5th set).  kid: the real lex_identifier (hook; the harness build has the `unicode` feature off, so its ASCII form) on every string of length <= 3 over 22 characters (ASCII letters, digits, `_`, separators, non-ASCII characters that start / only continue / do not belong to identifiers, 2-4 bytes long) against an independent rule (Python str.isidentifier = XID when the unicode form is compiled) and the model's ASCII scan.  itok: tag interiors glued from 70 token fragments (every fragment, every pair glued / spaced - quick a third per family -, random mixtures of 3-6) x closing markers x 13 families x {variable tag, block tag, line statement}: token texts and tag end of the real lexer against scanPieces.  entry: sampled segment sequences through "
              "render_str, render_named_str, template_from_str, template_from_named_str, render_captured(_to), "
              "add_template (borrowed and owned) + get_template, a cloned environment, a loader, from another "
              "template by include and by extends, and with the whitespace settings flipped after add_template / before the "
              "first load.  wrap: bodies from the segment alphabet inside for / macro / call / set / filter / block / with / autoescape "
              "with random markers on the opening and closing tags, expectation computed from the rules.  big: texts beyond 64 KiB.  "
              "cfg: valid, invalid and degenerate delimiter sets.  A seg case is non-trivial when it is distinct, delimiter-free and "
              "contains at least one tag")
    r.assumptions = ["byte offsets of the Rust lexer correspond to character positions of the model (UTF-8 self-synchronisation)",
                     "aho_corasick::find_overlapping meets AcSpec (reports exactly the occurrences of the patterns, in the order of their end offsets; order among equal ends free) - a named hypothesis of C10_main, decided by the Lean acSpecB on the real automaton's report for every kac haystack",
                     "identifiers are ASCII (with the unicode feature non-ASCII identifier characters make the model answer 'unsupported')",
                     "delimiters contain no whitespace a rule of the statement could remove (start delimiters do not begin with whitespace, line prefixes and end delimiters do not end in a line break), and variable / block end delimiters do not begin with ASCII whitespace",
                     "sequences longer than those enumerated behave as the induction in lex_eq_spec says (proved for the model)"]
    r.regen_tables(["C10_DEFAULT_DELIMS", "C10_VALIDATED_ORDER", "C10_PATTERN_TO_MARKER", "C10_WS_FROM_BYTE", "C10_OPERATORS",
                    "C10_RADIX_PREFIXES", "C10_SEARCH_SITES", "C10_UNESCAPE"])
    r.lean_prove("MJ.Props.C10", "MJ/Audit/C10.lean", extra_targets=["drive_c10"])
    exe = r.cargo_build("c10")
    if exe is None:
        return
    # the streams are produced and checked part by part to bound memory; the next part is produced
    # (harness + model driver, both child processes) while the current one is checked
    nch = 8 if r.tier == "thorough" else 1
    parts = [("seg-exh", i, nch) for i in range(nch)] + [("seg-sample", 0, 1), ("seg-fam", 0, 1), ("prog", 0, 1), ("line", 0, 1), ("rand", 0, 1), ("big", 0, 1), ("kern", 0, 1), ("kac", 0, 1), ("kid", 0, 1), ("itok", 0, 1), ("entry", 0, 1), ("wrap", 0, 1), ("cfg", 0, 1)]
    r.exhaustive = False
    import queue, threading, concurrent.futures
    q = queue.Queue(maxsize=1)
    stop = threading.Event()

    def produce():
        for which, i, n in parts:
            if stop.is_set():
                break
            try:
                rc, out, err = r.harness(exe, ["gen", r.tier, which, str(i), str(n)])
                if rc != 0:
                    q.put((which, f"harness c10 {which} exited {rc}: {err[-300:]}", None, None))
                    return
                lines = out.splitlines()
                if not lines:
                    q.put((which, f"harness c10 produced no cases for {which}", None, None))
                    return
                if len(lines) > 100_000 or which == "kac":
                    # the model driver works line by line: large parts (and the kac part, whose lines each
                    # stand for a thousand haystacks) go through three processes
                    k = (len(lines) + 2) // 3
                    chunks = ["\n".join(lines[j:j + k]) + "\n" for j in range(0, len(lines), k)]
                    del out
                    with concurrent.futures.ThreadPoolExecutor(max_workers=3) as ex:
                        res = list(ex.map(lambda c: r.driver("drive_c10", c), chunks))
                    del chunks
                    model = None if any(x is None for x in res) else [y for x in res for y in x]
                else:
                    model = r.driver("drive_c10", out)
                    del out
                if model is None or len(model) != len(lines):
                    q.put((which, f"model driver output does not line up with the harness cases ({which})", None, None))
                    return
                q.put((which, None, lines, model))
                del lines, model
            except Exception as ex:  # noqa: BLE001 - reported as a broken check
                q.put((which, f"producing {which} failed: {ex!r}", None, None))
                return
        q.put(None)

    th = threading.Thread(target=produce, daemon=True)
    th.start()
    try:
        while True:
            item = q.get()
            if item is None:
                break
            which, problem, lines, model = item
            if problem:
                r.broken.append(problem)
                return
            check_lines(r, lines, model)
            del lines, model, item
    finally:
        stop.set()
        # let a producer that waits with a finished part go on and end
        while th.is_alive():
            try:
                q.get_nowait()
            except queue.Empty:
                pass
            th.join(timeout=0.2)


def check_lines(r, lines, model, verbose=False):
    fam_cache = {}
    n_spec_bad = 0
    for i, line in enumerate(lines):
        parts = line.split("\t")
        case = parts[0]
        f = case.split(" ")
        stream = f[0]
        r.hist["stream"][stream] += 1
        if stream == "progskip":
            r.hist["prog"]["skipped: text not delimiter-free in " + f[1]] += 1
            continue
        fl = fields_of(parts)
        mparts = model[i].split("\t")
        if mparts[0] != case:
            r.broken.append(f"driver line {i} is for another case")
            return
        ml = fields_of(mparts)
        if stream == "big":
            tlk, famenc, segs = f[1], f[2], f[3]
            fam, d = parse_fam(famenc)
            items = parse_segs(segs)
            r.count(case, True)
            r.hist["big"]["cases"] += 1
            spec_py = py_spec(tlk, items)
            got = render_tok(fl["tok"])
            if got != spec_py:
                r.oracle_failure(case[:80], f"lexer output differs from the rules on a text of {len(spec_py)} characters", "big/tok")
            nb = sum(1 for it in items if it[0] == "B")
            want = "ok:" + spec_py.replace(VM, "V").replace(BM, "").encode().hex()
            if nb % 2 == 0 and fl["out"] != want:
                r.oracle_failure(case[:80], "render differs from the rules on a text beyond 64 KiB", "big/render")
            continue
        if stream == "kern":
            r.count(case, True)
            which, needle = f[1], bytes.fromhex(f[2])
            hay = kern_words(8)
            if which == "memstr":
                want = "".join(kern_digit(h.find(needle)) for h in hay)
            else:
                want = "".join(kern_digit(h.find(needle[:1])) for h in hay)
            r.count(None, True, n=len(hay) - 1)
            r.hist["kern"][which + " needle length %d" % len(needle)] += len(hay)
            if ml.get("res") != want:
                r.broken.append(f"Lean {which} kernel differs from the leftmost occurrence (Python str.find) on needle {needle!r}")
            if fl["res"] != want:
                bad = next(i for i in range(len(hay)) if i >= len(fl["res"]) or fl["res"][i] != want[i])
                got = fl["res"][bad] if bad < len(fl["res"]) else "?"
                r.oracle_failure(case, f"utils::{which}({hay[bad]!r}, {needle!r}) returned {got!r}, the leftmost occurrence is {want[bad]!r}",
                                 f"kern/{which}")
            continue
        if stream == "kid":
            # the identifier scan (unicode-ident when the `unicode` feature is on) against the XID rules as
            # Python's str.isidentifier knows them, and against the model's ASCII scan where that applies
            r.count(case, True)
            t = unhex(f[1])
            uni = fl.get("unicode") == "1"
            n = 0
            for j, c in enumerate(t):
                if uni:
                    ok = c == "_" or (c.isidentifier() if j == 0 else ("a" + c).isidentifier())
                else:
                    ok = c == "_" or (ord(c) < 128 and (c.isalpha() if j == 0 else c.isalnum()))
                if not ok:
                    break
                n += len(c.encode())
            r.hist["kid"]["unicode identifiers" if uni else "ASCII identifiers"] += 1
            if fl.get("len") != str(n):
                r.broken.append(f"lex_identifier({t!r}) = {fl.get('len')}, the XID rules give {n} bytes")
            if ml.get("nonascii") == "0":
                r.hist["model"]["compared"] += 1
                if ml.get("len") != fl.get("len"):
                    r.model_disagreement(case, fl.get("len"), ml.get("len"))
            else:
                r.hist["model"]["unsupported interior"] += 1
            continue
        if stream == "itok":
            # the tokens inside a tag: the model's pieces (tokens_concat_verbatim / interior_is_partitioned are
            # theorems about them) against the source text of the tokens the real lexer emits
            r.count(case, True)
            r.hist["itok"]["kind " + f[2]] += 1
            mend, rend = ml.get("end", "?"), fl.get("end", "?")
            r.hist["itok-end"][rend.split(":")[0]] += 1
            if ml.get("cat") != "1":
                r.broken.append(f"compiled model contradicts tokens_concat_verbatim on {case}")
            if mend == "unsupported":
                r.hist["model"]["unsupported interior"] += 1
                continue
            fam, d = parse_fam(f[1])
            start = {"v": d["vs"], "b": d["bs"], "s": d["ls"]}[f[2]]
            if py_find_start(d, "", start + unhex(f[3])) != kern_digit(0) + f[2] + kern_digit(len(start)):
                # glued to the interior the start delimiter reads as another, longer one (`<%` + `=`)
                r.hist["itok"]["skipped: start delimiter + interior is another tag"] += 1
                continue
            r.hist["model"]["compared"] += 1
            if mend != rend or (rend.startswith("found") and ml.get("toks") != fl.get("toks")):
                r.model_disagreement(case, f"toks={fl.get('toks')} end={rend}", f"toks={ml.get('toks')} end={mend}")
            continue
        if stream == "kac":
            fam, d = parse_fam(f[1])
            n, prefix = int(f[2]), unhex(f[3]) if len(f) > 3 else ""
            words = kac_words(n)
            want = "".join(py_find_start(d, prefix, h) for h in words)
            r.count(case, True)
            r.count(None, True, n=len(words) - 1)
            npat = 3 + (1 if d["ls"] else 0) + (1 if d["lc"] else 0)
            r.hist["kac"]["%d patterns, prefix %r" % (npat, prefix)] += len(words)
            if ml.get("ll") != want:
                r.broken.append(f"Lean findLL differs from the leftmost-longest search in Python on {case}")
            if ml.get("res") != want:
                r.broken.append(f"the Lean model of the Aho-Corasick path differs from leftmost-longest on {case}")
            # the assumption about aho_corasick the proof uses (AcSpec: the automaton reports exactly the
            # occurrences of the patterns, ordered by end offset), decided by the Lean acSpecB on what the
            # REAL automaton reported on every haystack, and the model of the loop run on the real report
            if fl.get("ms") not in (None, "-"):
                r.hist["kac"]["haystacks on which the real automaton's report was checked against AcSpec"] += len(words)
                if ml.get("acspec") != f"{len(words)}/{len(words)}" or ml.get("maxok") != "1":
                    r.broken.append(f"the real automaton's report does not meet AcSpec (all occurrences, ordered by end offset; "
                                    f"max_pattern_len) on {case}: acspec={ml.get('acspec')} first bad haystack (hex) {ml.get('acbad')} "
                                    f"maxok={ml.get('maxok')}")
                elif ml.get("acloop") != want:
                    r.broken.append(f"acLoop over the real automaton's report differs from leftmost-longest although the report meets AcSpec "
                                    f"(contradicts acLoop_eq_findLL_of_spec) on {case}")
                # second opinion in Python: the occurrences of the patterns (every 5th set)
                pats = [d["vs"], d["bs"], d["cs"]] + [x for x in (d["ls"], d["lc"]) if x]
                second = i % 5 == 0
                for h, rep in (zip(words, fl["ms"].split(",")) if second else []):
                    occ = sorted((e, s0, pi) for pi, pt in enumerate(pats) for s0 in range(len(h) - len(pt) + 1)
                                 for e in [s0 + len(pt)] if h.startswith(pt, s0))
                    real = [(int(rep[k + 1], 36), int(rep[k], 36), int(rep[k + 2], 36)) for k in range(0, len(rep), 3)]
                    if sorted(real) != occ or [x[0] for x in real] != sorted(x[0] for x in real):
                        r.broken.append(f"find_overlapping on {h!r} with patterns {pats!r} reported (end, start, pattern) {real!r}; "
                                        f"the occurrences are {occ!r}")
                        break
            elif fl.get("ms") == "-":
                r.broken.append(f"no automaton for the custom delimiter set of {case}")
            got = fl.get("res", "")
            if got != want:
                bad = next((k for k in range(len(words)) if got[3 * k:3 * k + 3] != want[3 * k:3 * k + 3]), 0)
                r.oracle_failure(case, f"find_start_marker({prefix + words[bad]!r}, {len(prefix)}) with start delimiters "
                                       f"variable={d['vs']!r} block={d['bs']!r} comment={d['cs']!r} line statement={d['ls']!r} "
                                       f"line comment={d['lc']!r} returned {got[3 * bad:3 * bad + 3]!r}, leftmost-longest is "
                                       f"{want[3 * bad:3 * bad + 3]!r}", "kac/" + ("line" if (d["ls"] or d["lc"]) else "tags"))
            continue
        if stream in ("seg", "entry", "wrap"):
            tlk, famenc, segs = f[1], f[2], f[-1]
            if famenc not in fam_cache:
                fam_cache[famenc] = parse_fam(famenc)
            fam, d = fam_cache[famenc]
            items = parse_segs(segs)
            src = "".join(it[1] if it[0] == "T" else tag_src(d, it) for it in items)
            if src.encode().hex() != fl["src"] or ml.get("srcok") != "1":
                r.broken.append(f"unparse of harness / Lean / Python disagree on {case}")
                continue
            free = py_free(d, items)
            ntags = sum(1 for it in items if it[0] != "T")
            r.count(case, free and ntags > 0)
            r.hist["family"][fam] += 1
            r.hist["settings"][tlk] += 1
            r.hist["length"][len(items)] += 1
            r.hist["delimiter-free"][str(free)] += 1
            for it in items:
                r.hist["items"]["text" if it[0] == "T" else {"V": "variable", "B": "block", "C": "comment", "R": "raw"}[it[0]] + ":" + (it[1] + it[2] if it[0] != "R" else it[1] + it[2] + it[3] + it[4])] += 1
            tok = fl["tok"]
            mtok = ml.get("tok", "?")
            # correspondence: model lexer = real lexer
            if mtok == "unsupported":
                r.hist["model"]["unsupported interior"] += 1
            else:
                r.hist["model"]["compared"] += 1
                if mtok != tok:
                    r.model_disagreement(case, tok, mtok)
            if ml.get("free") == "1" and ml.get("good") == "1" and not free:
                r.broken.append(f"Lean delimFree holds but the Python check says not free: {case}")
            if stream == "entry":
                # every way of compiling and rendering the source agrees (whatever the source is)
                r.hist["entry-family"][fam] += 1
                base = fl.get("render_str", "?")
                for k in ("render_named_str", "template_from_str", "template_from_named_str", "render_captured",
                          "render_captured_to", "add_template",
                          "add_template_borrowed", "clone", "late_add", "loader"):
                    r.hist["entry-point"][k] += 1
                    if fl.get(k) != base:
                        r.oracle_failure(case, f"{k} gives {fl.get(k)} but render_str gives {base} (source {src!r})", f"entry/{k}")
                # reached through another template (`include`, `extends` without overrides): same text; a source
                # that fails on its own fails there too
                for k in ("include", "extends"):
                    r.hist["entry-point"][k] += 1
                    got = fl.get(k, "?")
                    if (got != base) if base.startswith("ok:") else (not got.startswith("err:")):
                        r.oracle_failure(case, f"reached by `{k}` the template gives {got} but render_str gives {base} (source {src!r})", f"entry/{k}")
                if fl.get("late_loader") != fl.get("flipped"):
                    r.oracle_failure(case, f"a loader-backed template compiled after the settings were changed gives {fl.get('late_loader')}, "
                                           f"render_str under those settings {fl.get('flipped')} (source {src!r})", "entry/late_loader")
            if not free:
                continue
            # oracle: the rules
            spec_py = py_spec(tlk, items)
            spec_lean = unhex(ml["spec"])
            if spec_py != spec_lean:
                n_spec_bad += 1
                if n_spec_bad <= 3:
                    r.broken.append(f"Lean specRender and the Python rules disagree on {case}: {spec_lean!r} vs {spec_py!r}")
            if ml.get("free") == "1" and mtok == "unsupported":
                r.broken.append(f"model does not cover a delimiter-free case: {case}")
            if ml.get("free") == "1" and ml.get("good") == "1":
                # an instance of theorem lex_eq_spec, evaluated by the compiled model
                r.hist["theorem"]["instances of lex_eq_spec (goodDelims, delimFree)"] += 1
                if render_tok(mtok) != spec_lean:
                    r.broken.append(f"compiled model contradicts lex_eq_spec on {case}")
            else:
                r.hist["theorem"]["outside the hypotheses (line prefixes / weaker freeness): differential only"] += 1
            got = render_tok(tok)
            if got != spec_py:
                r.oracle_failure(case, f"lexer produced {got!r}, the whitespace rules give {spec_py!r} (source {src!r})",
                                 seg_site(fam, items, tlk))
                continue
            if stream == "entry":
                base = fl.get("render_str", "?")
                nb = sum(1 for it in items if it[0] == "B")
                wantr = "ok:" + spec_py.replace(VM, "V").replace(BM, "").encode().hex()
                if nb % 2 == 0 and base != wantr:
                    r.oracle_failure(case, f"render_str gave {base}, the rules give {wantr} (source {src!r})", "entry/render_str")
                continue
            if stream == "wrap":
                kind = f[3]
                r.hist["wrap-kind"][kind] += 1
                want = eval_pieces(py_spec_pieces(tlk, items))
                o = fl["out"]
                if o != "ok:" + want.encode().hex():
                    shown = unhex(o[3:]) if o.startswith("ok:") else o
                    r.oracle_failure(case, f"{kind} body renders {shown!r}, the rules give {want!r} (source {src!r})", f"wrap/{kind}")
                continue
            if any(it[0] in "VB" and it[3] not in (" v ", "v", " if t ", "if t", " endif ", "endif") for it in items):
                r.hist["model"]["richer interior: token oracle only"] += 1
                continue
            nblocks = sum(1 for it in items if it[0] == "B")
            o = fl["out"]
            want = spec_py.replace(VM, "V").replace(BM, "")
            if nblocks % 2 == 0:
                if not o.startswith("ok:") or unhex(o[3:]) != want:
                    shown = unhex(o[3:]) if o.startswith("ok:") else o
                    r.oracle_failure(case, f"render gave {shown!r}, the whitespace rules give {want!r} (source {src!r})",
                                     "render:" + seg_site(fam, items, tlk))
            if i % 30011 == 0:
                r.sample({"case": case, "source": src, "rendered": want, "engine_tokens": tok})
        elif stream == "prog":
            tlk, famenc = f[1], f[2]
            fam = famenc.split(":")[0]
            o, b = fl["out"], fl["base"]
            r.hist["prog"]["base " + b.split(":")[0]] += 1
            mtok = ml.get("tok", "?")
            if mtok == "unsupported":
                r.hist["model"]["unsupported interior"] += 1
            else:
                r.hist["model"]["compared"] += 1
                if mtok != fl["tok"]:
                    r.model_disagreement(case, fl["tok"], mtok)
            if not b.startswith("ok:"):
                r.count(None, False)
                continue
            r.count(case, True)
            r.hist["prog-family"][fam] += 1
            if o != b:
                shown = unhex(o[3:]) if o.startswith("ok:") else o
                r.oracle_failure(case, f"under family {fam} the program renders {shown!r}, in default syntax {unhex(b[3:])!r} (source {unhex(fl['src'])!r})",
                                 f"prog/{fam}/" + ("error" if not o.startswith("ok:") else "output"))
            if i % 1009 == 0:
                r.sample({"case": "prog " + fam, "source": unhex(fl["src"]), "rendered": unhex(b[3:])})
        elif stream == "line":
            tlk, famenc, nl, ls = f[1], f[2], f[3], f[4]
            fam = famenc.split(":")[0]
            r.count(case, True)
            r.hist["line-ending"][nl] += 1
            want = line_expect(tlk, nl, ls)
            o, e = fl["out"], fl["eq"]
            mtok = ml.get("tok", "?")
            if mtok == "unsupported":
                r.hist["model"]["unsupported interior"] += 1
            else:
                r.hist["model"]["compared"] += 1
                if mtok != fl["tok"]:
                    r.model_disagreement(case, fl["tok"], mtok)
            if ml.get("srcok") != "1":
                r.broken.append(f"line stream: Lean's unparse of the line template differs from the harness source on {case}")
            elif ml.get("free") == "1":
                # an instance of lex_eq_spec with line statements / comments as tags
                r.hist["theorem"]["line stream: instances of lex_eq_spec (line prefixes)"] += 1
                spec_lean = unhex(ml["spec"])
                if render_tok(mtok) != spec_lean:
                    r.broken.append(f"compiled model contradicts lex_eq_spec on {case}")
                if spec_lean.replace(VM, "V").replace(BM, "") != want:
                    r.broken.append(f"Lean specRender and the Python expectation disagree on {case}: {spec_lean!r} vs {want!r}")
            else:
                r.hist["theorem"]["line stream: outside the hypotheses"] += 1
            raw_at_eol = any(x[:1] == "X" and unhex(x[1:]).endswith("\x03") for x in ls.split(";"))
            if raw_at_eol:
                # the tag form is rendered with trim_blocks on, which also applies to that raw block
                if o != "ok:" + want.encode().hex():
                    shown = unhex(o[3:]) if o.startswith("ok:") else o
                    r.oracle_failure(case, f"line form renders {shown!r}, expected {want!r} (source {unhex(fl['src'])!r})",
                                     f"line/{fam}/nl={nl}/raw")
                continue
            if not e.startswith("ok:") or unhex(e[3:]) != want:
                r.broken.append(f"line stream: the equivalent tag form does not render the expected text on {case}: {e} vs {want!r}")
                continue
            if o != e:
                shown = unhex(o[3:]) if o.startswith("ok:") else o
                r.oracle_failure(case, f"line form renders {shown!r}, the tags occupying those lines render {want!r} (source {unhex(fl['src'])!r})",
                                 f"line/{fam}/nl={nl}/" + ("error" if not o.startswith("ok:") else "output"))
        elif stream == "rand":
            r.count(case, True)
            fam, d = parse_fam(f[2])
            r.hist["rand-sets"]["line prefixes" if (d["ls"] or d["lc"]) else "no line prefixes"] += 1
            mtok = ml.get("tok", "?")
            if ml.get("valid") != "1":
                r.broken.append(f"the model of validated_start_delims rejects a set that build accepted: {case}")
            if mtok == "unsupported":
                r.hist["model"]["unsupported interior"] += 1
            else:
                r.hist["model"]["compared"] += 1
                if mtok != fl["tok"]:
                    r.model_disagreement(case, fl["tok"], mtok)
        elif stream == "cfg":
            fam, d = parse_fam(f[1])
            r.count(case, True)
            ok = valid_cfg(d)
            b = fl["build"]
            if ml.get("valid") != ("1" if ok else "0"):
                r.broken.append(f"Lean validatedStartDelims and the Python validity rule disagree on {fam}")
            r.hist["cfg"][("valid" if ok else "invalid") + " -> " + b + (" render " + fl["render"].split(":")[0] if "render" in fl else "")] += 1
            if not ok:
                if b != "err:InvalidDelimiter":
                    r.oracle_failure(case, f"invalid delimiter set {fam} is not rejected: build={b}", f"cfg/{fam}")
                continue
            want = "ok:" + "a V b c d".encode().hex()
            if b != "ok" or fl.get("probe") != "ok":
                r.oracle_failure(case, f"valid delimiter set {fam} gives build={b} probe={fl.get('probe')}", f"cfg/{fam}")
            elif usable_cfg(d) and fl.get("render") != want:
                r.oracle_failure(case, f"valid delimiter set {fam} renders the probe as {fl.get('render')}", f"cfg/{fam}/render")
            elif not usable_cfg(d) and fl.get("render") != want and not fl.get("render", "").startswith("err:"):
                r.oracle_failure(case, f"delimiter set {fam} with an unreachable end delimiter neither renders the probe nor fails: {fl.get('render')}", f"cfg/{fam}/render")
    r.extra["lean_vs_python_spec_disagreements"] = r.extra.get("lean_vs_python_spec_disagreements", 0) + n_spec_bad


def replay(r, path):
    d = json.load(open(path))
    exe = r.cargo_build("c10")
    rcode = 0
    for case in [d.get("case")] + d.get("more_cases", []):
        if not case:
            continue
        rc, out, err = r.harness(exe, ["one"] + case.split(" "))
        model = r.driver("drive_c10", out)
        print("engine:", out.strip())
        print("model :", model[0] if model else None)
        before = len(r.oracle_failures) + len(r.model_disagreements) + len(r.known_hits)
        check_lines(r, out.splitlines(), model or [])
        for f in r.oracle_failures:
            print("oracle:", f["what"])
        if len(r.oracle_failures) + len(r.model_disagreements) + len(r.known_hits) > before:
            rcode = 1
    return rcode
