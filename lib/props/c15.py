"""C15 — an environment's behaviour depends on its contents, not on its history (DESIGN.md §3 C15)."""
import json, re, collections, glob, os, hashlib, subprocess, concurrent.futures, time
from common import VERIF, LEAN

READY = True

META = {
    "technique": "Lean 4 proof (two-tier template store with load-time configuration refines a plain map + memo cache; "
                 "history independence of the whole environment value, failed insert/lookup are no-ops, re-add is a load, "
                 "stickiness, templates() lists exactly the stored templates once each, copy-on-write registries isolate clones, "
                 "Environment::empty() = stripped Environment::new(), state identity, and one small model per class of hidden state "
                 "(once-cells, buffer pools, value-handle registry, serialisation-flag guard, id counters) — all by induction over "
                 "arbitrary operation sequences; structural source facts AND the complete list of statics/thread-locals/interior-"
                 "mutable fields regenerated from /repo) + differential random histories: real Environment vs. Lean model vs. "
                 "freshly built environment in which every template is loaded under the load-time configuration of its last "
                 "load; foreign-value and 8-thread streams for the runtime part. Session 4: the memoising tier under ALL "
                 "interleavings at lock granularity (explicit mutex, linearizable against the sequential store), renders as "
                 "adaptive programs of lookups (C15_full / C15_main with the two validated hypotheses as typed parameters), the "
                 "list of everything a compile can read and the hidden state of minijinja-contrib / minijinja-autoreload "
                 "regenerated from source, fingerprint tables compared across processes that compile in different orders",
    "category": "proof",
    "text": "Kernel-checked theorems about the model of LoaderStore (borrowed map + memoising owned map with mutual "
            "eviction, loader, load-time TemplateConfig; compile as a parameter that may depend on the configuration; a stored "
            "template = (source, load-time configuration it was compiled under)), of the run-time settings and of the "
            "Arc::make_mut registries: every operation commutes with the abstraction to (explicit, cached) maps and returns the "
            "specification's answer; an environment's behaviour is a function of its value (run-time configuration, load-time "
            "configuration for future loads, loader, per template (source, load-time configuration at its last load), "
            "registries): any two histories/worlds ending in the same value are indistinguishable by every continuation "
            "(env_history_independent, over set_loader, all five load-time setters, all seven run-time setters, add/remove of "
            "filters/tests/globals, add_template/add_template_owned in every borrowed/owned combination, remove/clear, lookups); "
            "an environment created by new() from which every builtin is removed and whose auto-escape callback is replaced "
            "has the value of empty() and behaves like it (empty_env_is_stripped_new); an addition that fails to compile and "
            "a lookup that fails leave the store identical; re-adding a template — also with identical source, through either "
            "insert_cow arm (the borrowed arm needs BOTH parts borrowed: insert_arm_selection, any_arm_replaces_both_tiers) — "
            "is a load under the current configuration (readd_is_a_load); a template once found keeps source and compilation "
            "until removed, re-added or cleared (also across set_loader and configuration changes); templates() lists (n, t) "
            "exactly when a lookup of n is answered with t from the store itself, every name once (templates_lists_contents); "
            "operations on one environment leave its clones/original unchanged. HIDDEN STATE: every static, thread_local!, "
            "OnceLock, Cell/RefCell/Mutex/atomic field, memo map, pool and Arc::make_mut registry of minijinja/src (tests, "
            "vendored self_cell and verif_hooks aside) is enumerated from the source on every run and must equal the "
            "classified list of the model (all_hidden_state_classified: 36 rows in 11 classes; a OnceLock filled at a second "
            "site counts as new). Per class: a once-cell read any number of times returns its single initialiser's value "
            "(once_cache_is_content_determined; a shared cell would not: shared_once_cell_depends_on_history); a pool whose "
            "take or recycle clears hands out only empty buffers whatever holders pushed and however they went away, "
            "unwinding included (pool_buffer_is_cleared, source_pools_safe; with neither clear it leaks: "
            "pool_without_clears_leaks); the value-handle registry with its single-slot fast path is a map, so entries leaked "
            "by a foreign serializer or an unwound conversion are never returned (leaked_handles_never_returned, "
            "source_handle_registry_as_modelled; taking the single slot without comparing its handle is equivalent for "
            "present handles: lifo_remove_agrees_when_present); a Value::from(Serde(x)) conversion left by a caught panic "
            "restores the thread's serialisation flag whatever happened inside (caught_panic_restores_thread_state; the "
            "seeded '!panicking()' guard is refuted by seeded_guard_leaves_thread_marked); a panicking loader leaves the "
            "store identical; state ids come from one process-wide counter, so a macro stamped by one render is refused by "
            "every other render whatever thread it runs on (foreign_macro_rejected). source_tables_match_model re-checks "
            "against the current source: the load-time/run-time classification of every Environment::set_*, the "
            "TemplateConfig fields, the event order of both insert_cow arms, the lookup order of get, the tiers of "
            "remove/clear, the static atomic STATE_ID, the derived Clones, every thread_local! and every Drop guard that "
            "restores one (condition = the guard's own flag only). The model is tied to /repo by random histories (length <= "
            "30, up to three live environments, starting from Environment::new() or Environment::empty()) over the operation "
            "alphabet of the quantifier plus every configuration setter, add_template_owned with borrowed name and/or "
            "source, re-adds of identical sources, render_named_str / template_from_named_str of stored, loader-known and "
            "other sources, an impure loader, a panicking loader, un-normalised names, template handles held across "
            "modifications of a clone, conversions that leak value handles into the thread, and 14 kinds of operations that "
            "UNWIND and are caught on the same thread, after which the reference environment lives on a fresh thread: after "
            "every step the get_template result (source + fingerprint of the real compilation: every instruction with "
            "operands, line and span), templates() (twice: same order; every listed template is pointer-identical to what "
            "get_template returns; no loader consulted), registries and both configurations of every live environment are "
            "compared with the Lean model, and get_template(n).render(ctx) (through render / render_captured / "
            "render_captured_to; 5 contexts incl. a failing Serialize, a serde context with embedded engine values and the "
            "255/256 boundary of the small-integer cache; errors with line and byte range) for every name with a freshly "
            "built environment of the same value (templates placed in random tiers, Cow combinations and order, each loaded "
            "under the configuration of its last load; an environment that started empty is rebuilt from empty() or from a "
            "stripped new()). A history that unwinds out of an unguarded engine call is itself a failing input. Foreign-value "
            "stream: a render-bound value exported from a finished render must be REFUSED by every other render (oracle) and "
            "all 14 thread/history variants must agree. PARTIAL: interleavings of threads beyond the total order of STATE_ID "
            "are not modelled; they are validated by the foreign-value stream and by 8 threads rendering concurrently from "
            "the shared environment. SESSION 4: C15_full (takeClears, recycleClears) is the property at full strength over an "
            "abstract renderer R (a render = an adaptive program of template lookups determined by name, context, run-time "
            "configuration, registries and the hidden view of its thread) and compile predicate c: (1) any two histories from a "
            "new environment, any two live environments with the same value, any two threads with arbitrary pasts render every "
            "template with every context alike (render_history_independent + hidden_view_is_clean), (2) failed add is a no-op, "
            "(3) after any other renders/lookups every template renders as before (renders_do_not_influence_each_other), (4) "
            "under EVERY interleaving of any number of threads every answer equals a single lookup before the phase "
            "(concurrent_same_answer), (5) stickiness sequentially and under every schedule incl. changes of what the loader "
            "answers (cached_source_sticky, concurrent_entries_never_replaced). C15_main proves it from the one source "
            "hypothesis pools_clear, which C15_main_source discharges from the regenerated pool table. The concurrent model "
            "(MJ/Model/MemoConc.lean) has acquire / look / create+insert / release as separate steps, an explicit mutex and an "
            "outside world that may change the loader's answers at any point; concurrent_lookups_linearizable: every schedule "
            "is equivalent to the sequential history of its linearisation points (store = Store.run of it, every thread's "
            "answers = the sequential answers, program order kept); concurrent_mutual_exclusion is derived; concurrent_progress: "
            "while any thread has a lookup left some thread can move (the mutex is always held by a thread inside its critical "
            "section: no deadlock at this granularity); "
            "without_mutex_answers_diverge shows what the lock is for; memo_map_source_as_modelled ties the model to the "
            "source of memo-map (version of Cargo.lock, read from the cargo registry: get_or_try_insert locks first and "
            "keeps the lock over look-up, creator and insert; whatever replaces or removes needs &mut self). "
            "compile_depends_only_on: CompiledTemplate::new takes (name, source, &TemplateConfig), every call site hands it "
            "the store's current template_config, _new_impl reads exactly the TemplateConfig fields, the compiler modules "
            "import nothing through which environment/VM/loader/registries are reachable, and the hidden state inside them is "
            "of carry-nothing classes. all_hidden_state_classified_ext: the same enumeration of statics / thread-locals / "
            "interior-mutable fields over minijinja-contrib (cycler/joiner objects: value state) and minijinja-autoreload "
            "(reloader mutexes: C20's layer). Oracle added: every history shard compiles its fingerprint table in another "
            "permutation of the 96 configurations; the tables of all processes must be identical (compile-order). Correspondence "
            "stream added for the concurrent model (gated loader): the first thread is held inside the loader — inside the "
            "MemoMap's critical section — while 1..3 others look up the same name (must get the first thread's template), "
            "another loader-backed name, or a borrowed-tier name (answered without the mutex, while the first is still held), "
            "with or without a change of the loader's answers; all 78 schedules of that box run against the real MemoMap and "
            "against Sys.run of the model (answers, who finished early, loader calls per name); the loader answers a second "
            "request for a name differently, so a lookup that loads outside the lock and hands out its own compilation gives "
            "two templates for one name (oracle), one that keeps the stored one only differs in the number of loader calls "
            "(correspondence, not a failing input).",
    "design_ref": "DESIGN.md §3 C15",
    "level_note": "Proved (kernel): sequential store/configuration/registry/clone behaviour of the model for all histories; state ids "
                  "for all interleavings given one totally ordered counter; the discipline of each class of hidden state in its "
                  "small model (once-cell, pool, handle registry, flag guard incl. unwinding, id counters). Regenerated every run "
                  "and compared by decide: the complete list of hidden state and the structural facts the models transcribe "
                  "(which clears the pools have, that remove compares the single slot's handle, the insert_cow arm patterns, …). "
                  "Trusted: hand transcription of loader.rs LoaderStore::{insert_cow,remove,clear,get,set_loader,iter}, of the "
                  "Environment setters, of ValueHandleRegistry::{insert,remove}, of the pool functions and of the "
                  "Arc<BTreeMap>+make_mut registries into MJ/Model/{Store,Hidden}.lean — behaviour checked by the differential "
                  "histories (Arc strong count = number of handles, OnceLock/MemoMap/Mutex semantics and the total order of "
                  "fetch_add are assumptions about std and memo-map). Validated, NOT proved: rendering itself (the VM) being a "
                  "function of the looked-up compiled templates, run-time configuration, registries and context — observed as "
                  "equality with a fresh environment, across entry points and on repetition; that a compiled template is a "
                  "function of (name, source, load-time configuration) and of nothing a code generator left in its pools — "
                  "observed through fingerprints (instructions, operands, lines, spans) of the real compiler's output for all 96 "
                  "configurations x 18 sources x 5 names at process start vs. after every history step; concurrency (8 threads, "
                  "shared environment, MemoMap under its mutex) — sampled schedules only, no claim for all interleavings. "
                  "Classes `renderLocal` (Loop, Kwargs.used, the WriteWrapper of render_captured_to) and `valueState` (Namespace, "
                  "one-shot and reversed iterators) are classified, not modelled: the former are created by one render/call and "
                  "reachable only through its values; the latter are values whose state is part of the context the caller "
                  "passes (a context holding a consumed one-shot iterator is not 'the same context'). Template handles cannot "
                  "outlive a modification of their own environment (borrow checker); handles held across modifications of a "
                  "clone are validated. The order of templates() within the memo tier is HashMap order (unspecified): the "
                  "multiset and the repeatability of the order are compared, not the order itself. "
                  "MOVED FROM VALIDATED TO PROVED in session 3/4 (session 3's work was lost; redone in session 4): (a) concurrency "
                  "of the MemoMap tier: was 'sampled schedules only' — now concurrent_lookups_linearizable / "
                  "concurrent_mutual_exclusion / concurrent_entries_never_replaced / concurrent_same_answer hold for ALL "
                  "interleavings at lock granularity in the model with an explicit mutex (assumption left: std's Mutex excludes, "
                  "memo-map does what its regenerated facts say; &mut methods cannot run concurrently: borrow checker); (b) "
                  "'rendering is a function of looked-up templates, run-time configuration, registries, context': the "
                  "COMPOSITION is now proved (C15_main: whatever a renderer of that type does, histories, threads' pasts and "
                  "other renders cannot influence it; the hidden view is provably the clean one); what stays validated is that "
                  "the real VM IS such a renderer (render_reads_only — its evidence: the regenerated complete list of hidden "
                  "state with a proved discipline per class + the differential histories) ; (c) 'a compiled template is a "
                  "function of (name, source, load-time configuration)': the read set of the compile path is now a regenerated "
                  "table with theorem compile_depends_only_on (signature, call sites, fields read, imports, hidden state in the "
                  "compiler modules); what stays validated is determinism of the compiler's algorithm itself on those inputs — "
                  "observed by fingerprints across processes compiling in different orders; (d) hidden state of "
                  "minijinja-contrib and minijinja-autoreload enumerated and classified. STILL NOT PROVED: the VM/compiler as "
                  "algorithms (C03/C14 model parts of them), std/memo-map/aho-corasick internals, schedules below lock "
                  "granularity (data races are excluded by Rust's type system, not by this model).",
}

SHARD_HISTORIES = 375
QUICK_SHARDS = 16          # 6 000 histories
THOROUGH_SHARDS = 214      # 80 250 histories
WORKERS = min(16, os.cpu_count() or 4)

FAIL_RE = re.compile(r"FAIL([a-z-]+)\{([^}]*)\}")


def first_failure(oracle_steps):
    for i, s in enumerate(oracle_steps):
        if s != "=":
            m = FAIL_RE.findall(s)
            # the most specific predicate first
            order = {"thread-state": 0, "failed-insert": 1, "isolation": 2, "handle": 3, "sticky": 4, "listing": 5, "repeat": 6, "threads": 7, "fresh": 8}
            m.sort(key=lambda x: order.get(x[0], 9))
            return i, (m[0] if m else ("unparsed", s))
    return None


def shrink(r, exe, toks, site):
    """greedy one-op-at-a-time removal while the same predicate still fails"""
    def fails(ts):
        rc, out, err = r.harness(exe, ["one", " ".join(ts), "--once"])
        body = [l for l in out.splitlines() if not l.startswith("#")]
        if rc != 0 or not body:
            return None
        f = body[0].split("\t")
        ff = first_failure(f[2].split(" / "))
        if ff and ff[1][0] == site:
            return f[0].split(" ")[: ff[0] + 1]
        return None
    cur = toks
    changed = True
    rounds = 0
    while changed and rounds < 4:
        changed = False
        rounds += 1
        i = 0
        while i < len(cur) and len(cur) > 1:
            cand = cur[:i] + cur[i + 1:]
            got = fails(cand)
            if got is not None:
                cur = got
                changed = True
            else:
                i += 1
    return cur


def strip_logs(tok):
    f = tok.split(":")
    return ":".join(f[:4]) if f[0] == "r" else (":".join(f[:3]) if f[0] == "hd" else (":".join(f[:5]) if f[0] == "ns" else tok))


TBL = {}
REF_TBL = {}
REF_ORDER = [None]


def read_headers(r, lines, order=None):
    """`#tbl name source ltcfg H` (fingerprints of the real compiler's output) and `#cmp` lines.
    With `r`: the table of this process becomes the one the model's answers are translated with, and it
    is compared with the table of the first process seen (which compiled the configurations in another
    order): a compiled template is a function of (name, source, load-time configuration) and of nothing
    the process compiled before."""
    cmp_lines, cases = [], []
    tbl = {}
    for l in lines:
        if l.startswith("#tbl "):
            _, n, k, cfg, h = l.split(" ")
            tbl[(n, k, cfg)] = h
        elif l.startswith("#cmp-inconsistent") and r is not None:
            r.broken.append("compile success of a source depends on more than the syntax: " + l)
        elif l.startswith("#strip-fallbacks ") and r is not None:
            # the stripped-`new()` reference could not be built (Debug output no longer lists the
            # builtin names): the reference fell back to `empty()`, coverage note only
            r.extra["stripped_new_fallbacks"] = r.extra.get("stripped_new_fallbacks", 0) + int(l.split(" ")[1])
        elif l.startswith("#cmp "):
            cmp_lines.append(l)
        elif l.startswith("#"):
            pass
        else:
            cases.append(l)
    if r is not None and tbl:
        TBL.clear()
        TBL.update(tbl)
        if not REF_TBL:
            REF_TBL.update(tbl)
            REF_ORDER[0] = order
        else:
            r.extra["compile_tables_compared"] = r.extra.get("compile_tables_compared", 0) + 1
            r.hist["compile_table_order"]["canonical" if not order else "permuted"] += 1
            bad = [k for k in sorted(set(tbl) | set(REF_TBL)) if tbl.get(k) != REF_TBL.get(k)]
            r.count(("compile-order", order), bool(order), n=len(tbl))
            for (n, k, cfg) in bad[:40]:
                r.oracle_failure(f"cmp:{n}:{k}:{cfg}:{order or 0}",
                                 f"the compilation of source {k} under name {n} and load-time configuration {cfg} differs between two "
                                 f"processes that compiled the configurations in different orders (order {REF_ORDER[0] or 0}: "
                                 f"{str(REF_TBL.get((n, k, cfg)))[:16]}, order {order or 0}: {str(tbl.get((n, k, cfg)))[:16]}; "
                                 f"{len(bad)} of {len(tbl)} entries differ)", "compile-order")
    return cmp_lines, cases


GET_RE = re.compile(r"(\d)=s(\d+)@(\d{5})")
LIST_RE = re.compile(r"(\d):(\d+)@(\d{5})")


def fp(n, k, cfg):
    return TBL.get((n, k, cfg), "uncompilable")


def translate_step(step, tok):
    """model step -> the engine's notation: (source, load-time cfg) becomes the fingerprint of the real
    compilation of that source under that configuration and name"""
    parts = step.split("|")
    f = tok.split(":")
    if f[0] in ("r", "hd") and len(f) > 2:
        parts[0] = re.sub(r"s(\d+)@(\d{5})", lambda m: f"s{m[1]}#{fp(f[2], m[1], m[2])}", parts[0])
    for i in range(1, len(parts)):
        p = GET_RE.sub(lambda m: f"{m[1]}=s{m[2]}#{fp(m[1], m[2], m[3])}", parts[i])
        parts[i] = LIST_RE.sub(lambda m: f"{m[1]}:{m[2]}#{fp(m[1], m[2], m[3])}", p)
    return "|".join(parts)


def run_driver(text):
    """the (already built) Lean driver on input text, callable from worker threads"""
    try:
        p = subprocess.run([os.path.join(LEAN, ".lake", "build", "bin", "drive_c15")], input=text, capture_output=True, text=True, timeout=3000)
    except Exception:
        return None
    return p.stdout.splitlines() if p.returncode == 0 else None


def process(r, exe, out, shrunk_sites, model="run", order=None):
    cmp_lines, lines = read_headers(r, out.splitlines(), order)
    if model == "run":
        model = r.driver("drive_c15", "\n".join(cmp_lines + lines) + "\n")
    if model is None or len(model) != len(lines):
        r.broken.append("model driver output does not line up with the harness histories")
        model = None
    for li, line in enumerate(lines):
        f = line.split("\t")
        if len(f) != 4:
            r.broken.append("malformed harness line: " + line[:200])
            continue
        case, impl, orc, notes = f
        toks = case.split(" ")
        if impl == "harness-panic":
            r.count(case, True, n=len(toks))
            m = FAIL_RE.search(orc)
            r.oracle_failure(" ".join(strip_logs(t) for t in toks), "the history unwound out of the engine: " + (m.group(2) if m else orc), "unwound")
            continue
        isteps = impl.split(" / ")
        osteps = orc.split(" / ")
        kinds = [t.split(":")[0] for t in toks]
        nontrivial = any(k in ("ab", "ao", "ax", "sl") for k in kinds) and any(k in ("r", "th", "hd", "ns") for k in kinds)
        r.count(case, nontrivial, n=len(toks))
        r.extra["histories"] = r.extra.get("histories", 0) + 1
        for k in kinds:
            r.hist["op"][k] += 1
        r.hist["history_length"][str(len(toks) // 5 * 5) + "+"] += 1
        r.hist["starts_from"]["Environment::empty()" if kinds and kinds[0] == "em" else "Environment::new()"] += 1
        last = {}
        cfg_changed = {}
        for t, st, note in zip(toks, isteps, notes.split(" ")):
            tf = t.split(":")
            k = tf[0]
            res = st.split("|")[0].split("~")[0]
            if k == "pn":
                r.hist["unwinding_op"][["ctx Serialize panics", "ctx Serialize panics (via render)", "nested conversion panics",
                                        "function (top level)", "function (macro+capture)", "function (include in loop)",
                                        "filter mid-output", "test in loop", "object method", "formatter",
                                        "auto-escape callback (compile)", "path-join callback", "loader",
                                        "conversion inside a filter"][int(tf[2])] + (" -> caught" if res == "panic" else " -> " + res)] += 1
            if k == "ax":
                r.hist["add_template_owned_cow"][["", "name borrowed", "source borrowed", "both borrowed (borrowed arm)"][int(tf[4])]] += 1
            if k == "ns":
                r.hist["named_str_entry_point"][["render_named_str", "template_from_named_str+render", "template_from_named_str+render_captured"][int(tf[4])]] += 1
            if k == "jk":
                r.hist["junk_op"][tf[2]] += 1
            if k in ("ab", "ao", "ax"):
                r.hist["add_result"]["ok" if res == "ok" else "compile-error"] += 1
                key = (tf[1], tf[2])
                if res == "ok" and last.get(key) == tf[3]:
                    r.hist["readd_identical_source"]["after config change" if cfg_changed.get(key) else "same config"] += 1
                if res == "ok":
                    last[key] = tf[3]
                    cfg_changed[key] = False
            elif k == "rm":
                last.pop((tf[1], tf[2]), None)
            elif k == "cl":
                for key in [x for x in last if x[0] == tf[1]]:
                    last.pop(key)
            elif k == "cn" and res == "ok":
                new = str(st.count("|") - 1)
                for key in [x for x in last if x[0] == tf[1]]:
                    last[(new, key[1])] = last[key]
                    cfg_changed[(new, key[1])] = cfg_changed.get(key, False)
            elif k == "lt":
                r.hist["load_time_setting"][["trim_blocks", "lstrip_blocks", "keep_trailing_newline", "syntax", "auto_escape_callback"][int(tf[2])]] += 1
                for key in last:
                    if key[0] == tf[1]:
                        cfg_changed[key] = True
            elif k == "ru":
                r.hist["run_time_setting"][["undefined_behavior", "formatter", "debug", "recursion_limit", "fuel", "path_join_callback", "unknown_method_callback"][int(tf[2])]] += 1
            if k in ("r", "hd"):
                cat = ("get:" + ("found" if res.startswith("s") else res))
                r.hist["render_lookup"][cat] += 1
                if k == "r":
                    r.hist["render_outcome"][note] += 1
                    r.hist["render_context"][["plain", "failing Serialize", "list", "256/255", "serde with embedded values"][min(int(tf[3]), 4)]] += 1
            r.hist["live_envs"][str(st.count("|"))] += 1
        if model is not None:
            msteps = [translate_step(m, t) for m, t in zip(model[li].split("\t")[1].split(" / "), toks)]
            if msteps != isteps:
                for i, (a, b) in enumerate(zip(isteps, msteps)):
                    if a != b:
                        r.model_disagreement(" ".join(toks[: i + 1]), a, b)
                        break
                else:
                    r.model_disagreement(case, f"{len(isteps)} steps", f"{len(msteps)} steps")
        ff = first_failure(osteps)
        if ff is not None:
            i, (site, detail) = ff
            opk = kinds[i] if i < len(kinds) else "?"
            full_site = f"{site}:{opk}"
            witness = [strip_logs(t) for t in toks[: i + 1]]
            if full_site not in shrunk_sites and len(shrunk_sites) < 4:
                shrunk_sites.add(full_site)
                witness = [strip_logs(t) for t in shrink(r, exe, witness, site)]
            r.oracle_failure(" ".join(witness), f"step {i} ({toks[i]}): {site}: {detail}", full_site)
        if li % 2500 == 0:
            r.sample({"history": case, "last_step_engine": isteps[-1], "oracle": "holds" if ff is None else osteps[ff[0]]})


FX_LABELS = ["main", "new+0", "new+1", "new+2", "new+3", "exporter+1"] + [f"conc0.{i}" for i in range(4)] + [f"concK.{i}" for i in range(4)]
WENT_AWAY = "err:InvalidOperation:cannot call this macro. template state went away."
MODEL_TO_IMPL = {"free": "ok", "accepted": "ok", "rejected": "rejected", "-": "-"}


def impl_class(v):
    if v == "-":
        return "-"
    if v == WENT_AWAY or v.startswith("err:"):
        # refused — with the engine's message, or (should its wording change) with any error: what
        # matters is that the foreign value did not run
        return "rejected"
    if v.startswith("ok:"):
        return "ok"
    return v


def process_foreign(r, exe, out):
    """foreign-value stream: render-bound values exported from one render and used by other renders on
    the main thread, new threads (after 0..3 other renders) and concurrently"""
    lines = out.splitlines()
    model = r.driver("drive_c15", "".join(l.split("\t")[0] + "\n" for l in lines))
    if model is None or len(model) != len(lines):
        r.broken.append("model driver output does not line up with the foreign-value cases")
        model = None
    for li, line in enumerate(lines):
        f = line.split("\t")
        if len(f) != 3:
            r.broken.append("malformed foreign-value line: " + line[:200])
            continue
        case, variants, verdict = f
        _, x, site, consumer, via = case.split(":")
        vs = variants.split(" / ")
        r.count(case, consumer != "info" and x != "6", n=len(vs))
        r.extra["foreign_value_cases"] = r.extra.get("foreign_value_cases", 0) + 1
        r.hist["foreign_consumer"][consumer + "/" + via] += 1
        r.hist["foreign_export_site"][site] += 1
        classes = [impl_class(v) for v in vs]
        for c in classes:
            r.hist["foreign_result"][c if c in ("ok", "rejected", "-") else c[:40]] += 1
        if model is not None:
            want = [MODEL_TO_IMPL.get(m, m) for m in model[li].split("\t")[1].split(" / ")]
            if want != classes:
                r.model_disagreement(case, " / ".join(classes), " / ".join(want))
        # a value bound to the render that made it (a macro, a namespace/module holding one, `caller`) is
        # refused by EVERY other render: accepting it would run that render with closures and
        # instruction streams of a state that is not its own
        if consumer != "info" and x != "6":
            bad = [(lab, v) for lab, v, c in zip(FX_LABELS, vs, classes) if c not in ("rejected", "-")]
            if bad:
                r.oracle_failure(case, f"a render-bound value exported from one render was accepted by another render "
                                       f"(variant {bad[0][0]}: {bad[0][1][:120]})", f"foreign-accepted:{consumer}")
        if verdict != "=":
            m = FAIL_RE.search(verdict)
            r.oracle_failure(case, "render-bound value exported from one render, used in another: " +
                             (m.group(2) if m else verdict), f"foreign:{consumer}")
        if li % 97 == 0:
            r.sample({"foreign_case": case, "main_thread": vs[0], "all_variants_equal": verdict == "="})


def process_cc(r, exe, out):
    """gated-loader stream: deterministic schedules of the memoising tier at lock granularity, real MemoMap
    vs. MJ/Model/MemoConc.lean"""
    lines = [l for l in out.splitlines() if l.startswith("cc:")]
    model = r.driver("drive_c15", "".join(l.split("\t")[0] + "\n" for l in lines))
    if model is None or len(model) != len(lines):
        r.broken.append("model driver output does not line up with the gated-loader cases")
        model = None
    for li, line in enumerate(lines):
        f = line.split("\t")
        if len(f) != 5:
            r.broken.append("malformed gated-loader line: " + line[:200])
            continue
        case, answers, early, loads, notes = f
        _, others, world = case.split(":")
        r.count(case, True, n=1 + len(others))
        r.extra["gated_loader_cases"] = r.extra.get("gated_loader_cases", 0) + 1
        r.hist["gated_loader_threads"][str(1 + len(others))] += 1
        for ch in others:
            r.hist["gated_loader_other_thread"][{"s": "same name (blocks, gets the first thread's template)",
                                                 "d": "other loader-backed name (blocks, loads its own)",
                                                 "b": "borrowed-tier name (no mutex: answered at once)"}[ch]] += 1
        if model is not None:
            # which lookups finish while the first thread is inside the loader and how often the loader is
            # asked are facts of the MODEL (lock held over the creator; the borrowed tier needs no lock): a
            # difference there is a correspondence failure, not a violation of the property
            m = model[li].split("\t")
            if m[1:] != [answers, early, loads]:
                r.model_disagreement(case, " ".join([answers, early, loads]), " ".join(m[1:]))
        vs = answers.split(" / ")
        # the property: one name gives one template from any number of threads at once
        same = [vs[0]] + [v for v, ch in zip(vs[1:], others) if ch == "s"]
        others_d = [v for v, ch in zip(vs[1:], others) if ch == "d"]
        if len(set(same)) != 1 or len(set(others_d)) > 1:
            r.oracle_failure(case, f"threads looking up one name at once got different templates: {answers}", "concurrent-lookup:differs")
        elif any(v == "panic" or v.startswith("err:") for v in vs):
            r.oracle_failure(case, f"a lookup that a single thread performs successfully failed under concurrency: {answers}", "concurrent-lookup:failed")
        elif "first-thread-never-reached-the-loader" in notes:
            r.broken.append("gated-loader stream: the first thread never reached the loader in " + case)
        if li % 29 == 0:
            r.sample({"gated_loader_case": case, "threads_rendered": answers, "finished_while_first_thread_inside_loader": early, "loader_calls": loads})


def run(r):
    r.rule = ("random histories (length 1..30, up to 3 live environments created by clone; one in seven starts from "
              "Environment::empty(), the others from Environment::new()) over {add_template, add_template_owned with owned / "
              "borrowed name and source in all four combinations (incl. re-adds of the identical source and of what the loader "
              "delivers), remove_template (also of un-normalised spellings), clear_templates, set_loader (6 tables, one impure: "
              "answers change with an outside phase; one panics), set_trim_blocks/lstrip_blocks/keep_trailing_newline/syntax(3)/"
              "auto_escape_callback(4), set_undefined_behavior(4)/formatter/debug/recursion_limit/fuel/path_join_callback/"
              "unknown_method_callback, add/remove filter/test/global (custom, builtin function), clone, render (5 contexts: plain, "
              "failing Serialize, list, 256/255, serde with embedded engine values; through render/render_captured/"
              "render_captured_to), render_named_str/template_from_named_str (+render, +render_captured) of stored, loader-known "
              "and other sources, template handle held across modifications of a clone, 10 failing compiles/renders/"
              "serialisations incl. conversions that leak 1-2 value handles into the thread, 14 operations that unwind and are "
              "caught, 8-thread phase}; 5 names (one is './a') x 18 sources (every one sensitive to each load-time setting; 2 "
              "broken, several failing at run time, includes/extends/imports between the names, one using namespace/loop.cycle/"
              "loop.changed/reverse/kwargs). In every other history (and after the first caught panic in all) the reference "
              "environments are built and observed on brand-new threads. evaluations = history steps (each step compares every "
              "name of every live environment); a history is non-trivial when it is distinct, changes the store or loader and "
              "performs a lookup. Histories run in shards of 375 (16 quick / 214 thorough, one process each, 16 at a time; the foreign-value stream runs beside them). Plus the "
              "foreign-value stream: 9 exporters (macro, closure macro, namespace, set-export, module, caller, loop, from-import, "
              "nested macro) x 5 export sites x 4 consumers x {context, global}, each used on the main thread, on new threads "
              "after 0..3 other renders, on the exporting thread and on 2x4 concurrent threads (all 14 results must be "
              "identical, and a render-bound value must be refused by every other render). Plus compile-order: the fingerprint table (96 "
              "load-time configurations x 18 sources x 5 names) of every shard process is compiled in another permutation of the "
              "configurations and compared entry by entry with the first one. Plus the gated-loader stream: the first thread is held "
              "inside the loader (= inside the MemoMap's critical section) while 1..3 other threads look up the same name / another "
              "loader-backed name / a borrowed-tier name and the loader's answers change or not (78 schedules, exhaustive over that "
              "box), compared with the run of MJ/Model/MemoConc.lean under the same schedule")
    r.assumptions = ["Arc's strong count equals the number of live handles (std)",
                     "fetch_add on the process-wide STATE_ID is totally ordered (std atomics); no wrap-around within 2^64 states",
                     "a loader closure answers as a function of the name and of the modelled outside phase (no hidden state of its own)",
                     "rendering is a function of the compiled templates looked up, run-time configuration, registries and context (validated against a fresh environment, not proved)",
                     "guards are dropped innermost first when a panic unwinds (Rust semantics); VALUE_HANDLES entries leaked by an unwound conversion are never read (handles are fresh; u32 wrap-around not modelled)",
                     "OnceLock::get_or_init runs one initialiser and every reader sees its value; MemoMap is a map under a mutex (std / memo-map)",
                     "a context or global that holds a value with state of its own (namespace, one-shot iterator) is 'the same context' only in the same state",
                     "REAL thread schedules are sampled (8 threads x 12 renders per phase; 14 variants per foreign-value case); the MODEL of the memoising tier is proved for all schedules at lock granularity",
                     "render_reads_only: the real VM is a function of (name, context, run-time configuration, registries, answers to its template lookups, hidden view) — typed parameter of C15_main, validated differentially",
                     "compile_depends_only_on (algorithmic part): the compiler is deterministic in (name, source, load-time configuration) — typed parameter, validated by fingerprints across processes and compile orders; its read set is proved from the regenerated table"]
    timing = r.extra.setdefault("own_step_seconds", {})
    t_mark = [time.time()]

    def lap(key):
        now = time.time()
        timing[key] = round(timing.get(key, 0) + now - t_mark[0], 1)
        t_mark[0] = now
    r.regen_tables(["C15_SETTERS", "C15_TEMPLATE_CONFIG", "C15_INSERT_ARMS", "C15_GET_ORDER", "C15_REMOVE_CLEAR", "C15_STATE_ID", "C15_CLONE_DERIVES",
                    "C15_THREAD_LOCALS", "C15_DROP_GUARDS", "C15_POOLS", "C15_HANDLE_REGISTRY", "C15_INSERT_ARM_PATTERNS",
                    "C15_HIDDEN_STATE", "C15_MEMO_MAP", "C15_HIDDEN_STATE_EXT", "C15_COMPILE_READS"])
    lap("regen_tables")
    r.lean_prove("MJ.Props.C15", "MJ/Audit/C15.lean", extra_targets=["drive_c15"])
    lap("lean_build_and_audit")
    exe = r.cargo_build("c15")
    lap("cargo_build")
    if exe is None:
        return
    shrunk = set()
    # corpus first: minimised past failures (the fixed defect, witnesses of hand mutations)
    for path in sorted(glob.glob(os.path.join(VERIF, "corpus", "C15", "*.case"))):
        rc, out, err = r.harness(exe, ["file", path])
        if rc != 0:
            r.broken.append(f"harness c15 exited {rc} on corpus {path}: {err[-300:]}")
            continue
        r.extra["corpus_histories"] = r.extra.get("corpus_histories", 0) + sum(1 for l in out.splitlines() if not l.startswith("#"))
        process(r, exe, out, shrunk)
    lap("corpus")
    rc, out, err = r.harness(exe, ["conc", "1" if r.tier == "quick" else "6"])
    if rc != 0:
        r.broken.append(f"harness c15 conc exited {rc}: {err[-300:]}")
    else:
        process_cc(r, exe, out)
    lap("gated_loader_stream")
    # the foreign-value stream is bound by thread start-up latency, not by CPU: it runs beside the
    # history shards and is evaluated after them (fixed order of evaluation = deterministic report)
    foreign_pool = concurrent.futures.ThreadPoolExecutor(max_workers=1)
    foreign_job = foreign_pool.submit(r.harness, exe, ["foreign", "3" if r.tier == "quick" else "20"])

    def finish_foreign():
        rc, out, err = foreign_job.result()
        foreign_pool.shutdown()
        lap("foreign_stream_wait")
        if rc != 0:
            r.broken.append(f"harness c15 foreign exited {rc}: {err[-300:]}")
        else:
            process_foreign(r, exe, out)
        lap("foreign_stream_evaluation")
    # mjh::Rng streams of neighbouring seeds overlap (same sequence shifted by one draw), so the
    # harness seeds are spread by a hash of (VERIF_SEED, chunk)
    def spread(i):
        return int.from_bytes(hashlib.blake2b(f"C15:{r.seed}:{i}".encode(), digest_size=8).digest(), "big")
    # the histories are generated and run in shards (one harness process each, `WORKERS` at a time);
    # the results are processed in shard order, so the run is deterministic in VERIF_SEED
    n_chunks = QUICK_SHARDS if r.tier == "quick" else THOROUGH_SHARDS
    # shard i compiles its table of fingerprints in the i-th permutation of the configurations (0 = canonical)
    chunks = [(spread(i), SHARD_HISTORIES, i) for i in range(n_chunks)]

    def shard(ch):
        seed, count, order = ch
        rc, out, err = r.harness(exe, ["gen", r.tier, str(count)], env={"VERIF_SEED": str(seed), "C15_TABLE_ORDER": str(order)})
        model = None
        if rc == 0:
            cmp_lines, lines = read_headers(None, out.splitlines())
            model = run_driver("\n".join(cmp_lines + [l.split("\t")[0] for l in lines]) + "\n")
        return rc, out, err, model

    with concurrent.futures.ThreadPoolExecutor(max_workers=WORKERS) as ex:
        # in waves, so that a thorough run never holds more than two waves of traces in memory
        for w in range(0, len(chunks), 2 * WORKERS):
            wave = chunks[w:w + 2 * WORKERS]
            results = list(ex.map(shard, wave))
            lap("history_shards_run")
            for (seed, count, order), (rc, out, err, model) in zip(wave, results):
                if rc != 0:
                    r.broken.append(f"harness c15 exited {rc}: {err[-300:]}")
                    finish_foreign()
                    return
                got = sum(1 for l in out.splitlines() if not l.startswith("#"))
                if got != count:
                    r.broken.append(f"harness c15 produced {got} histories instead of {count}")
                process(r, exe, out, shrunk, model, order)
            del results
            lap("history_shards_evaluation")
    finish_foreign()


def replay(r, path):
    d = json.load(open(path))
    exe = r.cargo_build("c15")
    cases = [d.get("case")] + d.get("more_cases", [])
    for c in d.get("correspondence_disagreements", []):
        cases.append(c.get("case"))
    for case in cases:
        if not case:
            continue
        if case.startswith("cmp:"):
            _, n, k, cfg, order = case.split(":")
            print(f"compile-order case: source {k} under name {n}, load-time configuration {cfg}")
            rc, out, err = r.harness(exe, ["tblone", n, k, cfg])
            print("   compiled alone in a new process:                  ", out.strip()[:80])
            for o in ("0", order):
                rc, out, err = r.harness(exe, ["gen", "quick", "0"], env={"C15_TABLE_ORDER": o})
                h = [l.split(" ")[4] for l in out.splitlines() if l.startswith(f"#tbl {n} {k} {cfg} ")]
                print(f"   in a process compiling all configurations, order {o:>3}:", (h[0] if h else "uncompilable")[:80])
            continue
        if case.startswith("cc:"):
            rc, out, err = r.harness(exe, ["cone", case])
            model = r.driver("drive_c15", case + "\n")
            f = out.rstrip("\n").split("\t")
            print("gated-loader case:", case, "(first thread held inside the loader; others: s same name, d other loader name, b borrowed tier; w = the loader's answers change meanwhile)")
            print("   engine:", " | ".join(f[1:]))
            print("   model :", " | ".join(model[0].split("\t")[1:]) if model else None)
            continue
        if case.startswith("fx:"):
            rc, out, err = r.harness(exe, ["fone", case])
            model = r.driver("drive_c15", case + "\n")
            f = out.rstrip("\n").split("\t")
            print("foreign-value case:", f[0])
            labels = ["main", "new+0", "new+1", "new+2", "new+3", "exporter+1"] + [f"conc0.{i}" for i in range(4)] + [f"concK.{i}" for i in range(4)]
            ms = model[0].split("\t")[1].split(" / ") if model else [None] * 14
            for lab, v, m in zip(labels, f[1].split(" / "), ms):
                print(f"   {lab:11s} engine: {v}    model: {m}")
            print("   oracle:", f[2])
            continue
        rc, out, err = r.harness(exe, ["one", case, "--once"])
        cmp_lines, body = read_headers(r, out.splitlines())
        model = r.driver("drive_c15", "\n".join(cmp_lines + body) + "\n")
        f = body[0].split("\t")
        toks = f[0].split(" ")
        print("history:", f[0])
        for i, (a, o) in enumerate(zip(f[1].split(" / "), f[2].split(" / "))):
            m = translate_step(model[0].split("\t")[1].split(" / ")[i], toks[i]) if model else None
            print(f" step {i} {toks[i]}")
            print("   engine:", a)
            print("   model :", m)
            print("   oracle:", o)
    return 0
