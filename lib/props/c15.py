"""C15 — an environment's behaviour depends on its contents, not on its history (DESIGN.md §3 C15)."""
import json, re, collections, glob, os, hashlib
from common import VERIF

READY = True

META = {
    "technique": "Lean 4 proof (two-tier template store with load-time configuration refines a plain map + memo cache; "
                 "history independence of the whole environment value, failed insert/lookup are no-ops, re-add is a load, "
                 "stickiness, templates() lists each name once, copy-on-write registries isolate clones, state identity — all by "
                 "induction over arbitrary operation sequences; structural source facts regenerated from /repo) + differential "
                 "random histories: real Environment vs. Lean model vs. freshly built environment in which every template is "
                 "loaded under the load-time configuration of its last load; foreign-value and 8-thread streams for the runtime part",
    "category": "proof",
    "text": "Kernel-checked theorems about the model of LoaderStore (borrowed map + memoising owned map with mutual "
            "eviction, loader, load-time TemplateConfig; compile as a parameter that may depend on the configuration; a stored "
            "template = (source, load-time configuration it was compiled under)), of the run-time settings and of the "
            "Arc::make_mut registries: every operation commutes with the abstraction to (explicit, cached) maps and returns the "
            "specification's answer; an environment's behaviour is a function of its value (run-time configuration, load-time "
            "configuration for future loads, loader, per template (source, load-time configuration at its last load), "
            "registries): any two histories/worlds ending in the same value are indistinguishable by every continuation "
            "(env_history_independent); an addition that fails to compile and a lookup that fails leave the store identical; "
            "re-adding a template — also with identical source — is a load under the current configuration (readd_is_a_load); "
            "a template once found keeps source and compilation until removed, re-added or cleared (also across set_loader and "
            "configuration changes); templates() lists every name once; operations on one environment leave its clones/original "
            "unchanged. Unwinding: a Value::from(Serde(x)) conversion left by a caught panic restores the thread's serialisation "
            "flag whatever happened inside (caught_panic_restores_thread_state; the seeded '!panicking()' guard is refuted by "
            "seeded_guard_leaves_thread_marked); a panicking loader leaves the store identical. State identity: ids come from one process-wide counter, so a macro stamped by one render is refused by "
            "every other render whatever thread it runs on (foreign_macro_rejected). source_tables_match_model re-checks against "
            "the current source: the load-time/run-time classification of every Environment::set_*, the TemplateConfig fields, the "
            "event order of both insert_cow arms, the lookup order of get, the tiers of remove/clear, the static atomic STATE_ID, "
            "the derived Clones, every thread_local! of the crate, every Drop guard that restores one (condition = the guard's own flag "
            "only) and the clearing of pooled codegen buffers. The model is tied to /repo by random histories (length <= 30, up to three live environments) over "
            "the operation alphabet of the quantifier plus every configuration setter, re-adds of identical sources, an impure "
            "loader, a panicking loader, un-normalised names, template handles held across modifications of a clone, and 14 kinds "
            "of operations that UNWIND and are caught on the same thread (context Serialize impl panics outermost/via render/nested/"
            "inside a filter; panicking function, filter, test, object method, formatter, auto-escape callback, path-join callback, "
            "loader at several points of a render) after which the reference environment lives on a fresh thread: after every step the "
            "get_template result (source + fingerprint of the real compilation), templates(), registries and both configurations "
            "of every live environment are compared with the Lean model, and get_template(n).render(ctx) for every name with a "
            "freshly built environment of the same value (templates placed in random tiers and order, each loaded under the "
            "configuration of its last load). PARTIAL: threads and thread-local/global caches (codegen buffer pools, "
            "INTERNAL_SERIALIZATION, VALUE_HANDLES, small-int format cache) and the atomicity of STATE_ID are not modelled; they "
            "are validated by failing compiles/renders/serialisations interleaved in the histories, by the foreign-value stream "
            "(render-bound values exported from finished renders and used by other renders on the main thread, new threads after "
            "0..3 other renders, and concurrently) and by 8 threads rendering concurrently from the shared environment.",
    "design_ref": "DESIGN.md §3 C15",
    "level_note": "Proved (kernel): sequential store/configuration/registry/clone behaviour of the model for all histories; state ids "
                  "for all interleavings given one totally ordered counter. Trusted: hand transcription of loader.rs "
                  "LoaderStore::{insert_cow,remove,clear,get,set_loader,iter}, of the Environment setters and of the "
                  "Arc<BTreeMap>+make_mut registries into MJ/Model/Store.lean — its structural facts are re-extracted from the source "
                  "every run (source_tables_match_model), its behaviour is checked by the differential histories (Arc strong count = "
                  "number of handles and the total order of fetch_add are assumptions about std). Validated, NOT proved: rendering "
                  "itself (the VM) being a function of the looked-up compiled templates, run-time configuration, registries and "
                  "context — observed as equality with a fresh environment and on repetition; that a compiled template is a function "
                  "of (name, source, load-time configuration) — observed through fingerprints of the real compiler's output for all 96 "
                  "configurations x 18 sources x 5 names; concurrency (8 threads, shared environment, MemoMap under its mutex) and "
                  "absence of residue in thread-local pools after failing compiles/renders — sampled schedules only, no claim for all "
                  "interleavings. Template handles cannot outlive a modification of their own environment (borrow checker); handles "
                  "held across modifications of a clone are validated. The order of templates() within the memo tier is HashMap "
                  "order (unspecified): only the multiset is compared.",
}

QUICK_HISTORIES = 5_000
THOROUGH_CHUNKS = 18

FAIL_RE = re.compile(r"FAIL([a-z-]+)\{([^}]*)\}")


def first_failure(oracle_steps):
    for i, s in enumerate(oracle_steps):
        if s != "=":
            m = FAIL_RE.findall(s)
            # the most specific predicate first
            order = {"thread-state": 0, "failed-insert": 1, "isolation": 2, "handle": 3, "sticky": 4, "repeat": 5, "threads": 6, "fresh": 7}
            m.sort(key=lambda x: order.get(x[0], 9))
            return i, (m[0] if m else ("unparsed", s))
    return None


def shrink(r, exe, toks, site):
    """greedy one-op-at-a-time removal while the same predicate still fails"""
    def fails(ts):
        rc, out, err = r.harness(exe, ["one", " ".join(ts), "--once"])
        body = [l for l in out.splitlines() if not l.startswith("#")]
        if rc != 0 or not body:
            return None
        f = body[0].split("\t")
        ff = first_failure(f[2].split(" / "))
        if ff and ff[1][0] == site:
            return f[0].split(" ")[: ff[0] + 1]
        return None
    cur = toks
    changed = True
    rounds = 0
    while changed and rounds < 4:
        changed = False
        rounds += 1
        i = 0
        while i < len(cur) and len(cur) > 1:
            cand = cur[:i] + cur[i + 1:]
            got = fails(cand)
            if got is not None:
                cur = got
                changed = True
            else:
                i += 1
    return cur


def strip_logs(tok):
    f = tok.split(":")
    return ":".join(f[:4]) if f[0] == "r" else (":".join(f[:3]) if f[0] == "hd" else tok)


TBL = {}


def read_headers(r, lines):
    """`#tbl name source ltcfg H` (fingerprints of the real compiler's output) and `#cmp` lines"""
    cmp_lines, cases = [], []
    for l in lines:
        if l.startswith("#tbl "):
            _, n, k, cfg, h = l.split(" ")
            TBL[(n, k, cfg)] = h
        elif l.startswith("#cmp-inconsistent"):
            r.broken.append("compile success of a source depends on more than the syntax: " + l)
        elif l.startswith("#cmp "):
            cmp_lines.append(l)
        elif l.startswith("#"):
            pass
        else:
            cases.append(l)
    return cmp_lines, cases


GET_RE = re.compile(r"(\d)=s(\d+)@(\d{5})")
LIST_RE = re.compile(r"(\d):(\d+)@(\d{5})")


def fp(n, k, cfg):
    return TBL.get((n, k, cfg), "uncompilable")


def translate_step(step, tok):
    """model step -> the engine's notation: (source, load-time cfg) becomes the fingerprint of the real
    compilation of that source under that configuration and name"""
    parts = step.split("|")
    f = tok.split(":")
    if f[0] in ("r", "hd") and len(f) > 2:
        parts[0] = re.sub(r"s(\d+)@(\d{5})", lambda m: f"s{m[1]}#{fp(f[2], m[1], m[2])}", parts[0])
    for i in range(1, len(parts)):
        p = GET_RE.sub(lambda m: f"{m[1]}=s{m[2]}#{fp(m[1], m[2], m[3])}", parts[i])
        parts[i] = LIST_RE.sub(lambda m: f"{m[1]}:{m[2]}#{fp(m[1], m[2], m[3])}", p)
    return "|".join(parts)


def process(r, exe, out, shrunk_sites):
    cmp_lines, lines = read_headers(r, out.splitlines())
    model = r.driver("drive_c15", "\n".join(cmp_lines + lines) + "\n")
    if model is None or len(model) != len(lines):
        r.broken.append("model driver output does not line up with the harness histories")
        model = None
    for li, line in enumerate(lines):
        f = line.split("\t")
        if len(f) != 4:
            r.broken.append("malformed harness line: " + line[:200])
            continue
        case, impl, orc, notes = f
        toks = case.split(" ")
        isteps = impl.split(" / ")
        osteps = orc.split(" / ")
        kinds = [t.split(":")[0] for t in toks]
        nontrivial = any(k in ("ab", "ao", "sl") for k in kinds) and any(k in ("r", "th", "hd") for k in kinds)
        r.count(case, nontrivial, n=len(toks))
        r.extra["histories"] = r.extra.get("histories", 0) + 1
        for k in kinds:
            r.hist["op"][k] += 1
        r.hist["history_length"][str(len(toks) // 5 * 5) + "+"] += 1
        last = {}
        cfg_changed = {}
        for t, st, note in zip(toks, isteps, notes.split(" ")):
            tf = t.split(":")
            k = tf[0]
            res = st.split("|")[0].split("~")[0]
            if k == "pn":
                r.hist["unwinding_op"][["ctx Serialize panics", "ctx Serialize panics (via render)", "nested conversion panics",
                                        "function (top level)", "function (macro+capture)", "function (include in loop)",
                                        "filter mid-output", "test in loop", "object method", "formatter",
                                        "auto-escape callback (compile)", "path-join callback", "loader",
                                        "conversion inside a filter"][int(tf[2])] + (" -> caught" if res == "panic" else " -> " + res)] += 1
            if k in ("ab", "ao"):
                r.hist["add_result"]["ok" if res == "ok" else "compile-error"] += 1
                key = (tf[1], tf[2])
                if res == "ok" and last.get(key) == tf[3]:
                    r.hist["readd_identical_source"]["after config change" if cfg_changed.get(key) else "same config"] += 1
                if res == "ok":
                    last[key] = tf[3]
                    cfg_changed[key] = False
            elif k == "rm":
                last.pop((tf[1], tf[2]), None)
            elif k == "cl":
                for key in [x for x in last if x[0] == tf[1]]:
                    last.pop(key)
            elif k == "cn" and res == "ok":
                new = str(st.count("|") - 1)
                for key in [x for x in last if x[0] == tf[1]]:
                    last[(new, key[1])] = last[key]
                    cfg_changed[(new, key[1])] = cfg_changed.get(key, False)
            elif k == "lt":
                r.hist["load_time_setting"][["trim_blocks", "lstrip_blocks", "keep_trailing_newline", "syntax", "auto_escape_callback"][int(tf[2])]] += 1
                for key in last:
                    if key[0] == tf[1]:
                        cfg_changed[key] = True
            elif k == "ru":
                r.hist["run_time_setting"][["undefined_behavior", "formatter", "debug", "recursion_limit", "fuel", "path_join_callback", "unknown_method_callback"][int(tf[2])]] += 1
            if k in ("r", "hd"):
                cat = ("get:" + ("found" if res.startswith("s") else res))
                r.hist["render_lookup"][cat] += 1
                if k == "r":
                    r.hist["render_outcome"][note] += 1
            r.hist["live_envs"][str(st.count("|"))] += 1
        if model is not None:
            msteps = [translate_step(m, t) for m, t in zip(model[li].split("\t")[1].split(" / "), toks)]
            if msteps != isteps:
                for i, (a, b) in enumerate(zip(isteps, msteps)):
                    if a != b:
                        r.model_disagreement(" ".join(toks[: i + 1]), a, b)
                        break
                else:
                    r.model_disagreement(case, f"{len(isteps)} steps", f"{len(msteps)} steps")
        ff = first_failure(osteps)
        if ff is not None:
            i, (site, detail) = ff
            opk = kinds[i] if i < len(kinds) else "?"
            full_site = f"{site}:{opk}"
            witness = [strip_logs(t) for t in toks[: i + 1]]
            if full_site not in shrunk_sites and len(shrunk_sites) < 4:
                shrunk_sites.add(full_site)
                witness = [strip_logs(t) for t in shrink(r, exe, witness, site)]
            r.oracle_failure(" ".join(witness), f"step {i} ({toks[i]}): {site}: {detail}", full_site)
        if li % 2500 == 0:
            r.sample({"history": case, "last_step_engine": isteps[-1], "oracle": "holds" if ff is None else osteps[ff[0]]})


WENT_AWAY = "err:InvalidOperation:cannot call this macro. template state went away."
MODEL_TO_IMPL = {"free": "ok", "accepted": "ok", "rejected": "rejected", "-": "-"}


def impl_class(v):
    if v == "-":
        return "-"
    if v == WENT_AWAY:
        return "rejected"
    if v.startswith("ok:"):
        return "ok"
    return v


def process_foreign(r, exe, out):
    """foreign-value stream: render-bound values exported from one render and used by other renders on
    the main thread, new threads (after 0..3 other renders) and concurrently"""
    lines = out.splitlines()
    model = r.driver("drive_c15", "".join(l.split("\t")[0] + "\n" for l in lines))
    if model is None or len(model) != len(lines):
        r.broken.append("model driver output does not line up with the foreign-value cases")
        model = None
    for li, line in enumerate(lines):
        f = line.split("\t")
        if len(f) != 3:
            r.broken.append("malformed foreign-value line: " + line[:200])
            continue
        case, variants, verdict = f
        _, x, site, consumer, via = case.split(":")
        vs = variants.split(" / ")
        r.count(case, consumer != "info" and x != "6", n=len(vs))
        r.extra["foreign_value_cases"] = r.extra.get("foreign_value_cases", 0) + 1
        r.hist["foreign_consumer"][consumer + "/" + via] += 1
        r.hist["foreign_export_site"][site] += 1
        classes = [impl_class(v) for v in vs]
        for c in classes:
            r.hist["foreign_result"][c if c in ("ok", "rejected", "-") else c[:40]] += 1
        if model is not None:
            want = [MODEL_TO_IMPL.get(m, m) for m in model[li].split("\t")[1].split(" / ")]
            if want != classes:
                r.model_disagreement(case, " / ".join(classes), " / ".join(want))
        if verdict != "=":
            m = FAIL_RE.search(verdict)
            r.oracle_failure(case, "render-bound value exported from one render, used in another: " +
                             (m.group(2) if m else verdict), f"foreign:{consumer}")
        if li % 97 == 0:
            r.sample({"foreign_case": case, "main_thread": vs[0], "all_variants_equal": verdict == "="})


def run(r):
    r.rule = ("random histories (length 1..30, up to 3 live environments created by clone) over {add_template, "
              "add_template_owned (incl. re-adds of the identical source and of what the loader delivers), remove_template (also "
              "of un-normalised spellings), clear_templates, set_loader (6 tables, one impure: answers change with an outside "
              "phase), set_trim_blocks/lstrip_blocks/keep_trailing_newline/syntax(3)/auto_escape_callback(4), "
              "set_undefined_behavior(4)/formatter/debug/recursion_limit/fuel/path_join_callback/unknown_method_callback, "
              "add/remove filter/test/global, clone, render (3 contexts incl. a failing serialisation), template handle held across "
              "modifications of a clone, failing compiles/renders, 8-thread phase}; 5 names (one is './a') x 18 sources (every one "
              "sensitive to each load-time setting; 2 broken, several failing at run time, includes/extends/imports between the "
              "names). evaluations = history steps (each step compares every name of every live environment); a history is "
              "non-trivial when it is distinct, changes the store or loader and performs a lookup. Plus the foreign-value stream: 9 "
              "exporters (macro, closure macro, namespace, set-export, module, caller, loop, from-import, nested macro) x 5 export "
              "sites x 4 consumers x {context, global}, each used on the main thread, on new threads after 0..3 other "
              "renders, on the exporting thread and on 2x4 concurrent threads (all 14 results must be identical)")
    r.assumptions = ["Arc's strong count equals the number of live handles (std)",
                     "fetch_add on the process-wide STATE_ID is totally ordered (std atomics); no wrap-around within 2^64 states",
                     "a loader closure answers as a function of the name and of the modelled outside phase (no hidden state of its own)",
                     "rendering is a function of the compiled templates looked up, run-time configuration, registries and context (validated against a fresh environment, not proved)",
                     "guards are dropped innermost first when a panic unwinds (Rust semantics); VALUE_HANDLES entries leaked by an unwound conversion are never read (handles are fresh; u32 wrap-around not modelled)",
                     "thread schedules are sampled (8 threads x 12 renders per phase; 14 variants per foreign-value case), not enumerated"]
    r.regen_tables(["C15_SETTERS", "C15_TEMPLATE_CONFIG", "C15_INSERT_ARMS", "C15_GET_ORDER", "C15_REMOVE_CLEAR", "C15_STATE_ID", "C15_CLONE_DERIVES",
                    "C15_THREAD_LOCALS", "C15_DROP_GUARDS", "C15_POOL_TAKE_CLEARS"])
    r.lean_prove("MJ.Props.C15", "MJ/Audit/C15.lean", extra_targets=["drive_c15"])
    exe = r.cargo_build("c15")
    if exe is None:
        return
    shrunk = set()
    # corpus first: minimised past failures (the fixed defect, witnesses of hand mutations)
    for path in sorted(glob.glob(os.path.join(VERIF, "corpus", "C15", "*.case"))):
        rc, out, err = r.harness(exe, ["file", path])
        if rc != 0:
            r.broken.append(f"harness c15 exited {rc} on corpus {path}: {err[-300:]}")
            continue
        r.extra["corpus_histories"] = r.extra.get("corpus_histories", 0) + sum(1 for l in out.splitlines() if not l.startswith("#"))
        process(r, exe, out, shrunk)
    rc, out, err = r.harness(exe, ["foreign", "3" if r.tier == "quick" else "20"])
    if rc != 0:
        r.broken.append(f"harness c15 foreign exited {rc}: {err[-300:]}")
    else:
        process_foreign(r, exe, out)
    # mjh::Rng streams of neighbouring seeds overlap (same sequence shifted by one draw), so the
    # harness seeds are spread by a hash of (VERIF_SEED, chunk)
    def spread(i):
        return int.from_bytes(hashlib.blake2b(f"C15:{r.seed}:{i}".encode(), digest_size=8).digest(), "big")
    n_chunks = 1 if r.tier == "quick" else THOROUGH_CHUNKS
    chunks = [(spread(i), QUICK_HISTORIES) for i in range(n_chunks)]
    for seed, count in chunks:
        rc, out, err = r.harness(exe, ["gen", r.tier, str(count)], env={"VERIF_SEED": str(seed)})
        if rc != 0:
            r.broken.append(f"harness c15 exited {rc}: {err[-300:]}")
            return
        got = sum(1 for l in out.splitlines() if not l.startswith("#"))
        if got != count:
            r.broken.append(f"harness c15 produced {got} histories instead of {count}")
        process(r, exe, out, shrunk)


def replay(r, path):
    d = json.load(open(path))
    exe = r.cargo_build("c15")
    cases = [d.get("case")] + d.get("more_cases", [])
    for c in d.get("correspondence_disagreements", []):
        cases.append(c.get("case"))
    for case in cases:
        if not case:
            continue
        if case.startswith("fx:"):
            rc, out, err = r.harness(exe, ["fone", case])
            model = r.driver("drive_c15", case + "\n")
            f = out.rstrip("\n").split("\t")
            print("foreign-value case:", f[0])
            labels = ["main", "new+0", "new+1", "new+2", "new+3", "exporter+1"] + [f"conc0.{i}" for i in range(4)] + [f"concK.{i}" for i in range(4)]
            ms = model[0].split("\t")[1].split(" / ") if model else [None] * 14
            for lab, v, m in zip(labels, f[1].split(" / "), ms):
                print(f"   {lab:11s} engine: {v}    model: {m}")
            print("   oracle:", f[2])
            continue
        rc, out, err = r.harness(exe, ["one", case, "--once"])
        cmp_lines, body = read_headers(r, out.splitlines())
        model = r.driver("drive_c15", "\n".join(cmp_lines + body) + "\n")
        f = body[0].split("\t")
        toks = f[0].split(" ")
        print("history:", f[0])
        for i, (a, o) in enumerate(zip(f[1].split(" / "), f[2].split(" / "))):
            m = translate_step(model[0].split("\t")[1].split(" / ")[i], toks[i]) if model else None
            print(f" step {i} {toks[i]}")
            print("   engine:", a)
            print("   model :", m)
            print("   oracle:", o)
    return 0
