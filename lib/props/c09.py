"""C09 — subscripts and slices follow Python's rules (DESIGN.md §3 C09)."""
import json, os, collections, re, struct, concurrent.futures
from common import REPO, LEAN, sh

READY = True

META = {
    "technique": "Lean 4 proof (slice model = CPython PySlice_AdjustIndices for all lists/bounds/steps) + exhaustive correspondence on the quantifier's box",
    "category": "proof",
    "text": "Kernel-checked theorems: the Lean model of ops::slice (with every checked arithmetic operation modelled as a possible panic) returns exactly CPython's selection for every list shorter than 2^63 and every start/stop/step in i64, a zero step is the only error, no panic; subscripts likewise. Value level (MJ.Sub): for strings in all three representations (UTF-8 bytes; the Chars cursor provably stands on character boundaries and yields the scalar values; the result of a slice is, byte for byte, the concatenation of the whole byte ranges of the characters Python selects, for negative steps too, combining marks and 4-byte characters included), bytes, tuples, sequences, sized/unsized/one-shot iterables and slice parts / subscripts that are Python integers of any representation and size (bool, i64, u64, i128, u128; beyond i64 clamped by slice_bound), ops::slice / get_item_opt return Python's selection of the same type; slice is total (error iff a part does not convert, in start/stop/step order, or the step is zero, or the value has no sliceable representation), never panics; integral floats act as integers, everything else is the documented conversion error / undefined; VM arms GetItem/GetAttr/Slice under the four undefined modes. Representation is not an input: at every conversion site of the regenerated site table (the three slice parts, get_item_opt::index, every get_value that takes a position, the repetition count, the integer-typed arguments of range / batch / slice / indent / round / split / truncate / wordwrap / randrange / lipsum) two numbers holding the same integer convert alike whatever their ValueRepr (I64, U64, I128, U128, integral F64), booleans convert like 0 / 1, and everything that holds no integer is rejected uniformly. Every object kind the engine registers (regenerated list of impl Object blocks, ObjectRepr and Enumerator variants): Seq / Iterable objects are the model's seq / tuple / sized / unsized / one-shot classes; repetitions (seq * n, also nested: Python's xs * n with an honest length), reversed views (Python's reversed(x) = x[::-1] item by item), one-shot iterators used more than once (what each subscript / slice enumeration yields and leaves; nothing is yielded twice), chained sequences; maps and plain objects are not sliceable (the cannot-be-sliced error) and subscripted by key. Every dispatch/arm/message table the model interprets is regenerated from /repo. The model is tied to /repo by running model, CPython-transcription and the real engine on the whole box of the property's quantifier (exhaustive), the value-kind x key-kind product through 12 entry points and 4 undefined modes (value kinds: every string / bytes / ObjectRepr / Enumerator flavour incl. std sets and lists, repetitions, reversed views, custom objects per Enumerator variant), 140 derived built-in values with Python's own expectation of their items, relations (reverse/first/last/length) on every value, bounds produced inside templates by 48 expressions (8 of them containing subscripts, slices and map-literal colons of their own), one-shot iterators driven through op sequences, sequences of 2^16 and 10^5 items, long random sequences, metamorphic relations, and the conversion-site stream (every site x every representation), plus CPython itself as an independent witness for the spec. Session 4: objects are modelled by Enumerator variant (MJ.Sub.Obj: repr, the variant enumerate() returns with what it yields and its size hints, get_value by position); try_iter / query_len arms, the length the Seq arm of get_item_opt offers to index and the data flow of the lazy object arm of ops::slice are the regenerated table C09_ENUMERATOR_ARMS; objSliceV_eq_python (C09_objects_full) and objGetItem_pyInt: an object of representation Seq or Iterable that holds the items xs - through ANY enumerable variant (Empty, Seq, Iter, RevIter, KeyValueIter, RevKeyValueIter, Str, Values), whether it announces its length (exact size hints, Seq(l)) or not - gives Python's xs[A:B:C] / xs[i] for all parts that are omitted or integers of any representation and size, end-relative subscripts of objects that announce no length included (fix dad5284); harnessObj_holds: the 15 enumerable object flavours of the correspondence stream `eo` satisfy the hypothesis; C09_main: an engine whose four operations (slice / get_item_opt on values and on objects) equal the model's (hypotheses corr_slice, corr_getItem, corr_objSlice, corr_objGetItem = what the correspondence streams validate) satisfies the property as stated (C09_statement). Stream eo: 16 flavours (9 variants x exact / too-large-upper / lower-only / absent size hints) x Seq / Iterable x n 0..4 x the complete box start, stop in {omitted} U [-5, 5], step in {omitted, -2, -1, 1, 2, 3, 0} + 36 subscript keys each, engine vs compiled model vs Python, every lazy result enumerated twice and its announced length compared with its items, expression vs Value::get_item; the same complete box for 12 of the engine's own sequence-like value kinds (VecDeque, arrays, BTreeSet, LinkedList, HashSet of 0 / 1 items, custom Seq / Iterable objects, range, repetitions and nested repetitions, reversed views of a list and of an iterable of unknown length) x n 0..4, engine vs the MJ.Sub.Val model vs Python on what the value enumerates.",
    "design_ref": "DESIGN.md §3 C09",
    "level_note": "Trusted: Lean kernel; hand transcription of ops.rs slice/slice_bound/get_offset_and_len/range_step_backwards, value/mod.rs get_item_opt(+index)/get_item/get_item_by_index/get_attr and the VM arms GetItem/GetAttr/Slice into MJ/Model/{Slice,Subscript}.lean; every dispatch table, conversion arm list, error kind/message, length function and the handle_undefined table the model interprets is regenerated from /repo (lib/tables/c09.py) with shape checks. Validated exhaustively on the box (10 kinds x len 0..6 x 23 starts x 23 stops x 13 steps) and on the value-kind x key-kind product through 12 entry points x 4 undefined modes; long random sequences (len <= 2000, bounds near +-len, +-2^31, +-2^63, +-2^64, +-2^127) against the model and CPython. Round 5: the models of repeat_iterable / Repeated, Value::reverse, the one-shot iterator state machine and the conversion functions are hand transcriptions as well (MJ/Model/SubKinds.lean), tied by the regenerated tables C09_CONVERSION_SITES / C09_REPEATED / C09_OBJECT_IMPLS / C09_REVERSE (shape-checked) and by the streams mr / dr / pb / os / huge / cv; only validated (oracle streams, no model): GroupTuple, the built-in filters that produce the derived values (their items are compared with Python's expectation), sizedness of lazy results over iterators with inexact size hints, sequences longer than 10^5. MOVED FROM VALIDATED TO PROVED in session 4 (the session-3 work was lost, see the preamble of lib/prompts/worker_C09_s4.txt): custom objects per Enumerator variant were validated through the `.seq` / `.iter` classes only (the model did not know enumerators); now MJ/Model/SubObj.lean models try_iter / query_len / enumerator_len / the Seq and Iterable arms of get_item_opt / the lazy object arm of ops::slice per variant over the regenerated table C09_ENUMERATOR_ARMS (shape-checked arm by arm: an edit of an arm of try_iter, query_len, of the Seq arm of get_item_opt or of the collect / stand-in branches of ops::slice breaks the tie and the theorems enumerator_arms_known / holds_tryIter / holds_queryLen), with theorems for ALL objects that hold their items (Holds o xs: the hypothesis is explicit and decidable per harness object) and the stream eo executing the new model part against the engine. Still hand transcription: objSliceItems / objGetItem themselves (tied by the shape checks of C09_ENUMERATOR_ARMS + eo). Still only validated: whether the lazy result of a slice announces a length (the hint arithmetic of skip / take / step_by is std's; eo checks that an announced length is the number of items), Enumerator::Seq(l) over an object whose get_value does not answer every position < l (undefined items; outside Holds), objects that are ObjectRepr::Map with a key-value enumerator (keys, not pairs; maps are not sliceable), a one-shot object behind ObjectRepr::Seq. The gap between proofs and code is now explicit: the four hypotheses of C09_main.",
}

KIND_CLASS = {"strplain": "str", "strsmall": "str", "strsafe": "str", "bytes": "bytes", "tuple": "tuple"}


def py_chain(kind, ln, suffix):
    """CPython itself evaluates the chain of slices / subscripts on list(range(len))"""
    cur = list(range(ln))
    import re
    ops = re.findall(r"\[([^\]]*)\]", suffix)
    for n, body in enumerate(ops):
        parts = body.split(":")
        if len(parts) == 1:
            if n != len(ops) - 1:
                return "bad-case"
            try:
                return "elem:%d" % cur[int(parts[0])]
            except IndexError:
                return "undef"
        a, b, c = (parts + [""])[:3]
        a, b, c = [None if x == "" else int(x) for x in (a, b, c)]
        if c == 0:
            return "err:InvalidOperation"
        cur = cur[slice(a, b, c)]
    return KIND_CLASS.get(kind, "list") + ":" + ",".join(map(str, cur))


def py_expect(f):
    """CPython as independent witness of the spec"""
    if f[0] == "chain":
        return py_chain(f[1], int(f[2]), f[3])
    if f[0] == "slice":
        kind, ln = f[1], int(f[2])
        a, b, c = [None if x == "_" else int(x) for x in f[3:6]]
        if c == 0:
            return "err:InvalidOperation"
        if kind in ("undef", "none"):
            return "list:"
        idx = list(range(ln))[slice(a, b, c)]
        return KIND_CLASS.get(kind, "list") + ":" + ",".join(map(str, idx))
    else:
        kind, ln, i = f[1], int(f[2]), int(f[3])
        if kind == "undef":
            return "err:UndefinedError"
        if kind == "none":
            return "undef"
        try:
            return "elem:%d" % list(range(ln))[i]
        except IndexError:
            return "undef"


# ------------------------------------------------------------------------------------------
# glue streams: Python as the oracle wherever Python defines a result
def _fnv(cls, xs):
    h = 0xcbf29ce484222325
    for x in xs:
        h = ((h ^ x) * 0x100000001b3) & 0xFFFFFFFFFFFFFFFF
    return "%s#%d#%d#%s" % (cls, len(xs), h, ",".join(str(x) for x in xs[:6]))


def _long_chr(i):
    q = i // 4
    return chr([0x61 + q % 26, 0x300 + q % 32, 0x4e00 + q % 1000, 0x1f600 + q % 64][i % 4])


def _long_obj(kind, n):
    if kind.startswith("str"):
        return "".join(_long_chr(i) for i in range(n))
    if kind == "bytes":
        return bytes((i * 7 + 3) % 256 for i in range(n))
    if kind == "tuple":
        return tuple(range(n))
    return list(range(n))


def _long_class(kind):
    return "str" if kind.startswith("str") else kind if kind in ("bytes", "tuple") else "list"


def _elems(obj):
    return [ord(c) for c in obj] if isinstance(obj, str) else list(obj)


def _ib(s):
    return None if s == "_" else int(s)


ZERO_STEP = "err:InvalidOperation|cannot slice by step size of 0"


def py_long(f):
    kind, n, a, b, c = f[1], int(f[2]), f[3], f[4], f[5]
    obj = _long_obj(kind, n)
    if c.startswith("i"):
        try:
            x = obj[int(c[1:])]
        except IndexError:
            return "undef"
        return ("chr:%d" % ord(x)) if isinstance(obj, str) else "elem:%d" % x
    if _ib(c) == 0:
        return ZERO_STEP
    return _fnv(_long_class(kind), _elems(obj[slice(_ib(a), _ib(b), _ib(c))]))


def _strip_class(d):
    return d.split("#", 1)[1] if "#" in d else d


def _unsized_result(kind, a, b, c):
    """does the engine's lazy result of slicing an iterable of unknown length lack a length?"""
    if kind != "iterunsized":
        return False
    a, b, c = _ib(a), _ib(b), _ib(c)
    if (c if c is not None else 1) <= 0 or (a is not None and a < 0) or (b is not None and b < 0):
        return False
    return not (b is not None and b <= (a or 0))   # take(0) knows its length


def py_meta(f, impl):
    """returns None if the relation holds, else a description"""
    rel, kind, n, a, b, c = f[1], f[2], int(f[3]), f[4], f[5], f[6]
    obj = _long_obj(kind, n)
    cls = _long_class(kind)
    if rel == "rev":
        lhs, rhs = impl.split("~~")
        want = _strip_class(_fnv(cls, _elems(obj[::-1])))
        if _strip_class(lhs) != want or _strip_class(rhs) != want:
            return "reverse filter / [::-1] / Python disagree: want " + want
        return None
    if rel in ("first", "last"):
        lhs, rhs = impl.split("~~")
        if n == 0:
            want = "undef"
        else:
            x = obj[0] if rel == "first" else obj[-1]
            want = _strip_class(_fnv("str", [ord(x)])) if isinstance(obj, str) else "elem:%d" % x
        if _strip_class(lhs) != want or _strip_class(rhs) != want:
            return "%s filter / subscript / Python disagree: want %s" % (rel, want)
        return None
    if rel == "len":
        if _ib(c) == 0:
            return None if impl == ZERO_STEP else "zero step must be the slice error"
        if _unsized_result(kind, a, b, c):
            return None if impl.startswith("err:InvalidOperation|cannot calculate length") else "length of a lazy result of unknown size"
        want = str(len(obj[slice(_ib(a), _ib(b), _ib(c))]))
        return None if impl == want else "length of the slice: Python says " + want
    if rel == "loop":
        if _ib(c) == 0:
            return None if impl == ZERO_STEP else "zero step must be the slice error"
        sel = obj[slice(_ib(a), _ib(b), _ib(c))]
        # a for loop over a string walks `chars()`, whose length is not known up front: no loop.length
        ln = "" if _unsized_result(kind, a, b, c) or isinstance(obj, str) else str(len(sel))
        show = (lambda x: x) if isinstance(obj, str) else (lambda x: str(x))
        if kind == "bytes":
            show = lambda x: str(x)
        want = "".join("%s:%d:%s," % (ln, i, show(x)) for i, x in enumerate(sel))
        return None if impl == want else "loop over the slice: Python says " + want[:80]
    if rel == "sss":
        if _ib(c) == 0:
            return None if impl == ZERO_STEP else "zero step must be the slice error"
        c2 = 1 if c in ("_", "0") else int(c)
        sel = obj[slice(_ib(a), _ib(b), _ib(c))][slice(_ib(b), _ib(a))][::c2]
        want = _fnv(cls, _elems(sel))
        return None if impl == want else "slice of slice of slice: Python says " + want
    if rel == "litv":
        if _ib(c) == 0:
            return None if impl == ZERO_STEP + "~~" + ZERO_STEP else "zero step must be the slice error"
        lhs, rhs = impl.split("~~")
        want = _fnv(cls, _elems(obj[slice(_ib(a), _ib(b), _ib(c))]))
        return None if lhs == want and rhs == want else "literal vs run-time container: Python says " + want
    if rel == "liti":
        lhs, rhs = impl.split("~~")
        try:
            x = obj[int(a)]
            want = ("chr:%d" % ord(x)) if isinstance(obj, str) else "elem:%d" % x
        except IndexError:
            want = "undef"
        return None if lhs == want and rhs == want else "literal vs run-time subscript: Python says " + want
    return "unknown relation"


def _spec_py(spec):
    """Python object for a value spec, or None if Python has no such sequence"""
    tag, _, arg = spec.partition(":")
    if tag in ("sn", "sm", "sa"):
        return bytes.fromhex(arg).decode("utf-8"), "str"
    if tag == "b":
        return bytes.fromhex(arg), "bytes"
    if tag == "P":
        return tuple(range(int(arg))), "tuple"
    if tag in ("L", "D", "A", "CS", "E", "R", "CI", "X", "O", "BS", "LL", "HS"):
        return list(range(int(arg))), "iter"
    if tag == "RP":
        n, k = [int(x) for x in arg.split("x")]
        return list(range(n)) * k, "iter"
    if tag == "RR":
        n, a, b = [int(x) for x in arg.split("x")]
        return (list(range(n)) * a) * b, "iter"
    if tag == "CE":
        return eo_items(arg.split(":")[1], int(arg.split(":")[2])), "iter"
    if tag == "RV":
        inner = arg.replace("=", ":")
        o = _spec_py(inner)
        if o is None:
            return None
        obj, cls = o
        if enumerates_reviter(inner) and REVERSE_FORWARD:
            # Value::reverse does not reverse what enumerates through `Enumerator::RevIter` (known
            # finding reverse:RevIter, reported by the relation streams): the reversed VIEW of such
            # a value holds the items in forward order; slicing / subscripting it is checked on that
            return obj, ("iter" if cls in ("tuple", "iter") else cls)
        return obj[::-1], ("iter" if cls in ("tuple", "iter") else cls)
    return None


# `Enumerator` variants whose arm of Value::reverse does not reverse (regenerated table C09_REVERSE)
REVERSE_FORWARD = set()


def enumerates_reviter(spec):
    return spec.startswith("BS:") or spec.startswith("LL:") or (spec.startswith("CE:") and spec.split(":")[2] in ("rev", "revlo", "revnone"))


SITE_REVITER = "reverse:RevIter"


def _spec_int(spec, omitted_ok):
    """the Python integer a bound/key spec stands for: ints of every repr and bools; (ok, value)"""
    tag, _, arg = spec.partition(":")
    if spec in ("_", "Z") and omitted_ok:
        return True, None
    if tag in ("i", "u", "I", "W"):
        return True, int(arg)
    if spec == "T":
        return True, 1
    if spec == "F":
        return True, 0
    return False, None


def py_gs(f):
    """expected canonical result where Python defines one (classes without the sizedness flag)"""
    vs, a, b, c = f[3], f[4], f[5], f[6]
    o = _spec_py(vs)
    ia, ib, ic = _spec_int(a, True), _spec_int(b, True), _spec_int(c, True)
    if o is None or not (ia[0] and ib[0] and ic[0]):
        return None
    if f[1] == "X" and False:
        return None
    obj, cls = o
    if ic[1] == 0:
        return ZERO_STEP
    sel = obj[slice(ia[1], ib[1], ic[1])]
    if cls == "str":
        return "str:" + sel.encode("utf-8").hex()
    if cls == "bytes":
        return "bytes:" + sel.hex()
    return cls + ":" + ",".join(map(str, sel))


def py_gi(f):
    vs, k = f[3], f[4]
    o = _spec_py(vs)
    ik = _spec_int(k, False)
    if o is None or not ik[0]:
        return None
    obj, cls = o
    if vs.startswith("O:") and ik[1] < 0:
        return None     # Python's generators are not subscriptable; engine rule: undefined
    try:
        x = obj[ik[1]]
    except IndexError:
        return "undef"
    if cls == "str":
        return "chr:" + x.encode("utf-8").hex()
    if cls == "bytes":
        return "byte:%d" % x
    return "elem:%d" % x


def _kindtag(spec):
    return spec.partition(":")[0]


SEQLIKE = ("sequence", "iterator", "string")
# integer-indexable `impl Object` blocks of minijinja/src (table C09_INDEXABLE_OBJECTS) -> what in the
# harness subscripts a value of that type.  A new integer-indexable object must be added here
# (and to the harness) or the tie is broken.
INDEXABLE_COVERED = {
    "filters.rs:GroupTuple": "dv group / group_1 / group_list",
    "merge_object.rs:MergeSeq": "mg stream (all operand-length vectors) + dv chain_* / add_*",
    "merge_object.rs:MergeDict": "dv chain_maps / merge_ctx (forwards the key to its operands; engine rule)",
    "object.rs:$vec_type<T>": "kinds L, D (Vec, VecDeque) + dv list_* / batch / sort …",
    "object.rs:[T; N]": "kind A",
    "tuple.rs:Tuple": "kind P + dv items_pair / zip_pair / add_t_t",
}


def _key_int(spec):
    """Python index for a key spec: ints, bools, and (engine rule) integral floats"""
    ok, v = _spec_int(spec, False)
    if ok:
        return v
    if spec.startswith("f:"):
        import struct
        x = struct.unpack("<d", struct.pack("<Q", int(spec[2:])))[0]
        if x == x and abs(x) < 2**62 and x == int(x):
            return int(x)
    return None


def derived_case(r, f, case, impl):
    st = f[0]
    if st == "mg":
        lens = [int(x) for x in f[1].split(",") if x != ""]
        r.hist["mg_operands"][str(len(lens))] += 1
        r.hist["mg_empty_head"]["yes" if lens and lens[0] == 0 and sum(lens) > 0 else "no"] += 1
        r.count(case, sum(lens) > 0)
        i = _key_int(f[4])
        if i is None:
            return
        flat = list(range(sum(lens)))
        try:
            want = "elem:%d" % flat[i]
        except IndexError:
            want = "undef"
        if impl != want:
            r.oracle_failure(case, f"engine returned {impl}, Python's list(chain(...))[i] is {want}", "mg:" + f[3])
        return
    parts = impl.split("~~")
    if len(parts) != 4:
        r.oracle_failure(case, "malformed result " + impl[:80], "derived:malformed")
        return
    lhs, rhs, kind, mat = parts
    ident = f[3] if st == "dv" else f[2]
    r.hist["derived_kind"][kind.split("|")[0][:20]] += 1
    r.hist["derived_id"][ident] += 1
    r.count(case, not lhs.startswith("err") and lhs != "undef")
    if kind not in SEQLIKE or mat.startswith("err:"):
        r.hist["oracle"]["engine-rule (not a Python sequence)"] += 1
        return
    items = [] if mat == "" else mat.split(" ¦ ")
    exp = DERIVED_EXPECT.get(ident)
    if exp is not None and ident not in REVITER_VIEWS:
        # Python's own expectation of what the value holds (checked against the engine's
        # materialisation by the `dr` stream) instead of the engine's `x|list`
        items = [repr(x) for x in exp]
    if st == "dv":
        i = _key_int(f[4])
        if f[2] == "apiidx":
            i = int(f[4][2:])
        if i is None:
            # law only: x[k] == (x|list)[k]
            if lhs != rhs:
                r.oracle_failure(case, f"x[k] is {lhs[:80]} but (x|list)[k] is {rhs[:80]}", "dv:law:" + ident)
            return
        try:
            want = items[i]
        except IndexError:
            want = "undef"
        r.hist["oracle"]["python"] += 1
        if lhs != want or (rhs != want and f[2] != "apiidx"):
            r.oracle_failure(case, f"x[k] is {lhs[:80]}, (x|list)[k] is {rhs[:80]}, Python's list(x)[k] is {want[:80]}", "dv:" + ident + ":" + f[2])
    else:
        ia, ib, ic = _spec_int(f[3], True), _spec_int(f[4], True), _spec_int(f[5], True)
        if not (ia[0] and ib[0] and ic[0]):
            if lhs != rhs:
                r.oracle_failure(case, f"x[a:b:c] gives {lhs[:80]} but (x|list)[a:b:c] gives {rhs[:80]}", "ds:law:" + ident)
            return
        if ic[1] == 0:
            want = ZERO_STEP
        else:
            want = " ¦ ".join(items[slice(ia[1], ib[1], ic[1])])
        r.hist["oracle"]["python"] += 1
        if lhs != want or rhs != want:
            r.oracle_failure(case, f"x[a:b:c] gives {lhs[:80]}, (x|list)[a:b:c] gives {rhs[:80]}, Python selects {want[:80]}", "ds:" + ident)



# ------------------------------------------------------------------------------------------
# Python's own answer for the derived values (independent of the engine's materialisation)
class _Undef:
    def __repr__(self):
        return "undef"


def _derived_expect():
    prs = [[1, "b"], [0, "a"], [2, "c"]]; nest = [[[5, 6]], [[7, 8]]]; tps = [(1, "x"), (3, "y")]; und = _Undef()
    xs = [10, 20, 30]; e = []; t = (7, 8); s = "héy"; it = [100, 101, 102]; ux = [201, 202, 203]
    recs = [{"k": 0, "v": 1}, {"k": 1, "v": 2}, {"k": 1, "v": 3}]
    bs = [1, 2, 3, 4]; ll = [5, 6, 7]; dq = [11, 12, 13]; arr = [21, 22, 23]; os_ = [300, 301, 302]
    ce = [0, 1, 2]; names = ["n0", "n1", "n2"]; kv = [(0, 0), (1, 10), (2, 20)]
    items = [("a", 1), ("b", 2)]
    mid = [0]
    for i in range(1, 37):
        mid = [2 * i] + mid + [2 * i + 1]
    E = {
        "chain_e_xs": xs, "chain_xs_e": xs, "chain_e_e_xs_e": xs, "chain_xs_e_t": xs + list(t), "chain_t0_xs": xs + xs,
        "chain_nested": xs + list(t), "chain_nested_head": xs, "chain_one": xs, "chain_mixed_str": list(s) + xs,
        "chain_mixed_iter": it + xs, "add_e_xs": xs, "add_xs_xs": xs + xs, "add_t_t": list(t + t), "add_t0_t": list(t),
        "add_xs_it": xs + it, "add_add": xs, "batch": [[10, 20], [30]], "batch_row": [10, 20], "batch_fill": [[10, 20], [30, "x"]],
        "batch_last": [30, "x"], "slicef": [[10, 20], [30]], "slicef_row": [30], "items": items, "items_pair": ["a", 1],
        "dictsort": items, "dictsort_pair": ["b", 2], "zip": [(10, 7), (20, 8)], "zip_pair": [20, 8],
        "groupby": [(0, [recs[0]]), (1, recs[1:])], "group": [0, [recs[0]]], "group_list": [recs[0]], "group_1": recs[1:],
        "range5": list(range(5)), "range_step": list(range(0, 10, 3)), "range_down": list(range(5, 0, -2)), "range_empty": [],
        "rev_xs": xs[::-1], "rev_t": list(t)[::-1], "rev_s": list(s)[::-1], "rev_it": it[::-1], "rev_ux": ux[::-1],
        "rev_range": [3, 2, 1, 0], "rev_chain": xs[::-1], "list_xs": xs, "list_s": list(s), "list_m": ["a", "b"], "list_ux": ux,
        "map_str": ["10", "20", "30"], "map_attr": [0, 1, 1], "select": [], "reject": [0, 2, 4], "selectattr": recs[1:],
        "sort": [1, 2, 3], "unique": [1, 2], "split": ["a", "b", "c"], "lines": ["a", "b"], "py_items": items,
        "py_keys": ["a", "b"], "py_values": [1, 2], "py_split": ["a", "b", "c"], "ser_tuple": [1, "two", 3.5],
        "ser_struct_list": [(1, 2), (3, 4)], "kwargs_items": items, "slice_of_chain": [20, 30, 7, 8], "slice_of_add": xs[::-1],
        "str": list(s), "safe": list(s), "upper": list("HÉY"),
        # repetitions
        "rep_xs2": xs * 2, "rep_2xs": 2 * xs, "rep_one": xs * 1, "rep_zero": xs * 0, "rep_nested": (xs * 2) * 3,
        "rep_nested3": ((xs * 2) * 1) * 2, "rep_nested_l": 2 * (3 * xs), "rep_nested_zero": (xs * 0) * 3, "rep_e": e * 3,
        "rep_e_nested": (e * 2) * 2, "rep_t": list(t * 2), "rep_t_nested": list((t * 2) * 2), "rep_it": it * 2, "rep_t_zero": [], "rep_t_one": list(t), "rep_t0": [], "rep_it_zero": [], "rep_range_one": [0, 1, 2],
        "rep_range": list(range(3)) * 2, "rep_chain": (e + xs) * 2, "rep_of_slice": xs[1:] * 2, "rep_of_rev": xs[::-1] * 2,
        "rep_bs": bs * 2, "rep_true": xs * True, "slice_of_rep": (xs * 2)[1:5], "chain_of_rep": xs * 2 + xs * 1,
        "add_of_rep": xs * 2 + list(t) * 2,
        "chain_xs_ux": xs + ux, "chain_ux_xs": ux + xs, "chain_ux_e_ux": ux + ux, "add_xs_ux": xs + ux, "add_ux_xs": ux + xs,
        "slice_ux_open": ux[1:], "slice_ux_back": ux[::-1], "slice_ux_end": ux[-2:], "chain_of_slices": ux[1:] + xs[:2],
        "zip_ux": list(zip(ux, xs)), "batch_ux": [ux[:2], ux[2:]],
        # std collections
        "bs": bs, "ll": ll, "hs1": [9], "dq": dq, "arr": arr, "bs_slice": bs[1:], "ll_back": ll[::-1],
        # reversed views
        "rev_bs": bs[::-1], "rev_ll": ll[::-1], "rev_dq": dq[::-1], "rev_arr": arr[::-1], "rev_rep": (xs * 2)[::-1],
        "rev_rev": xs, "rev_rev_bs": bs, "rev_e": [], "rev_slice": xs[1:][::-1], "rev_back_slice": xs, "rev_m": ["b", "a"],
        "rev_items": items[::-1], "rev_batch": [[30], [10, 20]], "rev_oneshot": os_[::-1], "rev_ce_seq": ce[::-1],
        "rev_ce_vals": ce[::-1], "rev_ce_iter": ce[::-1], "rev_ce_iternone": ce[::-1], "rev_ce_rev": ce[::-1],
        "rev_ce_str": names[::-1], "rev_ce_kv": kv[::-1], "rev_ce_revkv": kv[::-1], "rev_ce_empty": [],
        "ce_i_str": names, "ce_s_str": names, "ce_i_kv": kv, "ce_i_revkv": kv,
        # attribute paths with numeric parts (`Value::get_path` -> `get_item_by_index`)
        "path_map0": [p[0] for p in prs], "path_map1": [p[1] for p in prs], "path_nested": [n[0][1] for n in nest],
        "path_sort0": sorted(prs, key=lambda p: p[0]), "path_sort1_rev": sorted(prs, key=lambda p: p[1], reverse=True),
        "path_tuple": [t_[1] for t_ in tps], "path_str": ["b", "d"], "path_oob": [und, und, und], "path_select": [p for p in prs if p[0]],
        "path_reject": [p for p in prs if not p[0]], "path_unique": [[1, "b"], [0, "a"], [2, "c"]],
        "path_groupby_first": [0, [[0, "a"]]],
        # deeper than MergeSeq::MAX_DEPTH
        "deep_chain_l": list(range(41)), "deep_chain_r": list(range(40, -1, -1)), "deep_chain_mid": mid,
        "deep_chain_iter": list(range(41)), "deep_add_l": list(range(41)), "deep_add_r": list(range(40, -1, -1)), "deep_rep": [5, 6],
    }
    return E


DERIVED_EXPECT = _derived_expect()
# derived values that are (or are built from) the reversed view of something that enumerates through
# `Enumerator::RevIter`, and the values that enumerate that way themselves
REVITER_VIEWS = {"rev_bs", "rev_ll", "rev_rev_bs", "rev_ce_rev"}
REVITER_BASES = {"bs", "ll"}


def _py_items(xs):
    return " ¦ ".join(repr(x) for x in xs)


# ---- bounds produced inside the template: the integer Python sees (None = omitted part)
BOUND_PY = {
    "_": None, "lit2": 2, "neg1": -1, "neg2p": -2, "int_s3": 3, "int_sneg2": -2, "int_f2": 2, "int_fneg": -1, "int_t": 1,
    "len3": 3, "abs2": 2, "true": 1, "false": 0, "add2": 2, "subneg2": -2, "mul4": 4, "fdiv3": 3, "fdivneg": -2, "mod3": 3,
    "pow2": 2, "round2": 2, "loopidx": 3, "looplen": 5, "looprev0": 2, "big63": 2**63, "negbig": -(2**63) - 1, "big64": 2**64,
    "min1": 1, "sum2": 2, "count3": 3, "first2": 2, "nsattr": 2, "negvar": -2, "varu": 2, "var128": 3, "varu128": 1, "cond": 2,
    # floats with an integral value act as that integer (engine rule; Python: TypeError)
    "float2": 2, "floatneg1": -1, "sumf": 2, "divf": 2,
    # bounds that contain subscripts, slices and colons of their own
    "mapsub": 2, "mapint": 2, "listsub": 2, "negsub": -2, "slicesub": 2, "slicelen": 2, "ternslice": 3, "callsub": 2,
}
BOUND_FLOAT = {"float2", "floatneg1", "sumf", "divf"}
PB_OBJ = {"list": [0, 1, 2, 3, 4], "listv": [0, 1, 2, 3, 4], "tuple": (0, 1, 2, 3, 4), "str": "aé€𝄞b", "strv": "aé€𝄞b",
          "range": [0, 1, 2, 3, 4], "unsized": [0, 1, 2, 3, 4], "bytes": bytes([0, 1, 2, 3, 4])}


def py_pb(f):
    kind, a, b, c = f[1], f[2], f[3], f[4]
    obj = PB_OBJ[kind]
    if c.startswith("@"):
        try:
            x = obj[BOUND_PY[c[1:]]]
        except IndexError:
            return "undef"
        return "str:" + x.encode().hex() if isinstance(x, str) else "elem:%d" % x
    A, B, C = BOUND_PY[a], BOUND_PY[b], BOUND_PY[c]
    if C == 0:
        return ZERO_STEP
    sel = obj[slice(A, B, C)]
    if isinstance(sel, str):
        return "str:" + sel.encode().hex()
    if isinstance(sel, bytes):
        return "bytes:" + sel.hex()
    return ("tuple:" if isinstance(sel, tuple) else "list:") + ",".join(map(str, sel))


def _rep_base(n):
    for d in range(min(1000, max(n, 1)), 0, -1):
        if n % d == 0:
            return d
    return 1


def py_huge(f):
    kind, n, a, b, c = f[1], int(f[2]), f[3], f[4], f[5]
    if kind == "rep":
        base = _rep_base(n)
        obj = list(range(base)) * (n // base)
    else:
        obj = _long_obj(kind, n)
    if c.startswith("i"):
        try:
            x = obj[int(c[1:])]
        except IndexError:
            return "undef"
        return ("chr:%d" % ord(x)) if isinstance(obj, str) else "elem:%d" % x
    if _ib(c) == 0:
        return ZERO_STEP
    return _fnv(_long_class(kind), _elems(obj[slice(_ib(a), _ib(b), _ib(c))]))


# ---- conversion sites: one template per site of the regenerated table (`k` is the value under test)
CV_TEMPLATES = {
    "ops::slice.start": "{{ xs[k:]|list }}~{{ s[k:] }}~{{ t[k:] }}~{{ ux[k:]|list }}~{{ by[k:] }}~{{ bs[k:]|list }}",
    "ops::slice.stop": "{{ xs[:k]|list }}~{{ s[:k] }}~{{ t[:k] }}~{{ ux[:k]|list }}~{{ by[:k] }}~{{ bs[:k]|list }}",
    "ops::slice.step": "{{ xs[::k]|list }}~{{ s[::k] }}~{{ t[::k] }}~{{ ux[::k]|list }}~{{ by[::k] }}~{{ bs[::k]|list }}",
    "get_item_opt::index": "{{ xs[k] }}~{{ s[k] }}~{{ t[k] }}~{{ it[k] }}~{{ ux[k] }}~{{ bs[k] }}~{{ by[k] }}~{{ (xs * 2)[k] }}~{{ xs|attr(k) }}",
    "filters.rs:GroupTuple::get_value.key": "{{ (recs|groupby('k'))[0][k] }}",
    "merge_object.rs:MergeSeq::get_value.key": "{{ (e|chain(xs))[k] }}~{{ deep_chain_l[k] }}",
    "object.rs:$vec_type<T>::get_value.key": "{{ xs[k] }}~{{ dq[k] }}",
    "object.rs:[T; N]::get_value.key": "{{ arr[k] }}",
    "tuple.rs:Tuple::get_value.key": "{{ t[k] }}~{{ (m|items)[0][k] }}",
    "ops.rs:mul.n": "{{ s * k }}~{{ k * s }}",
    "ops.rs:repeat_iterable.n": "{{ (xs * k)|list }}~{{ (k * t)|list }}~{{ ((xs * 2) * k)|list }}",
    "filters.rs:split.maxsplits": "{{ 'a,b,c,d'|split(',', k) }}",
    "filters.rs:round.precision": "{{ 3.14159|round(k) }}",
    "filters.rs:slice.count": "{{ xs|slice(k)|list }}",
    "filters.rs:batch.count": "{{ xs|batch(k)|list }}",
    "filters.rs:indent.width": "{{ 'a\\nb'|indent(k) }}~{{ 'a\\nb'|indent(width=k) }}",
    "functions.rs:range.lower": "{{ range(k)|list }}~{{ range(k, 4)|list }}",
    "functions.rs:range.upper": "{{ range(0, k)|list }}",
    "functions.rs:range.step": "{{ range(0, 6, k)|list }}~{{ range(6, 0, k)|list }}",
    "contrib/mod.rs:truncate.length": "{{ 'hello world foo bar'|truncate(length=k) }}",
    "contrib/mod.rs:truncate.leeway": "{{ 'hello world foo bar'|truncate(length=6, leeway=k) }}",
    "contrib/mod.rs:wordwrap.width": "{{ 'aa bb cc'|wordwrap(width=k) }}",
    # random output: only whether the argument converts
    "contrib/globals.rs:randrange.n": "{{ randrange(k, k + 1) }}",
    "contrib/globals.rs:randrange.m": "{% set q = randrange(-5, k) %}ok",
    "contrib/globals.rs:lipsum.n": "{% set q = lipsum(n=k) %}ok",
}
CV_NO_VALUE = ("u64-wrap", "parse-usize", "internal-index", "forward")
CV_INTS = [-2, -1, 0, 1, 2, 3]


def _f64_bits(x):
    return struct.unpack("<Q", struct.pack("<d", float(x)))[0]


def cv_keys():
    """(key spec, class) — class `int:<n>` = holds the integer n; other classes: engine rule"""
    ks = []
    for n in CV_INTS:
        ks.append(("i:%d" % n, "int:%d" % n))
        ks.append(("I:%d" % n, "int:%d" % n))
        ks.append(("f:%d" % _f64_bits(n), "int:%d" % n))
        if n >= 0:
            ks.append(("u:%d" % n, "int:%d" % n))
            ks.append(("W:%d" % n, "int:%d" % n))
    ks += [("T", "int:1"), ("F", "int:0")]
    ks += [("Z", "none"), ("U", "undefined"), ("sm:31", "string"), ("f:%d" % _f64_bits(1.5), "fraction"), ("L:2", "list"),
           ("f:%d" % _f64_bits(float("nan")), "nan"), ("I:-9223372036854775809", "big-"), ("W:340282366920938463463374607431768211455", "big+")]
    return ks


# every `impl Object` of the table whose representation is Seq / Iterable / decided at run time -> what in
# the harness slices and subscripts a value of that type (new implementations break the tie until listed)
OBJECTS_COVERED = {
    "filters.rs:GroupTuple": "dv group / group_1 / group_list (+ dr relations)",
    "merge_object.rs:MergeSeq": "mg stream + dv chain_* / add_* / deep_chain_* / deep_add_* (Seq and Iterable flavour)",
    "mod.rs:Iterable<T, F>": "kinds itersized / iterunsized / oneshot / E / X / O / R, every slice result, every reversed view",
    "object.rs:$vec_type<T>": "kinds L, D (Vec, VecDeque) + dv dq",
    "object.rs:$iterable_type<T>": "kinds BS, LL, HS (BTreeSet, LinkedList, HashSet) + dv bs / ll / hs1 (a HashSet of several items iterates in an order that differs from instance to instance: one item only)",
    "object.rs:[T; N]": "kind A + dv arr",
    "ops.rs:Repeated": "kinds RP, RR + dv rep_* / deep_rep + huge rep",
    "tuple.rs:Tuple": "kind P + dv items_pair / zip_pair / add_t_t / rep_t",
}
# representation Map / Plain: not sequences — slicing is the `cannot be sliced` error, a subscript is a key
# lookup (stated by getItemOpt_map / sliceV_total); the streams that pin this for the engine's own maps:
MAPS_COVERED = {
    "functions.rs:BoxedFunction": "value spec i:5 / Q class (plain): error", "argtypes.rs:KwargsValues": "dv dict",
    "merge_object.rs:MergeDict": "dv chain_maps / merge_ctx", "mod.rs:StaticKeyMap": "gs/gi M: literals (lit entries)",
    "mod.rs:ProxyMapObject<T, E, A>": "not built by the engine itself (Value::make_object_map is an embedder API)",
    "namespace_object.rs:Namespace": "dv ns", "object.rs:$map_type<$key_type, V>": "kind MS", "object.rs:$map_type<&'static str, V>": "kind MS (same macro)",
    "object.rs:$map_type<Value, V>": "kind M + dv hm", "loop_object.rs:Loop": "dv loop_obj", "macro_object.rs:Macro": "ga stream on plain values (no items)",
    "module_object.rs:Module": "not sliceable (map); import tests are C18's", "contrib/globals.rs:Cycler": "dv cycler", "contrib/globals.rs:Joiner": "dv joiner",
}
ENUM_COVERED = {"NonEnumerable": "Q, eo none", "Empty": "CE:*:empty, eo empty", "Str": "dv ce_i_str / ce_s_str, CE:*:str, eo str", "Iter": "CE:*:iter*, eo iter / iterlo / iterlow / iternone",
                "KeyValueIter": "dv ce_i_kv, CE:*:kv*, eo kv / kvnone", "RevIter": "CE:*:rev*, BS, LL, eo rev / revlo / revnone",
                "RevKeyValueIter": "dv ce_i_revkv, CE:I:revkvnone, eo revkv / revkvnone", "Seq": "CE:*:seq, L, P, eo seq", "Values": "CE:*:vals, eo vals"}
MACROS_COVERED = {("impl_value_vec", "Vec"): "L", ("impl_value_vec", "VecDeque"): "D", ("impl_value_iterable", "LinkedList"): "LL",
                  ("impl_value_iterable", "HashSet"): "HS", ("impl_value_iterable", "BTreeSet"): "BS", ("impl_value_map", "BTreeMap"): "M",
                  ("impl_str_map", "BTreeMap"): "MS", ("impl_str_map", "HashMap"): "dv hm", ("impl_value_map", "HashMap"): "dv hm (same macro)",
                  ("impl_value_map", "IndexMap"): "preserve_order builds only (maps are not sliceable)"}


def _strip_sized(x):
    return x.replace("iterS:", "iter:").replace("iterU:", "iter:").replace("seq:", "iter:").replace("tuple:", "iter:").replace("safestr:", "str:")


def _py_canon(obj, cls):
    if cls == "str":
        return "str:" + obj.encode("utf-8").hex()
    if cls == "bytes":
        return "bytes:" + bytes(obj).hex()
    return "iter:" + ",".join(map(str, obj))


def more_case(r, f, case, impl, m):
    st = f[0]
    if impl == "panic":
        return
    if st == "mr":
        rel, spec = f[1], f[2]
        r.hist["relation"][rel] += 1
        o = _spec_py(spec)
        r.count(case, o is not None and len(o[0]) > 0)
        lhs, rhs = impl.split("~~")
        if m is not None:
            lm, rm = (m.split("~~") + ["-"])[:2]
            if (lm != "-" and _strip_sized(lm) != _strip_sized(lhs)) or (rm != "-" and rm != rhs and _strip_sized(rm) != _strip_sized(rhs)):
                r.model_disagreement(case, impl, m)
        if o is None:
            r.hist["oracle"]["engine-rule (not a Python sequence)"] += 1
            return
        # the Python object itself (an `RV:` spec already follows the known finding): relations on it
        obj, cls = o
        site = SITE_REVITER if enumerates_reviter(spec) and rel in ("rev", "last") else "mr:%s:%s" % (rel, _kindtag(spec))
        r.hist["oracle"]["python"] += 1
        if rel == "rev":
            want = _py_canon(obj[::-1], cls)
            if _strip_sized(rhs) != want:
                r.oracle_failure(case, f"v[::-1] is {rhs[:80]}, Python's is {want[:80]}", "mr:revslice:" + _kindtag(spec))
            if cls != "bytes" and _strip_sized(lhs) != want:        # the reverse filter has no bytes (not this property's business)
                r.oracle_failure(case, f"v|reverse is {lhs[:80]}, Python's reversed is {want[:80]}", site)
        elif rel in ("first", "last"):
            if cls == "bytes":
                return
            try:
                x = obj[0 if rel == "first" else -1]
                want = ("chr:" + x.encode().hex()) if cls == "str" else "elem:%d" % x
            except IndexError:
                want = "undef"
            if spec.startswith(("O:", "RV:O")) and rel == "last":
                return      # a one-shot iterator cannot be subscripted from its end (engine rule)
            if rhs.replace(":safe", "") != want:
                r.oracle_failure(case, f"v[{0 if rel == 'first' else -1}] is {rhs[:80]}, Python's is {want}", "mr:%s:index:%s" % (rel, _kindtag(spec)))
            if lhs.replace(":safe", "") != want:
                r.oracle_failure(case, f"v|{rel} is {lhs[:80]}, Python's is {want}", site)
        elif rel == "len":
            want = "elem:%d" % len(obj)
            for side, got in (("v|length", lhs), ("v[:]|length", rhs)):
                got = got.replace("byte:", "elem:")
                if got != want and not got.startswith("err:InvalidOperation|cannot calculate length"):
                    r.oracle_failure(case, f"{side} is {got[:80]}, Python's len is {len(obj)}", "mr:len:" + _kindtag(spec))
        return
    if st == "dr":
        rel, ident = f[1], f[2]
        parts = impl.split("~~")
        if len(parts) != 3:
            r.oracle_failure(case, "malformed result " + impl[:80], "derived:malformed")
            return
        lhs, kind, mat = parts
        r.hist["relation"]["derived:" + rel] += 1
        r.count(case, mat != "" and not mat.startswith("err"))
        if kind not in SEQLIKE or mat.startswith("err:"):
            r.hist["oracle"]["engine-rule (not a Python sequence)"] += 1
            return
        items = [] if mat == "" else mat.split(" ¦ ")
        exp = DERIVED_EXPECT.get(ident)
        known = ident in REVITER_VIEWS
        if exp is not None:
            r.hist["oracle"]["python (independent expectation)"] += 1
            want_items = [repr(x) for x in exp]
            if rel == "len" and items != want_items:
                r.oracle_failure(case, f"the value holds {mat[:100]}, Python's holds {_py_items(exp)[:100]}",
                                 SITE_REVITER if known else "dr:items:" + ident)
            if not known:
                items = want_items
        else:
            r.hist["oracle"]["python on the engine's materialisation"] += 1
        site = SITE_REVITER if (ident in REVITER_BASES or known) and rel in ("rev", "last") else "dr:%s:%s" % (rel, ident)
        if kind == "string":
            items = [x for x in items]
        if rel in ("rev", "revslice"):
            want = " ¦ ".join(items[::-1])
            got = lhs
            if kind == "string":
                # a string reversed is a string: compare its characters
                got = " ¦ ".join(repr(c) for c in eval(lhs)) if lhs.startswith(("'", '"')) else lhs
            if got != want:
                r.oracle_failure(case, f"{rel} gives {lhs[:100]}, Python's reversed is {want[:100]}", site if rel == "rev" else "dr:revslice:" + ident)
        elif rel in ("first", "last"):
            want = (items[0] if rel == "first" else items[-1]) if items else "undef"
            if lhs != want:
                r.oracle_failure(case, f"|{rel} gives {lhs[:100]}, Python's is {want[:100]}", site)
        elif rel in ("len", "lenslice"):
            want = str(len(items))
            if lhs != want and not (rel == "len" and lhs.startswith("err:InvalidOperation|cannot calculate length")):
                r.oracle_failure(case, f"{rel} gives {lhs[:100]}, Python's len is {want}", "dr:%s:%s" % (rel, ident))
        return
    if st == "pb":
        r.hist["bound_expr"][f[2]] += 1
        r.hist["bound_expr"][f[3]] += 1
        r.hist["bound_expr"][f[4].lstrip("@")] += 1
        r.hist["kind"]["pb:" + f[1]] += 1
        r.count(case, True)
        want = py_pb(f)
        usesf = any(x.lstrip("@") in BOUND_FLOAT for x in f[2:5])
        r.hist["oracle"]["engine-rule (integral float as integer)" if usesf else "python"] += 1
        if impl != want:
            r.oracle_failure(case, f"engine returned {impl[:100]}, Python selects {want[:100]}", "pb:" + f[1] + (":float" if usesf else ""))
        return
    if st == "os":
        r.hist["oneshot_ops"][str(len(f[2].split(";")))] += 1
        r.count(case, f[1] != "0")
        if m is not None and impl != m:
            r.model_disagreement(case, impl, m)
        if impl.startswith("err:"):
            r.oracle_failure(case, "an operation on a one-shot iterator failed: " + impl[:100], "os:error")
            return
        # a one-shot iterator yields every item at most once, whatever is done with it
        nums = re.findall(r"\d+", impl)
        if len(nums) != len(set(nums)):
            r.oracle_failure(case, f"an item of a one-shot iterator was yielded twice: {impl[:100]}", "os:item-twice")
        # the first operation sees the whole sequence: Python's answer
        op = f[2].split(";")[0]
        full = list(range(int(f[1])))
        first = impl.split("|")[0]
        want = None
        if op[0] == "i" and int(op[1:]) >= 0:
            k = int(op[1:])
            want = str(full[k]) if k < len(full) else ""
        elif op[0] in "st":
            a, b, c = [None if x == "_" else int(x) for x in op[1:].split(",")]
            want = "[" + ",".join(map(str, full[slice(a, b, c)])) + "]"
            first = first.split("~")[0]
        elif op == "l":
            want = "[" + ",".join(map(str, full)) + "]"
        elif op == "f":
            want = str(full[0]) if full else ""
        if want is not None and first != want:
            r.oracle_failure(case, f"the first operation gives {first[:80]}, Python's is {want[:80]}", "os:first:" + op[0])
        return
    if st == "huge":
        r.hist["kind"]["huge:" + f[1]] += 1
        r.count(case, True)
        want = py_huge(f)
        if impl != want:
            r.oracle_failure(case, f"engine returned {impl}, Python selects {want}", "huge:" + f[1])
        return


# ---- objects of every Enumerator variant x ObjectRepr::Seq / ::Iterable x honest / loose / absent size hints
EO_VARIANT = {"none": "NonEnumerable", "empty": "Empty", "seq": "Seq", "vals": "Values", "iter": "Iter", "iterlo": "Iter", "iterlow": "Iter",
              "iternone": "Iter", "rev": "RevIter", "revlo": "RevIter", "revnone": "RevIter", "str": "Str", "kv": "KeyValueIter",
              "kvnone": "KeyValueIter", "revkv": "RevKeyValueIter", "revkvnone": "RevKeyValueIter"}
EO_HINTS = {"iterlo": "upper bound too large", "iterlow": "lower bound only", "iternone": "no hints", "revlo": "upper bound too large",
            "revnone": "no hints", "kvnone": "no hints", "revkvnone": "lower bound only"}


EO_HELD = {}


def eo_items(variant, n):
    off = 1000 if variant == "str" else 2000 if variant.startswith(("kv", "revkv")) else 0
    return [i + off for i in range(n)]


def eo_case(r, f, case, impl, m):
    """`eo <S|I> <variant> <n> s <a> <b> <c>` / `eo <S|I> <variant> <n> i <key>`: the model dispatches on the
    enumerator variant (MJ.Sub.Obj); Python's answer on the items the object holds is the oracle for every
    object that can be enumerated"""
    rp, variant, n, op = f[1], f[2], int(f[3]), f[4]
    if rp == "V":
        # a value spec instead of a custom object: the engine's own collections, repetitions, reversed views
        r.hist["eo_variant"]["value:" + _kindtag(variant)] += 1
    else:
        r.hist["eo_variant"][("Seq" if rp == "S" else "Iterable") + ":" + EO_VARIANT.get(variant, "?")] += 1
        r.hist["eo_size_hints"][EO_HINTS.get(variant, "exact / announced")] += 1
    r.hist["eo_op"]["slice" if op == "s" else "subscript" if op == "i" else "enumerate"] += 1
    r.count(case, n > 0)
    loose_impl = impl.replace("iterS:", "iter:").replace("iterU:", "iter:")
    if op == "m":
        # what the object enumerates (`v|list`): the items Python's answers are taken on
        if m is not None and not (impl == m or (m == "not-iterable" and impl.startswith("err:InvalidOperation"))):
            r.model_disagreement(case, impl, m)
        held = None
        if impl.startswith("seq:"):
            held = [int(x) for x in impl[4:].split(",") if x.lstrip("-").isdigit()] if impl != "seq:" else []
            if len(held) != (0 if impl == "seq:" else impl.count(",") + 1):
                held = None
        EO_HELD[(rp, variant, n)] = held
        if rp == "V":
            o = _spec_py(variant.replace("#", str(n)))
            if o is not None and held != list(o[0]):
                r.oracle_failure(case, f"the value enumerates {impl[:100]}, Python's holds {list(o[0])}", "eo:enumerate:" + _kindtag(variant))
            return
        if variant != "none" and not variant.startswith(("kv", "revkv")) and held != eo_items(variant, n):
            # `Values`, `Iter`, `RevIter`, `Str`, `Seq`, `Empty` hand out the items they are given
            r.oracle_failure(case, f"the object enumerates {impl[:100]}, it holds {eo_items(variant, n)}", "eo:enumerate:" + EO_VARIANT[variant])
        return
    if m is not None and loose_impl != m:
        r.model_disagreement(case, impl, m)
    if "!" in impl:
        # the harness enumerates the lazy result twice and asks for its length
        r.oracle_failure(case, "the result of the slice is not one sequence (two enumerations differ, or it announces a length it "
                               "does not have, or the expression and Value::get_item disagree): " + impl[:120], "eo:unstable:" + variant)
        return
    # Python's answer is taken on what the object enumerates itself (for the key-value enumerators of an
    # object that is not a map, what an item is - the pair - is the engine's rule, not the property's)
    items = EO_HELD.get((rp, variant, n))
    if variant == "none" or items is None:
        r.hist["oracle"]["engine-rule (model only)"] += 1
        return
    if op == "s":
        a, b, c = [_ib(x) for x in f[5:8]]
        want = ZERO_STEP if c == 0 else "iter:" + ",".join(map(str, items[slice(a, b, c)]))
        r.hist["oracle"]["python"] += 1
        if loose_impl != want:
            r.oracle_failure(case, f"engine returned {impl[:100]}, Python selects {want[:100]}",
                             "eo:slice:%s:%s:%s" % (rp, EO_VARIANT.get(variant) or _kindtag(variant), "backward" if (c or 1) < 0 else "forward"))
    else:
        i = _key_int(f[5])
        if i is None:
            r.hist["oracle"]["engine-rule (model only)"] += 1
            return
        try:
            want = "elem:%d" % items[i]
        except IndexError:
            want = "undef"
        r.hist["oracle"]["python"] += 1
        if impl != want:
            r.oracle_failure(case, f"engine returned {impl[:100]}, Python's list(x)[k] is {want}",
                             "eo:index:%s:%s:%s" % (rp, EO_VARIANT.get(variant) or _kindtag(variant), "from-end" if i < 0 else "from-start"))


def glue_case(r, f, case, impl, mline):
    st = f[0]
    r.hist["stream"][st] += 1
    m = None
    if mline is not None:
        parts = mline.split("\t")
        m = parts[1] if len(parts) > 1 else None
    if impl == "panic":
        r.oracle_failure(case, "the engine panicked", "panic")
    if st in ("dv", "ds"):
        derived_case(r, f, case, impl)
        return
    if st == "mg":
        if m is not None and impl != m:
            r.model_disagreement(case, impl, m)
        derived_case(r, f, case, impl)
        return
    if st == "eo":
        eo_case(r, f, case, impl, m)
        return
    if st == "meta":
        r.hist["meta_relation"][f[1]] += 1
        r.hist["kind"][f[2]] += 1
        r.count(case, f[3] != "0")
        bad = py_meta(f, impl)
        if bad:
            r.oracle_failure(case, f"engine returned {impl[:120]}; {bad}", "meta:" + f[1] + ":" + f[2])
        return
    if st in ("mr", "dr", "pb", "os", "huge", "cv"):
        more_case(r, f, case, impl, m)
        return
    if m is not None and impl != m:
        # objects whose size hints are not exact: whether the lazy result of a slice knows its
        # length follows the hint arithmetic of skip/take/step_by, which the model does not carry
        loose = st == "gs" and any(t in f[3] for t in ("iterlo", "iterlow", "iternone", "revlo", "revnone", "kvnone", "revkvnone"))
        if not (loose and impl.replace("iterS:", "iterU:") == m.replace("iterS:", "iterU:")):
            r.model_disagreement(case, impl, m)
    if st == "long":
        r.hist["kind"][f[1]] += 1
        r.hist["long_len_bucket"]["<50" if int(f[2]) < 50 else "<300" if int(f[2]) < 300 else "<=2000"] += 1
        for b in f[3:6]:
            v = None if b == "_" else int(b.lstrip("i"))
            r.hist["long_bound_magnitude"]["omitted" if v is None else "<=2^12" if abs(v) <= 4096 else "~2^31" if abs(v) < 2**40
                                           else "~2^63" if abs(v) < 2**63 + 8 else ">=2^64"] += 1
        r.count(case, int(f[2]) > 0)
        want = py_long(f)
        if impl != want:
            r.oracle_failure(case, f"engine returned {impl}, Python selects {want}", "long:" + f[1] + (":index" if f[5].startswith("i") else ":backward" if f[5].startswith("-") else ":forward"))
        return
    r.hist["mode"][f[1]] += 1
    r.hist["entry"][st + ":" + f[2]] += 1
    r.hist["value_kind"][_kindtag(f[3])] += 1
    for b in f[4:]:
        r.hist["key_kind"][_kindtag(b) if st != "ga" else "name"] += 1
    r.hist["result"][impl.split(":")[0].split("|")[0]] += 1
    r.count(case, not impl.startswith("err") and impl not in ("undef",))
    if st == "gs":
        want = py_gs(f)
        if want is None:
            r.hist["oracle"]["engine-rule (model only)"] += 1
            return
        if f[3] in ("U", "Z"):
            return
        r.hist["oracle"]["python"] += 1
        # a string is a string: whether a slice of a safe string stays safe is not Python's business
        got = impl.replace("iterS:", "iter:").replace("iterU:", "iter:").replace("safestr:", "str:")
        if got != want:
            r.oracle_failure(case, f"engine returned {impl}, Python selects {want}", "gs:" + _kindtag(f[3]) + ":" + f[2])
    elif st == "gi":
        want = py_gi(f)
        if want is None:
            r.hist["oracle"]["engine-rule (model only)"] += 1
            return
        r.hist["oracle"]["python"] += 1
        if impl != want:
            r.oracle_failure(case, f"engine returned {impl}, Python selects {want}", "gi:" + _kindtag(f[3]) + ":" + f[2])
    else:
        r.hist["oracle"]["engine-rule (model only)"] += 1


def run(r):
    r.rule = ("exhaustive enumeration of (kind, len 0..6, start, stop in {omitted} U [-9,9] U {i64 boundaries}, step in "
              "{omitted} U [-4,4] U {i64 boundaries}) as context variables (+ literal forms); glue streams: full product of "
              "33 value specs (every ValueRepr / ObjectRepr / string representation / iterable flavour / maps / custom objects) x "
              "58 key specs (none, undefined, bools, I64/U64/I128/U128 at the i64/u64/i128/u128 boundaries, floats incl. NaN/inf/"
              "-0.0/2^63/fractions, strings, bytes, containers) in each of the three slice positions x 9 neighbour pairs under "
              "Lenient via the Expression API, sampled 1/16 (thorough 1/2) for the other 3 undefined modes and 8 entry points "
              "(template_from_str render, loader-backed render_captured_to, render_block, macro, for body, set, render_captured, "
              "literals); subscripts likewise (+ Value::get_item, get_item_by_index, dot syntax); attributes; long random "
              "sequences (len <= 2000, bounds near 0, +-len, +-2^31, +-2^63, +-2^64, +-2^127, 2^128-1); metamorphic relations; "
              "round 5: + 34 value specs for every other sequence-like object kind (std sets / linked lists, repetitions, reversed "
              "views, one custom object per Enumerator variant under ObjectRepr::Seq and ::Iterable, loose size hints); 140 derived "
              "values x 33 keys x 6 entries and x 600 slices, their items compared with Python's own expectation; relations "
              "reverse / first / last / length on every value; bounds produced by 48 template expressions (all singles x 8 kinds, "
              "4000 random triples); 6000 op sequences on one one-shot iterator; lengths 65535..100000 x 8 kinds x 15 slices; every "
              "conversion site of the regenerated table x 36 keys (each small integer in all its representations); "
              "session 4: + stream eo = 16 object flavours (every Enumerator variant x size-hint honesty) x ObjectRepr::Seq / ::Iterable x n 0..4 x "
              "(start, stop in {omitted} U [-5, 5]) x step in {omitted, -2, -1, 1, 2, 3, 0} exhaustively + 36 subscript keys (thorough: n <= 6, "
              "bounds [-7, 7], 11 steps incl. the i64 boundaries), the same box for 12 engine value kinds (std collections, repetitions, reversed views), "
              "+ 9 more object specs on the gs / gi / mr axes; "
              "a case is non-trivial when it is distinct and selects from a non-empty sequence")
    r.assumptions = ["sequences longer than 6 behave like the model predicts (proved for the model for every length)",
                     "bounds outside i64 are rejected by i64::try_from before slicing",
                     "one-shot iterators are subscripted with non-negative indexes only (an end-relative subscript has to count, i.e. consume, the iterator first; Python's generators are not subscriptable at all)"]
    r.assumptions[0] = ("sequences longer than the box behave like the model predicts: proved for the model for every length; "
                        "sampled on the engine up to length 2000 (long stream) against model and CPython")
    r.assumptions[1] = ("bounds that are not integers (floats, strings, undefined, ...) follow the engine's conversion rule "
                        "(integral floats act as integers, the rest is an InvalidOperation error) - Python raises TypeError for all of them")
    r.assumptions.append("map keys in the tie are booleans, integers in i64 and strings (the Ord/Eq of arbitrary Values is C07's)")
    r.assumptions.append("a HashSet of several items iterates in an order that changes from instance to instance: one-item sets only")
    r.assumptions.append("whether the lazy result of a slice over an iterator with inexact size hints knows its length is not modelled (items are)")
    tables = ["C09_ENUMERATOR_ARMS", "C09_INDEXABLE_OBJECTS", "C09_SLICE_DISPATCH", "C09_SLICE_PRELUDE", "C09_INT_CONVERSION", "C09_GET_ITEM", "C09_VM_SUBSCRIPT",
              "C09_KINDS", "C09_CONVERSION_SITES", "C09_REPEATED", "C09_OBJECT_IMPLS", "C09_REVERSE", "C09_MERGESEQ_FLATTEN"]
    r.regen_tables(tables)
    tbl = r.extra.get("tables") or {}
    idx_objs = tbl.get("C09_INDEXABLE_OBJECTS") or []
    for name, how in idx_objs:
        if how == "int" and name not in INDEXABLE_COVERED:
            r.broken.append(f"integer-indexable object `{name}` (impl Object with an integer-key get_value) is not covered by the C09 harness kinds")
    r.extra["indexable_objects_covered"] = {n: INDEXABLE_COVERED.get(n) for n, h in idx_objs if h == "int"}
    # every object implementation / enumerator variant / collection macro instance has its harness kind
    impls = tbl.get("C09_OBJECT_IMPLS") or {}
    covered = {}
    for name, rep, enum in impls.get("impls", []):
        if rep in ("Seq", "Iterable", "dynamic"):
            if name not in OBJECTS_COVERED:
                r.broken.append(f"sequence-like object `{name}` (ObjectRepr::{rep}) is sliced / subscripted by no C09 harness kind")
            covered[name] = OBJECTS_COVERED.get(name)
        else:
            if name not in MAPS_COVERED:
                r.broken.append(f"object `{name}` (ObjectRepr::{rep}) is not listed in the C09 map / plain table")
            covered[name] = "(" + rep + ") " + str(MAPS_COVERED.get(name))
    for v in impls.get("variants", []):
        if v not in EO_VARIANT.values():
            r.broken.append(f"Enumerator::{v} is built by no object flavour of the eo stream")
        if v not in ENUM_COVERED:
            r.broken.append(f"Enumerator::{v} is enumerated by no C09 harness object")
    for mac, ty, _ in impls.get("macros", []):
        if (mac, ty) not in MACROS_COVERED:
            r.broken.append(f"{mac}!({ty}) stamps out an object implementation no C09 harness kind covers")
    r.extra["object_impls_covered"] = covered
    # Value::reverse: which arms do not reverse (the model and the RV: expectations follow the source)
    REVERSE_FORWARD.clear()
    for variant, how in (tbl.get("C09_REVERSE") or []):
        if how == "forward":
            REVERSE_FORWARD.add(variant)
    if REVERSE_FORWARD - {"RevIter"}:
        r.broken.append(f"Value::reverse does not reverse the enumerator variants {sorted(REVERSE_FORWARD)}: only RevIter is modelled that way")
    sites = (tbl.get("C09_CONVERSION_SITES") or {}).get("sites", [])
    for site, fn, target in sites:
        if fn not in CV_NO_VALUE and site not in CV_TEMPLATES:
            r.broken.append(f"conversion site `{site}` ({fn} -> {target}) has no template in the C09 conversion stream")
    r.extra["conversion_sites"] = [list(x) for x in sites]
    # the lake build tree is shared with the checks of the other properties: when one of them rebuilds the
    # regenerated MJ.Gen.Tables at the same moment, object files vanish under this build (`no such file or
    # directory`, clang dying on a truncated .c file).  That is no statement about the proofs: build again.
    # (A failure that names a Lean source position is never retried.)
    import time as _t
    for attempt in range(4):
        nb = len(r.broken)
        if r.lean_prove("MJ.Props.C09", "MJ/Audit/C09.lean", extra_targets=["drive_c09"]):
            break
        new = r.broken[nb:]
        log = r.extra.get("lake_build_log", "")
        transient = (len(new) == 1 and new[0].endswith("failed: see log") and
                     re.search(r"(?i)no such file or directory|object file .* does not exist|failed to open|clang frontend command failed|signal 7|SIGBUS", log))
        if not transient or attempt == 3:
            break
        del r.broken[nb:]
        r.extra.setdefault("lake_build_retries", 0)
        r.extra["lake_build_retries"] += 1
        _t.sleep(15)
    exe = r.cargo_build("c09")
    if exe is None:
        return
    # ---- the parts of the case generator run side by side, each piped through the model driver
    rc, out, err = r.harness(exe, ["parts"])
    if rc != 0:
        r.broken.append(f"harness c09 exited {rc}: {err[-300:]}")
        return
    parts = out.split()
    have_driver = r.driver("drive_c09", "") is not None
    drv = os.path.join(LEAN, ".lake", "build", "bin", "drive_c09")
    cv_input, cv_index = [], []
    for n, (site, fn, target) in enumerate(sites):
        t = CV_TEMPLATES.get(site)
        if fn in CV_NO_VALUE or t is None:
            continue
        for key, cls in cv_keys():
            cv_input.append("cv %d %s %s" % (n, t.encode().hex(), key))
            cv_index.append((site, fn, target, key, cls))

    def run_part(name):
        if name == "cv":
            rc, out, err = r.harness(exe, ["run"], inp="\n".join(cv_input) + "\n")
        else:
            rc, out, err = r.harness(exe, ["part", name, r.tier])
        if rc != 0:
            return name, None, None, f"harness c09 part {name} exited {rc}: {err[-300:]}"
        lines = out.splitlines()
        model = None
        if have_driver and name != "cv":
            rc2, out2, err2 = sh([drv], inp=out, timeout=3000)
            if rc2 != 0:
                return name, lines, None, f"model driver drive_c09 exited {rc2} on part {name}: {err2[-300:]}"
            model = out2.splitlines()
            if len(model) != len(lines):
                return name, lines, None, f"model driver output does not line up with the harness cases of part {name}"
        return name, lines, model, None

    import time as _time
    t0 = _time.time()
    workers = max(2, min(16, os.cpu_count() or 4))
    with concurrent.futures.ThreadPoolExecutor(max_workers=workers) as pool:
        results = list(pool.map(run_part, parts + ["cv"]))
    r.extra.setdefault("timing_s", {})["harness+driver (parts in parallel)"] = round(_time.time() - t0, 1)
    r.extra["box_of_quantifier_exhaustive"] = True
    r.exhaustive = False  # the box of the quantifier is enumerated completely; the other streams are sampled
    t0 = _time.time()
    n_seen = 0
    for name, lines, model, problem in results:
        if problem:
            r.broken.append(problem)
        if lines is None:
            continue
        if name == "cv":
            cv_cases(r, lines, cv_index)
            continue
        for i, line in enumerate(lines):
            n_seen += 1
            case, impl = line.split("\t")
            f = case.split()
            if f[0] in ("gs", "gi", "ga", "long", "meta", "mg", "dv", "ds", "mr", "dr", "pb", "os", "huge", "eo"):
                glue_case(r, f, case, impl, model[i] if model is not None else None)
                continue
            nontrivial = f[1] not in ("undef", "none") and f[2] != "0" and not (f[0] == "chain" and impl in ("undef", "list:", "str:", "tuple:", "bytes:"))
            r.count(case, nontrivial)
            r.hist["stream"][f[0]] += 1
            r.hist["kind"][f[1]] += 1
            r.hist["result"][impl.split(":")[0]] += 1
            spec_py = py_expect(f)
            if model is not None:
                c2, m, spec = model[i].split("\t")
                if impl != m:
                    r.model_disagreement(case, impl, m)
                if spec != spec_py:
                    r.broken.append(f"Lean PySlice disagrees with CPython on {case}: {spec} vs {spec_py}")
            if impl != spec_py:
                if f[0] == "chain":
                    site = "panic" if impl == "panic" else "chain:" + f[1]
                else:
                    site = "panic" if impl == "panic" else ("slice:" if f[0] == "slice" else "index:") + f[1] + (":backward" if f[0] == "slice" and f[5].startswith("-") else ":forward")
                r.oracle_failure(case, f"engine returned {impl}, Python selects {spec_py}", site)
            if n_seen % 40000 == 0:
                r.sample({"case": case, "engine": impl, "python": spec_py})
    r.extra["timing_s"]["oracle + correspondence (python)"] = round(_time.time() - t0, 1)


def cv_cases(r, lines, cv_index):
    """representation independence at every conversion site: all values that hold the same integer
    (I64, U64, I128, U128, an integral float; true / false for 1 / 0) give the same output"""
    if len(lines) != len(cv_index):
        r.broken.append("conversion stream: results do not line up with the cases")
        return
    ref = {}
    for line, (site, fn, target, key, cls) in zip(lines, cv_index):
        impl = line.split("\t")[1]
        if key.startswith("i:") and cls.startswith("int:"):
            ref[(site, cls)] = impl
    for line, (site, fn, target, key, cls) in zip(lines, cv_index):
        case, impl = line.split("\t")       # `cv <row of the site table> <template, hex> <key>`: replayable as it is
        r.hist["stream"]["cv"] += 1
        r.hist["conversion_fn"][fn + ":" + target] += 1
        r.hist["conversion_key_class"][cls.split(":")[0] + ":" + _kindtag(key)] += 1
        r.count(case, cls.startswith("int:"))
        if impl == "panic":
            r.oracle_failure(case, "the engine panicked", "panic")
            continue
        if cls.startswith("int:"):
            want = ref.get((site, cls))
            if want is not None and impl != want:
                try:
                    shown, wshown = bytes.fromhex(impl[4:]).decode() if impl.startswith("out:") else impl, bytes.fromhex(want[4:]).decode() if want.startswith("out:") else want
                except ValueError:
                    shown, wshown = impl, want
                r.oracle_failure(case, f"conversion site {site} ({fn} -> {target}): with {key} it gives {shown[:100]!r}, with the same integer as an i64 {wshown[:100]!r}",
                                 "cv:" + site + ":" + _kindtag(key))


def replay(r, path):
    d = json.load(open(path))
    exe = r.cargo_build("c09")
    for case in [d.get("case")] + d.get("more_cases", []):
        if not case:
            continue
        rc, out, err = r.harness(exe, ["one"] + case.split())
        model = r.driver("drive_c09", out)
        print("engine:", out.strip())
        print("model/spec:", model[0] if model else None)
        f = case.split()
        if f[0] == "eo":
            items = eo_items(f[2], int(f[3]))
            print("python: the object holds", items, "->", ((items[slice(*[_ib(x) for x in f[5:8]])] if _ib(f[7]) != 0 else ZERO_STEP) if f[4] == "s"
                  else "(x[k] is list(x)[k]; a variant `none` object cannot be enumerated: engine rule)"))
        elif f[0] in ("mr", "dr", "pb", "os", "huge", "cv", "dv", "ds", "mg"):
            ident = {"dr": 2, "dv": 3, "ds": 2}.get(f[0])
            if ident is not None and f[ident] in DERIVED_EXPECT:
                print("python: the value holds", _py_items(DERIVED_EXPECT[f[ident]]), "(relations / selections on it: see derived_case / more_case)")
            else:
                print("python:", {"pb": py_pb, "huge": py_huge}.get(f[0], lambda f: "(see the oracle of this stream in lib/props/c09.py)")(f))
        elif f[0] in ("gs", "gi", "ga", "long", "meta"):
            want = {"gs": py_gs, "gi": py_gi, "long": py_long}.get(f[0], lambda f: None)(f)
            print("python:", want if want is not None else "(no Python semantics: engine rule, see model)")
            if f[0] == "meta" and out.strip():
                print("relation:", py_meta(f, out.strip().split("\t")[1]) or "holds")
        else:
            print("python:", py_expect(f))
    return 0
