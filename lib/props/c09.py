"""C09 — subscripts and slices follow Python's rules (DESIGN.md §3 C09)."""
import json, os, collections
from common import REPO

READY = True

META = {
    "technique": "Lean 4 proof (slice model = CPython PySlice_AdjustIndices for all lists/bounds/steps) + exhaustive correspondence on the quantifier's box",
    "category": "proof",
    "text": "Kernel-checked theorems: the Lean model of ops::slice (with every checked arithmetic operation modelled as a possible panic) returns exactly CPython's selection for every list shorter than 2^63 and every start/stop/step in i64, a zero step is the only error, no panic; subscripts likewise. The model is tied to /repo by running model, CPython-transcription and the real engine on the whole box of the property's quantifier (exhaustive), plus CPython itself as an independent witness for the spec.",
    "design_ref": "DESIGN.md §3 C09",
    "level_note": "Trusted: Lean kernel; hand transcription of ops.rs slice/get_offset_and_len/range_step_backwards and get_item_opt::index into MJ/Model/Slice.lean, validated exhaustively on the box (10 kinds x len 0..6 x 23 starts x 23 stops x 13 steps); i64 conversion of bounds and the str/bytes/tuple/list kind dispatch are covered by the correspondence only.",
}

KIND_CLASS = {"strplain": "str", "strsmall": "str", "strsafe": "str", "bytes": "bytes", "tuple": "tuple"}


def py_chain(kind, ln, suffix):
    """CPython itself evaluates the chain of slices / subscripts on list(range(len))"""
    cur = list(range(ln))
    import re
    ops = re.findall(r"\[([^\]]*)\]", suffix)
    for n, body in enumerate(ops):
        parts = body.split(":")
        if len(parts) == 1:
            if n != len(ops) - 1:
                return "bad-case"
            try:
                return "elem:%d" % cur[int(parts[0])]
            except IndexError:
                return "undef"
        a, b, c = (parts + [""])[:3]
        a, b, c = [None if x == "" else int(x) for x in (a, b, c)]
        if c == 0:
            return "err:InvalidOperation"
        cur = cur[slice(a, b, c)]
    return KIND_CLASS.get(kind, "list") + ":" + ",".join(map(str, cur))


def py_expect(f):
    """CPython as independent witness of the spec"""
    if f[0] == "chain":
        return py_chain(f[1], int(f[2]), f[3])
    if f[0] == "slice":
        kind, ln = f[1], int(f[2])
        a, b, c = [None if x == "_" else int(x) for x in f[3:6]]
        if c == 0:
            return "err:InvalidOperation"
        if kind in ("undef", "none"):
            return "list:"
        idx = list(range(ln))[slice(a, b, c)]
        return KIND_CLASS.get(kind, "list") + ":" + ",".join(map(str, idx))
    else:
        kind, ln, i = f[1], int(f[2]), int(f[3])
        if kind == "undef":
            return "err:UndefinedError"
        if kind == "none":
            return "undef"
        try:
            return "elem:%d" % list(range(ln))[i]
        except IndexError:
            return "undef"


def run(r):
    r.rule = ("exhaustive enumeration of (kind, len 0..6, start, stop in {omitted} U [-9,9] U {i64 boundaries}, step in "
              "{omitted} U [-4,4] U {i64 boundaries}) as context variables (+ literal forms); a case is non-trivial when "
              "it is distinct and selects from a non-empty sequence")
    r.assumptions = ["sequences longer than 6 behave like the model predicts (proved for the model for every length)",
                     "bounds outside i64 are rejected by i64::try_from before slicing",
                     "one-shot iterators are subscripted with non-negative indexes only (an end-relative subscript has to count, i.e. consume, the iterator first; Python's generators are not subscriptable at all)"]
    r.regen_tables()
    r.lean_prove("MJ.Props.C09", "MJ/Audit/C09.lean", extra_targets=["drive_c09"])
    exe = r.cargo_build("c09")
    if exe is None:
        return
    rc, out, err = r.harness(exe, ["gen", r.tier])
    if rc != 0:
        r.broken.append(f"harness c09 exited {rc}: {err[-300:]}")
        return
    lines = out.splitlines()
    model = r.driver("drive_c09", out)
    if model is None or len(model) != len(lines):
        r.broken.append("model driver output does not line up with the harness cases")
        model = None
    r.extra["box_of_quantifier_exhaustive"] = True
    r.exhaustive = False  # the box of the quantifier is enumerated completely; the chain stream (longer sequences, more kinds, slices of slices) is sampled
    for i, line in enumerate(lines):
        case, impl = line.split("\t")
        f = case.split()
        nontrivial = f[1] not in ("undef", "none") and f[2] != "0" and not (f[0] == "chain" and impl in ("undef", "list:", "str:", "tuple:", "bytes:"))
        r.count(case, nontrivial)
        r.hist["stream"][f[0]] += 1
        r.hist["kind"][f[1]] += 1
        r.hist["result"][impl.split(":")[0]] += 1
        spec_py = py_expect(f)
        if model is not None:
            c2, m, spec = model[i].split("\t")
            if impl != m:
                r.model_disagreement(case, impl, m)
            if spec != spec_py:
                r.broken.append(f"Lean PySlice disagrees with CPython on {case}: {spec} vs {spec_py}")
        if impl != spec_py:
            if f[0] == "chain":
                site = "panic" if impl == "panic" else "chain:" + f[1]
            else:
                site = "panic" if impl == "panic" else ("slice:" if f[0] == "slice" else "index:") + f[1] + (":backward" if f[0] == "slice" and f[5].startswith("-") else ":forward")
            r.oracle_failure(case, f"engine returned {impl}, Python selects {spec_py}", site)
        if i % 40000 == 0:
            r.sample({"case": case, "engine": impl, "python": spec_py})


def replay(r, path):
    d = json.load(open(path))
    exe = r.cargo_build("c09")
    for case in [d.get("case")] + d.get("more_cases", []):
        if not case:
            continue
        rc, out, err = r.harness(exe, ["one"] + case.split())
        model = r.driver("drive_c09", out)
        print("engine:", out.strip())
        print("model/spec:", model[0] if model else None)
        print("python:", py_expect(case.split()))
    return 0
