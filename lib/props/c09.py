"""C09 — subscripts and slices follow Python's rules (DESIGN.md §3 C09)."""
import json, os, collections
from common import REPO

READY = True

META = {
    "technique": "Lean 4 proof (slice model = CPython PySlice_AdjustIndices for all lists/bounds/steps) + exhaustive correspondence on the quantifier's box",
    "category": "proof",
    "text": "Kernel-checked theorems: the Lean model of ops::slice (with every checked arithmetic operation modelled as a possible panic) returns exactly CPython's selection for every list shorter than 2^63 and every start/stop/step in i64, a zero step is the only error, no panic; subscripts likewise. Value level (MJ.Sub): for strings in all three representations (UTF-8 bytes; the Chars cursor provably stands on character boundaries and yields the scalar values), bytes, tuples, sequences, sized/unsized/one-shot iterables and slice parts / subscripts that are Python integers of any representation and size (bool, i64, u64, i128, u128; beyond i64 clamped by slice_bound), ops::slice / get_item_opt return Python's selection of the same type; slice is total (error iff a part does not convert, in start/stop/step order, or the step is zero, or the value has no sliceable representation), never panics; integral floats act as integers, everything else is the documented conversion error / undefined; VM arms GetItem/GetAttr/Slice under the four undefined modes. Every dispatch/arm/message table the model interprets is regenerated from /repo. The model is tied to /repo by running model, CPython-transcription and the real engine on the whole box of the property's quantifier (exhaustive), the value-kind x key-kind product through 12 entry points and 4 undefined modes, long random sequences, and metamorphic relations (reverse/first/last/length/for-loop/slices of slices/literal vs run-time), plus CPython itself as an independent witness for the spec.",
    "design_ref": "DESIGN.md §3 C09",
    "level_note": "Trusted: Lean kernel; hand transcription of ops.rs slice/slice_bound/get_offset_and_len/range_step_backwards, value/mod.rs get_item_opt(+index)/get_item/get_item_by_index/get_attr and the VM arms GetItem/GetAttr/Slice into MJ/Model/{Slice,Subscript}.lean; every dispatch table, conversion arm list, error kind/message, length function and the handle_undefined table the model interprets is regenerated from /repo (lib/tables/c09.py) with shape checks. Validated exhaustively on the box (10 kinds x len 0..6 x 23 starts x 23 stops x 13 steps) and on the value-kind x key-kind product through 12 entry points x 4 undefined modes; long random sequences (len <= 2000, bounds near +-len, +-2^31, +-2^63, +-2^64, +-2^127) against the model and CPython.",
}

KIND_CLASS = {"strplain": "str", "strsmall": "str", "strsafe": "str", "bytes": "bytes", "tuple": "tuple"}


def py_chain(kind, ln, suffix):
    """CPython itself evaluates the chain of slices / subscripts on list(range(len))"""
    cur = list(range(ln))
    import re
    ops = re.findall(r"\[([^\]]*)\]", suffix)
    for n, body in enumerate(ops):
        parts = body.split(":")
        if len(parts) == 1:
            if n != len(ops) - 1:
                return "bad-case"
            try:
                return "elem:%d" % cur[int(parts[0])]
            except IndexError:
                return "undef"
        a, b, c = (parts + [""])[:3]
        a, b, c = [None if x == "" else int(x) for x in (a, b, c)]
        if c == 0:
            return "err:InvalidOperation"
        cur = cur[slice(a, b, c)]
    return KIND_CLASS.get(kind, "list") + ":" + ",".join(map(str, cur))


def py_expect(f):
    """CPython as independent witness of the spec"""
    if f[0] == "chain":
        return py_chain(f[1], int(f[2]), f[3])
    if f[0] == "slice":
        kind, ln = f[1], int(f[2])
        a, b, c = [None if x == "_" else int(x) for x in f[3:6]]
        if c == 0:
            return "err:InvalidOperation"
        if kind in ("undef", "none"):
            return "list:"
        idx = list(range(ln))[slice(a, b, c)]
        return KIND_CLASS.get(kind, "list") + ":" + ",".join(map(str, idx))
    else:
        kind, ln, i = f[1], int(f[2]), int(f[3])
        if kind == "undef":
            return "err:UndefinedError"
        if kind == "none":
            return "undef"
        try:
            return "elem:%d" % list(range(ln))[i]
        except IndexError:
            return "undef"


# ------------------------------------------------------------------------------------------
# glue streams: Python as the oracle wherever Python defines a result
def _fnv(cls, xs):
    h = 0xcbf29ce484222325
    for x in xs:
        h = ((h ^ x) * 0x100000001b3) & 0xFFFFFFFFFFFFFFFF
    return "%s#%d#%d#%s" % (cls, len(xs), h, ",".join(str(x) for x in xs[:6]))


def _long_chr(i):
    q = i // 4
    return chr([0x61 + q % 26, 0xe0 + q % 32, 0x4e00 + q % 1000, 0x1f600 + q % 64][i % 4])


def _long_obj(kind, n):
    if kind.startswith("str"):
        return "".join(_long_chr(i) for i in range(n))
    if kind == "bytes":
        return bytes((i * 7 + 3) % 256 for i in range(n))
    if kind == "tuple":
        return tuple(range(n))
    return list(range(n))


def _long_class(kind):
    return "str" if kind.startswith("str") else kind if kind in ("bytes", "tuple") else "list"


def _elems(obj):
    return [ord(c) for c in obj] if isinstance(obj, str) else list(obj)


def _ib(s):
    return None if s == "_" else int(s)


ZERO_STEP = "err:InvalidOperation|cannot slice by step size of 0"


def py_long(f):
    kind, n, a, b, c = f[1], int(f[2]), f[3], f[4], f[5]
    obj = _long_obj(kind, n)
    if c.startswith("i"):
        try:
            x = obj[int(c[1:])]
        except IndexError:
            return "undef"
        return ("chr:%d" % ord(x)) if isinstance(obj, str) else "elem:%d" % x
    if _ib(c) == 0:
        return ZERO_STEP
    return _fnv(_long_class(kind), _elems(obj[slice(_ib(a), _ib(b), _ib(c))]))


def _strip_class(d):
    return d.split("#", 1)[1] if "#" in d else d


def _unsized_result(kind, a, b, c):
    """does the engine's lazy result of slicing an iterable of unknown length lack a length?"""
    if kind != "iterunsized":
        return False
    a, b, c = _ib(a), _ib(b), _ib(c)
    if (c if c is not None else 1) <= 0 or (a is not None and a < 0) or (b is not None and b < 0):
        return False
    return not (b is not None and b <= (a or 0))   # take(0) knows its length


def py_meta(f, impl):
    """returns None if the relation holds, else a description"""
    rel, kind, n, a, b, c = f[1], f[2], int(f[3]), f[4], f[5], f[6]
    obj = _long_obj(kind, n)
    cls = _long_class(kind)
    if rel == "rev":
        lhs, rhs = impl.split("~~")
        want = _strip_class(_fnv(cls, _elems(obj[::-1])))
        if _strip_class(lhs) != want or _strip_class(rhs) != want:
            return "reverse filter / [::-1] / Python disagree: want " + want
        return None
    if rel in ("first", "last"):
        lhs, rhs = impl.split("~~")
        if n == 0:
            want = "undef"
        else:
            x = obj[0] if rel == "first" else obj[-1]
            want = _strip_class(_fnv("str", [ord(x)])) if isinstance(obj, str) else "elem:%d" % x
        if _strip_class(lhs) != want or _strip_class(rhs) != want:
            return "%s filter / subscript / Python disagree: want %s" % (rel, want)
        return None
    if rel == "len":
        if _ib(c) == 0:
            return None if impl == ZERO_STEP else "zero step must be the slice error"
        if _unsized_result(kind, a, b, c):
            return None if impl.startswith("err:InvalidOperation|cannot calculate length") else "length of a lazy result of unknown size"
        want = str(len(obj[slice(_ib(a), _ib(b), _ib(c))]))
        return None if impl == want else "length of the slice: Python says " + want
    if rel == "loop":
        if _ib(c) == 0:
            return None if impl == ZERO_STEP else "zero step must be the slice error"
        sel = obj[slice(_ib(a), _ib(b), _ib(c))]
        # a for loop over a string walks `chars()`, whose length is not known up front: no loop.length
        ln = "" if _unsized_result(kind, a, b, c) or isinstance(obj, str) else str(len(sel))
        show = (lambda x: x) if isinstance(obj, str) else (lambda x: str(x))
        if kind == "bytes":
            show = lambda x: str(x)
        want = "".join("%s:%d:%s," % (ln, i, show(x)) for i, x in enumerate(sel))
        return None if impl == want else "loop over the slice: Python says " + want[:80]
    if rel == "sss":
        if _ib(c) == 0:
            return None if impl == ZERO_STEP else "zero step must be the slice error"
        c2 = 1 if c in ("_", "0") else int(c)
        sel = obj[slice(_ib(a), _ib(b), _ib(c))][slice(_ib(b), _ib(a))][::c2]
        want = _fnv(cls, _elems(sel))
        return None if impl == want else "slice of slice of slice: Python says " + want
    if rel == "litv":
        if _ib(c) == 0:
            return None if impl == ZERO_STEP + "~~" + ZERO_STEP else "zero step must be the slice error"
        lhs, rhs = impl.split("~~")
        want = _fnv(cls, _elems(obj[slice(_ib(a), _ib(b), _ib(c))]))
        return None if lhs == want and rhs == want else "literal vs run-time container: Python says " + want
    if rel == "liti":
        lhs, rhs = impl.split("~~")
        try:
            x = obj[int(a)]
            want = ("chr:%d" % ord(x)) if isinstance(obj, str) else "elem:%d" % x
        except IndexError:
            want = "undef"
        return None if lhs == want and rhs == want else "literal vs run-time subscript: Python says " + want
    return "unknown relation"


def _spec_py(spec):
    """Python object for a value spec, or None if Python has no such sequence"""
    tag, _, arg = spec.partition(":")
    if tag in ("sn", "sm", "sa"):
        return bytes.fromhex(arg).decode("utf-8"), "str"
    if tag == "b":
        return bytes.fromhex(arg), "bytes"
    if tag == "P":
        return tuple(range(int(arg))), "tuple"
    if tag in ("L", "D", "A", "CS", "E", "R", "CI", "X", "O"):
        return list(range(int(arg))), "iter"
    return None


def _spec_int(spec, omitted_ok):
    """the Python integer a bound/key spec stands for: ints of every repr and bools; (ok, value)"""
    tag, _, arg = spec.partition(":")
    if spec in ("_", "Z") and omitted_ok:
        return True, None
    if tag in ("i", "u", "I", "W"):
        return True, int(arg)
    if spec == "T":
        return True, 1
    if spec == "F":
        return True, 0
    return False, None


def py_gs(f):
    """expected canonical result where Python defines one (classes without the sizedness flag)"""
    vs, a, b, c = f[3], f[4], f[5], f[6]
    o = _spec_py(vs)
    ia, ib, ic = _spec_int(a, True), _spec_int(b, True), _spec_int(c, True)
    if o is None or not (ia[0] and ib[0] and ic[0]):
        return None
    if f[1] == "X" and False:
        return None
    obj, cls = o
    if ic[1] == 0:
        return ZERO_STEP
    sel = obj[slice(ia[1], ib[1], ic[1])]
    if cls == "str":
        return "str:" + sel.encode("utf-8").hex()
    if cls == "bytes":
        return "bytes:" + sel.hex()
    return cls + ":" + ",".join(map(str, sel))


def py_gi(f):
    vs, k = f[3], f[4]
    o = _spec_py(vs)
    ik = _spec_int(k, False)
    if o is None or not ik[0]:
        return None
    obj, cls = o
    if vs.startswith("O:") and ik[1] < 0:
        return None     # Python's generators are not subscriptable; engine rule: undefined
    try:
        x = obj[ik[1]]
    except IndexError:
        return "undef"
    if cls == "str":
        return "chr:" + x.encode("utf-8").hex()
    if cls == "bytes":
        return "byte:%d" % x
    return "elem:%d" % x


def _kindtag(spec):
    return spec.partition(":")[0]


SEQLIKE = ("sequence", "iterator", "string")
# integer-indexable `impl Object` blocks of minijinja/src (table C09_INDEXABLE_OBJECTS) -> what in the
# harness subscripts a value of that type.  A new integer-indexable object must be added here
# (and to the harness) or the tie is broken.
INDEXABLE_COVERED = {
    "filters.rs:GroupTuple": "dv group / group_1 / group_list",
    "merge_object.rs:MergeSeq": "mg stream (all operand-length vectors) + dv chain_* / add_*",
    "merge_object.rs:MergeDict": "dv chain_maps / merge_ctx (forwards the key to its operands; engine rule)",
    "object.rs:$vec_type<T>": "kinds L, D (Vec, VecDeque) + dv list_* / batch / sort …",
    "object.rs:[T; N]": "kind A",
    "tuple.rs:Tuple": "kind P + dv items_pair / zip_pair / add_t_t",
}


def _key_int(spec):
    """Python index for a key spec: ints, bools, and (engine rule) integral floats"""
    ok, v = _spec_int(spec, False)
    if ok:
        return v
    if spec.startswith("f:"):
        import struct
        x = struct.unpack("<d", struct.pack("<Q", int(spec[2:])))[0]
        if x == x and abs(x) < 2**62 and x == int(x):
            return int(x)
    return None


def derived_case(r, f, case, impl):
    st = f[0]
    if st == "mg":
        lens = [int(x) for x in f[1].split(",") if x != ""]
        r.hist["mg_operands"][str(len(lens))] += 1
        r.hist["mg_empty_head"]["yes" if lens and lens[0] == 0 and sum(lens) > 0 else "no"] += 1
        r.count(case, sum(lens) > 0)
        i = _key_int(f[4])
        if i is None:
            return
        flat = list(range(sum(lens)))
        try:
            want = "elem:%d" % flat[i]
        except IndexError:
            want = "undef"
        if impl != want:
            r.oracle_failure(case, f"engine returned {impl}, Python's list(chain(...))[i] is {want}", "mg:" + f[3])
        return
    parts = impl.split("~~")
    if len(parts) != 4:
        r.oracle_failure(case, "malformed result " + impl[:80], "derived:malformed")
        return
    lhs, rhs, kind, mat = parts
    ident = f[3] if st == "dv" else f[2]
    r.hist["derived_kind"][kind.split("|")[0][:20]] += 1
    r.hist["derived_id"][ident] += 1
    r.count(case, not lhs.startswith("err") and lhs != "undef")
    if kind not in SEQLIKE or mat.startswith("err:"):
        r.hist["oracle"]["engine-rule (not a Python sequence)"] += 1
        return
    items = [] if mat == "" else mat.split(" ¦ ")
    if st == "dv":
        i = _key_int(f[4])
        if f[2] == "apiidx":
            i = int(f[4][2:])
        if i is None:
            # law only: x[k] == (x|list)[k]
            if lhs != rhs:
                r.oracle_failure(case, f"x[k] is {lhs[:80]} but (x|list)[k] is {rhs[:80]}", "dv:law:" + ident)
            return
        try:
            want = items[i]
        except IndexError:
            want = "undef"
        r.hist["oracle"]["python"] += 1
        if lhs != want or (rhs != want and f[2] != "apiidx"):
            r.oracle_failure(case, f"x[k] is {lhs[:80]}, (x|list)[k] is {rhs[:80]}, Python's list(x)[k] is {want[:80]}", "dv:" + ident + ":" + f[2])
    else:
        ia, ib, ic = _spec_int(f[3], True), _spec_int(f[4], True), _spec_int(f[5], True)
        if not (ia[0] and ib[0] and ic[0]):
            if lhs != rhs:
                r.oracle_failure(case, f"x[a:b:c] gives {lhs[:80]} but (x|list)[a:b:c] gives {rhs[:80]}", "ds:law:" + ident)
            return
        if ic[1] == 0:
            want = ZERO_STEP
        else:
            want = " ¦ ".join(items[slice(ia[1], ib[1], ic[1])])
        r.hist["oracle"]["python"] += 1
        if lhs != want or rhs != want:
            r.oracle_failure(case, f"x[a:b:c] gives {lhs[:80]}, (x|list)[a:b:c] gives {rhs[:80]}, Python selects {want[:80]}", "ds:" + ident)


def glue_case(r, f, case, impl, mline):
    st = f[0]
    r.hist["stream"][st] += 1
    m = None
    if mline is not None:
        parts = mline.split("\t")
        m = parts[1] if len(parts) > 1 else None
    if impl == "panic":
        r.oracle_failure(case, "the engine panicked", "panic")
    if st in ("dv", "ds"):
        derived_case(r, f, case, impl)
        return
    if st == "mg":
        if m is not None and impl != m:
            r.model_disagreement(case, impl, m)
        derived_case(r, f, case, impl)
        return
    if st == "meta":
        r.hist["meta_relation"][f[1]] += 1
        r.hist["kind"][f[2]] += 1
        r.count(case, f[3] != "0")
        bad = py_meta(f, impl)
        if bad:
            r.oracle_failure(case, f"engine returned {impl[:120]}; {bad}", "meta:" + f[1] + ":" + f[2])
        return
    if m is not None and impl != m:
        r.model_disagreement(case, impl, m)
    if st == "long":
        r.hist["kind"][f[1]] += 1
        r.hist["long_len_bucket"]["<50" if int(f[2]) < 50 else "<300" if int(f[2]) < 300 else "<=2000"] += 1
        for b in f[3:6]:
            v = None if b == "_" else int(b.lstrip("i"))
            r.hist["long_bound_magnitude"]["omitted" if v is None else "<=2^12" if abs(v) <= 4096 else "~2^31" if abs(v) < 2**40
                                           else "~2^63" if abs(v) < 2**63 + 8 else ">=2^64"] += 1
        r.count(case, int(f[2]) > 0)
        want = py_long(f)
        if impl != want:
            r.oracle_failure(case, f"engine returned {impl}, Python selects {want}", "long:" + f[1] + (":index" if f[5].startswith("i") else ":backward" if f[5].startswith("-") else ":forward"))
        return
    r.hist["mode"][f[1]] += 1
    r.hist["entry"][st + ":" + f[2]] += 1
    r.hist["value_kind"][_kindtag(f[3])] += 1
    for b in f[4:]:
        r.hist["key_kind"][_kindtag(b) if st != "ga" else "name"] += 1
    r.hist["result"][impl.split(":")[0].split("|")[0]] += 1
    r.count(case, not impl.startswith("err") and impl not in ("undef",))
    if st == "gs":
        want = py_gs(f)
        if want is None:
            r.hist["oracle"]["engine-rule (model only)"] += 1
            return
        if f[3] in ("U", "Z"):
            return
        r.hist["oracle"]["python"] += 1
        # a string is a string: whether a slice of a safe string stays safe is not Python's business
        got = impl.replace("iterS:", "iter:").replace("iterU:", "iter:").replace("safestr:", "str:")
        if got != want:
            r.oracle_failure(case, f"engine returned {impl}, Python selects {want}", "gs:" + _kindtag(f[3]) + ":" + f[2])
    elif st == "gi":
        want = py_gi(f)
        if want is None:
            r.hist["oracle"]["engine-rule (model only)"] += 1
            return
        r.hist["oracle"]["python"] += 1
        if impl != want:
            r.oracle_failure(case, f"engine returned {impl}, Python selects {want}", "gi:" + _kindtag(f[3]) + ":" + f[2])
    else:
        r.hist["oracle"]["engine-rule (model only)"] += 1


def run(r):
    r.rule = ("exhaustive enumeration of (kind, len 0..6, start, stop in {omitted} U [-9,9] U {i64 boundaries}, step in "
              "{omitted} U [-4,4] U {i64 boundaries}) as context variables (+ literal forms); glue streams: full product of "
              "33 value specs (every ValueRepr / ObjectRepr / string representation / iterable flavour / maps / custom objects) x "
              "58 key specs (none, undefined, bools, I64/U64/I128/U128 at the i64/u64/i128/u128 boundaries, floats incl. NaN/inf/"
              "-0.0/2^63/fractions, strings, bytes, containers) in each of the three slice positions x 9 neighbour pairs under "
              "Lenient via the Expression API, sampled 1/16 (thorough 1/2) for the other 3 undefined modes and 8 entry points "
              "(template_from_str render, loader-backed render_captured_to, render_block, macro, for body, set, render_captured, "
              "literals); subscripts likewise (+ Value::get_item, get_item_by_index, dot syntax); attributes; long random "
              "sequences (len <= 2000, bounds near 0, +-len, +-2^31, +-2^63, +-2^64, +-2^127, 2^128-1); metamorphic relations; "
              "a case is non-trivial when it is distinct and selects from a non-empty sequence")
    r.assumptions = ["sequences longer than 6 behave like the model predicts (proved for the model for every length)",
                     "bounds outside i64 are rejected by i64::try_from before slicing",
                     "one-shot iterators are subscripted with non-negative indexes only (an end-relative subscript has to count, i.e. consume, the iterator first; Python's generators are not subscriptable at all)"]
    r.assumptions[0] = ("sequences longer than the box behave like the model predicts: proved for the model for every length; "
                        "sampled on the engine up to length 2000 (long stream) against model and CPython")
    r.assumptions[1] = ("bounds that are not integers (floats, strings, undefined, ...) follow the engine's conversion rule "
                        "(integral floats act as integers, the rest is an InvalidOperation error) - Python raises TypeError for all of them")
    r.assumptions.append("map keys in the tie are booleans, integers in i64 and strings (the Ord/Eq of arbitrary Values is C07's)")
    r.regen_tables(["C09_INDEXABLE_OBJECTS", "C09_SLICE_DISPATCH", "C09_SLICE_PRELUDE", "C09_INT_CONVERSION", "C09_GET_ITEM", "C09_VM_SUBSCRIPT", "C09_KINDS"])
    idx_objs = (r.extra.get("tables") or {}).get("C09_INDEXABLE_OBJECTS") or []
    for name, how in idx_objs:
        if how == "int" and name not in INDEXABLE_COVERED:
            r.broken.append(f"integer-indexable object `{name}` (impl Object with an integer-key get_value) is not covered by the C09 harness kinds")
    r.extra["indexable_objects_covered"] = {n: INDEXABLE_COVERED.get(n) for n, h in idx_objs if h == "int"}
    r.lean_prove("MJ.Props.C09", "MJ/Audit/C09.lean", extra_targets=["drive_c09"])
    exe = r.cargo_build("c09")
    if exe is None:
        return
    rc, out, err = r.harness(exe, ["gen", r.tier])
    if rc != 0:
        r.broken.append(f"harness c09 exited {rc}: {err[-300:]}")
        return
    lines = out.splitlines()
    model = r.driver("drive_c09", out)
    if model is None or len(model) != len(lines):
        r.broken.append("model driver output does not line up with the harness cases")
        model = None
    r.extra["box_of_quantifier_exhaustive"] = True
    r.exhaustive = False  # the box of the quantifier is enumerated completely; the chain stream (longer sequences, more kinds, slices of slices) is sampled
    for i, line in enumerate(lines):
        case, impl = line.split("\t")
        f = case.split()
        if f[0] in ("gs", "gi", "ga", "long", "meta", "mg", "dv", "ds"):
            glue_case(r, f, case, impl, model[i] if model is not None else None)
            continue
        nontrivial = f[1] not in ("undef", "none") and f[2] != "0" and not (f[0] == "chain" and impl in ("undef", "list:", "str:", "tuple:", "bytes:"))
        r.count(case, nontrivial)
        r.hist["stream"][f[0]] += 1
        r.hist["kind"][f[1]] += 1
        r.hist["result"][impl.split(":")[0]] += 1
        spec_py = py_expect(f)
        if model is not None:
            c2, m, spec = model[i].split("\t")
            if impl != m:
                r.model_disagreement(case, impl, m)
            if spec != spec_py:
                r.broken.append(f"Lean PySlice disagrees with CPython on {case}: {spec} vs {spec_py}")
        if impl != spec_py:
            if f[0] == "chain":
                site = "panic" if impl == "panic" else "chain:" + f[1]
            else:
                site = "panic" if impl == "panic" else ("slice:" if f[0] == "slice" else "index:") + f[1] + (":backward" if f[0] == "slice" and f[5].startswith("-") else ":forward")
            r.oracle_failure(case, f"engine returned {impl}, Python selects {spec_py}", site)
        if i % 40000 == 0:
            r.sample({"case": case, "engine": impl, "python": spec_py})


def replay(r, path):
    d = json.load(open(path))
    exe = r.cargo_build("c09")
    for case in [d.get("case")] + d.get("more_cases", []):
        if not case:
            continue
        rc, out, err = r.harness(exe, ["one"] + case.split())
        model = r.driver("drive_c09", out)
        print("engine:", out.strip())
        print("model/spec:", model[0] if model else None)
        f = case.split()
        if f[0] in ("gs", "gi", "ga", "long", "meta"):
            want = {"gs": py_gs, "gi": py_gi, "long": py_long}.get(f[0], lambda f: None)(f)
            print("python:", want if want is not None else "(no Python semantics: engine rule, see model)")
            if f[0] == "meta" and out.strip():
                print("relation:", py_meta(f, out.strip().split("\t")[1]) or "holds")
        else:
            print("python:", py_expect(f))
    return 0
