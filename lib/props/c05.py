"""C05 — scoped constructs restore scope, capture and escape state on every path (DESIGN.md §3 C05)."""
import json, collections, re

READY = True

META = {
    "technique": "Lean 4 proof of a certificate checker for push/pop balance of instruction streams + translation validation: the verified checker runs on every real instruction stream (repo fixtures, exhaustive enumeration of nestings with break/continue/recursion) + reference-interpreter and depth-counter oracle on the real engine",
    "category": "proof",
    "text": "Kernel-checked theorems compile_has_cert and compiled_code_balanced: the model of the code generator (all scoped statement kinds, break/continue with the scope clean-up of fix 778ebf9, recursive loops, macros, call blocks, imports, arbitrary nesting) only produces instruction streams with an accepted certificate, so every run of the abstract VM on them is balanced; the model generator's output is compared with the real compiler's stream for every enumerated shape. Kernel-checked theorem checkCert_sound: if the verified checker accepts a certificate for an instruction stream, then from every region entry (pc 0, every macro body) EVERY reachable state of the abstract VM (all branches of conditional jumps and Iterate, any iteration count, any depth of loop(...) recursion) never pops a frame / capture / auto-escape entry the region did not push nor a frame of the wrong kind, and every exit (end of stream, Return) carries exactly the entry depths; corollary: frames, capture depth and auto-escape depth at a pc are path independent (text after a construct goes to the same output target whichever path was taken). The check compiles the repository's templates and an exhaustive enumeration of nestings of for/for-else/filtered for/recursive for/with/set-block/filter/autoescape/if/macro/call/block (+ completed sibling constructs) with break/continue/loop()/empty bodies at the innermost position with the REAL compiler, and runs the verified checker on every stream (main, blocks, macro bodies). with_auto_escape_restores (State::with_auto_escape, the one save/restore outside with_execution_state and the instruction pairs; inverted_restore_guard_leaks shows the model tells the guarded variant apart); state_writers_classified (EVERY assignment / mem::replace / swap / take of auto_escape, current_block, instructions, blocks, loaded_templates, ctx, the frame stack, depth, closure register and capture stack anywhere in the crate, regenerated from source, is a classed site), helper_restores_unconditional (each helper restores after the nested run at the run's own nesting depth with no return / early-return macro between), state_builtins_covered (every builtin with a State parameter is applied by the harness). include_statement_restores / include_noop_untouched: the whole perform_include (candidate loop, lookup errors, found template Ok/Err, nothing found + ignore missing) restores frames INCLUDING the closure attachment of the including frame; hoisted_take_closure_is_not_a_restore shows the model distinguishes the variant with take_closure in front of the loop. Table ties (regenerated from source every run, proved by decide): alphabet_covers_enum, other_arms_touch_nothing, mapped_arms_as_modelled (eval_impl arms vs the model's alphabet), codegen_arms_as_modelled (compile_stmt arms, start/end_scope placement, leave_scopes_of_innermost_loop vs the model generator), restore_order_as_modelled. nested_restores: in the model MJ/Model/Nested.lean of with_execution_state / eval_macro (Macro::call, State::call_macro) / call_block (State::render_block) / perform_super / perform_include, frames, recursion depth, instructions, auto-escape mode, current block, block table and loaded templates after the wrapper equal those before it on the Ok AND on the Err outcome of the nested evaluation (the caller's Output is untouched by macro calls and render_block, which write into their own Output). Dynamic oracle: every shape is rendered on the real engine in contexts taking different branches and compared with an independent reference interpreter (sentinel text + auto-escape probe + scope probe after every construct), and feature-guarded counters compare frame depth, capture depth, auto-escape mode and auto-escape stack at entry and normal exit of every eval_impl activation.",
    "design_ref": "DESIGN.md §3 C05, §2.3(c), §2.7",
    "level_note": "Proved: compile_has_cert / compiled_code_balanced — for every statement tree the parser's in_loop discipline accepts, the Lean model of compile_stmt (MJ/Model/BalGen.lean, jump targets computed from block sizes where the Rust back-patches) emits code + certificate accepted by the verified checker, hence balanced on every path; the model generator is tied to codegen.rs by comparing its output with the REAL instruction stream on every enumerated and sampled shape (equal modulo `other` instructions and jump targets renumbered accordingly; instruction-for-instruction equal on most), any difference is a model disagreement. Proved: soundness of checkCert for the abstract VM of MJ/Model/Bal.lean (hand model of the balance-relevant part of vm/mod.rs eval_impl: PushWith/PopFrame/PushLoop/Iterate/PushDidNotIterate/PopLoopFrame/BeginCapture/EndCapture/PushAutoEscape/PopAutoEscape/Jump*/FastRecurse/CallFunction-on-loop/Return/BuildMacro; operand stack not tracked). The theorem is about the model generator, not about codegen.rs itself: what ties them is the stream comparison on the enumerated box (depth <= 3 / 4 chains over 25 kinds + deeper samples) and, independently, translation validation of every real stream (fixtures included) by the verified checker. Expressions with internal jumps (and/or, inline if, chained comparisons, macro argument defaults) are in the generator model as `flat` blocks (jumps stay inside, state unchanged). Outside the generator model: the Rust back-patching mechanics (PendingBlock bookkeeping is replaced by size computation), spans/line tables. Trusted: harness token mapping of the Instruction enum (exhaustive match, breaks the build on a new instruction), the untrusted certificate inference only proposes (checkCert decides). Model assumptions: a loop object is only re-entered (CallFunction) while its loop is live in the calling activation's own frame stack — enforced by the engine since 08f57de (`is_active_loop`), passing `loop` into a macro and calling it there is an error and exercised as such; LoadBlocks' discard capture is popped by the end-of-stream logic and is not counted; nested evaluations (CallBlock, FastSuper, Include, macro calls) are separate activations whose own regions are certified and whose entry/exit depths are compared by the verif_hooks counters; the restore-on-error of the nested-evaluation wrappers is modelled separately (MJ/Model/Nested.lean, hand transcription; hypotheses on the nested body: it only pushes frames on top of / pops its own frames (what checkCert_sound gives), block stacks only grow by LoadBlocks) and exercised dynamically through error-swallowing Rust callbacks (try_call / try_block) with sentinel probes (root variable, with-variable, macro argument, escape mode, template name, current block) and the verif_hooks ExecSnapshot comparison (frames, depth, instructions, escape mode, current block, block table, loaded templates, per-frame closure attachment and loop recursion bookkeeping; NOT recorded because not scope: temps, fuel, the closure table's size, the macro context pool, the per-activation filter/test caches) around Macro::call, State::render_block, Include, CallBlock, FastSuper and (opt-in, on for the builtin leaf and every fourth shape) every ApplyFilter / PerformTest / CallFunction / CallMethod / CallObject on both outcomes; on the error path of a capturing super() / an instruction-driven CallBlock / Include the shared Output is left with open captures by design of the code (the error always propagates to the owner of that Output: a macro call, render_block or the top-level render, which drops it); a template that includes itself from inside a recursive loop and calls loop() outside that loop's text is outside the model (FastRecurse with no loop in the region is modelled as the error it is in every other situation); ",
}

BALANCE_FILES = ("vm/mod.rs", "vm/context.rs", "vm/state.rs", "vm/loop_object.rs", "vm/macro_object.rs", "output.rs",
                 "compiler/codegen.rs", "compiler/instructions.rs", "?")

ALLOWED_NOCOMPILE = ("block tags in macros are not allowed", "'break' must be placed inside a loop",
                     "'continue' must be placed inside a loop")


def run(r):
    depth = 4 if r.tier == "thorough" else 3
    r.rule = (f"every instruction stream (main, each block; macro bodies are regions inside the main stream) of: all "
              f"fixture templates of /repo (tests/inputs, refs, every *.html/*.j2 that compiles), 4 multi-template sets, "
              f"ALL chains of depth <= 3 (thorough: depth 4 over the 18 core kinds) over 29 construct kinds x 9 innermost leaves (text, empty body, break, "
              f"continue, loop(x), loop(x)|filter, run-time failure, failure in the iteration x == k, failing include) that are admissible, "
              f"plus a seeded sample of deeper chains; error recovery: macros, call-block callers and blocks invoked from "
              f"Rust functions (Value::call / State::render_block) that swallow the failure, with bodies failing after "
              f"opening with/for/capture/autoescape scopes, inside nested macro calls / includes and inside loops of the caller; closure write-through probe "
              f"(macro reading cv declared in front of EVERY construct, cv re-assigned behind it in the same frame, macro "
              f"called) on every exit path incl. includes that find nothing (ignore missing, single + list), lists with a "
              f"late hit, import / from-import, swallowed failures; leaf `bi`: all 29 builtins with a State parameter applied inside every construct under "
              f"none / html / custom initial modes, then the mode as a Rust function sees it, the escaping of a sentinel and the "
              f"safe-marking of a capture are observed; snapshots around every filter / test / function / method / object call; every shape additionally through a rotating entry "
              f"point (render_captured_to, render_captured + call_macro + render_block, template_from_named_str) and a "
              f"rotating environment configuration (chainable undefined, custom formatter, auto-escape callback = HTML, "
              f"auto-escape callback = custom mode with its formatter, "
              f"custom delimiters, debug off, loader-backed templates, no fuel); "
              f"dynamic: each shape rendered under all combinations of empty/non-empty iterable, both branches of "
              f"conditions, break/continue in first/later iteration; a case is non-trivial when its stream contains at "
              f"least one scope/capture/escape/loop instruction")
    r.assumptions = [
        "a loop object is only called while its loop is live in the calling activation's frame stack",
        "nested evaluations (blocks, super, include, macros) are separate activations: certified per stream and compared by the run-time depth counters",
        "an Output with open captures is only ever abandoned as a whole (errors propagate to the macro call / render_block / render that owns it)",
        "FastRecurse with no loop frame of the region on the stack is an error (true unless a template includes itself from inside its own recursive loop)",
        "what happens to text captured before a break/continue leaves the capture is unspecified (the engine drops it); only text outside such captures must appear",
    ]
    r.regen_tables(["C05_INSTRUCTIONS", "C05_VM_ARMS", "C05_CODEGEN_ARMS", "C05_HARNESS_OTHER", "C05_RESTORE_ORDER", "C05_HOOK_NOT_BRANCHES", "C05_STATE_WRITERS", "C05_HELPER_RESTORES", "C05_STATE_BUILTINS"])
    r.lean_prove("MJ.Props.C05", "MJ/Audit/C05.lean", extra_targets=["drive_c05"])
    exe = r.cargo_build("c05")
    if exe is None:
        return
    rc, out, err = r.harness(exe, ["gen", r.tier])
    if rc != 0:
        r.broken.append(f"harness c05 exited {rc}: {err[-300:]}")
        return
    dlines, rlines = [], []
    for line in out.splitlines():
        if line.startswith("D\t"):
            dlines.append(line)
        elif line.startswith("R\t"):
            rlines.append(line)
    if not dlines:
        r.broken.append("harness produced no instruction streams")
        return
    # the verified checker + model generator on every stream, on a few processes
    from concurrent.futures import ThreadPoolExecutor
    nproc = 4
    step = (len(dlines) + nproc - 1) // nproc
    parts = [dlines[i:i + step] for i in range(0, len(dlines), step)]
    r.driver("drive_c05", "")   # build once
    with ThreadPoolExecutor(max_workers=nproc) as ex:
        outs = list(ex.map(lambda part: r.driver("drive_c05", "\n".join(part) + "\n"), parts))
    verdicts = None if any(o is None for o in outs) else [l for o in outs for l in o]
    if verdicts is None or len(verdicts) != len(dlines):
        r.broken.append("checker driver output does not line up with the dumped streams")
        return
    r.exhaustive = True
    static_ok = collections.defaultdict(lambda: True)   # case -> all streams accepted
    n_streams = n_reject = n_gen_broken = 0
    for dl, vl in zip(dlines, verdicts):
        _, case, stream, cls, toks = dl.split("\t")
        v = vl.split("\t")
        if len(v) < 3 or v[0] != case or v[1] != stream:
            r.broken.append(f"driver line does not match stream {case}/{stream}: {vl[:120]}")
            continue
        verdict = v[2]
        n_streams += 1
        # model code generator (MJ/Model/BalGen.lean) run on the shape descriptor vs the real stream
        gm = re.search(r"gen=([A-Za-z-]+)", vl)
        g = gm.group(1) if gm else "missing"
        r.hist["model_generator_vs_real_stream"][g] += 1
        if g == "MISMATCH":
            r.model_disagreement(case + "/" + stream, "real stream (modulo `other`): " + toks[:300],
                                 "model generator compiles the shape to a different skeleton")
        elif g in ("CERT-REJECTED", "unknown-shape", "not-in-fragment", "missing"):
            n_gen_broken += 1
            if n_gen_broken <= 3:
                r.broken.append(f"model generator on {case}/{stream}: {g}")
        tl = toks.split(" ")
        nontrivial = any(t != "o" for t in tl)
        r.count(case + "/" + stream, nontrivial)
        r.hist["class"][cls] += 1
        r.hist["checker"][verdict] += 1
        r.hist["stream_kind"][stream.split(":")[0]] += 1
        for t in set(x.rstrip("0123456789") for x in tl):
            r.hist["opcodes_seen_in_streams"][t] += 1
        if verdict == "ok":
            if n_streams % 4000 == 1:
                r.sample({"case": case, "stream": stream, "checker": vl.split("\t", 3)[-1], "tokens": toks[:160]})
        elif verdict == "reject":
            n_reject += 1
            static_ok[case] = False
            site = "no-cert:" + (cls if cls not in ("fixture", "extra", "src") else case)
            r.oracle_failure(case, f"no certificate accepted for stream {stream}: {v[3] if len(v) > 3 else ''}", site)
        else:
            r.broken.append(f"stream {case}/{stream} could not be parsed by the checker driver ({verdict})")
    # dynamic results
    for rl in rlines:
        f = rl.split("\t")
        _, case, cls, ctx, res = f[0], f[1], f[2], f[3], "\t".join(f[4:])
        kind = res.split(":")[0]
        r.hist["dynamic"][kind] += 1
        me = re.search(r" entry=(\S+)", ctx)
        mc = re.search(r" cfg=(\S+)", ctx)
        r.hist["entry_point"][me.group(1) if me else "render"] += 1
        r.hist["env_config"][mc.group(1) if mc else "default"] += 1
        if kind in ("ok", "ok-error"):
            r.count(case + " @" + ctx, True)
            if r.evaluations % 9000 == 0:
                r.sample({"case": case, "ctx": ctx, "engine_vs_reference": res})
        elif kind == "nocompile":
            if cls not in ("fixture", "extra") and not any(a in res for a in ALLOWED_NOCOMPILE):
                r.broken.append(f"generated shape {case} unexpectedly does not compile: {res[:160]}")
            r.hist["nocompile_reason"][res[10:60]] += 1
        elif kind == "skip":
            r.hist["skipped"][res] += 1
        elif kind == "fail":
            what = res[5:]
            if what.startswith("panic") and "depth-mismatch" not in what:
                # a panic is this property's business when it happens where frames / captures /
                # escape entries are pushed and popped or where the pairs are emitted; a panic
                # anywhere else (filters, operators, constant folding, ...) is C01's
                loc = what.split("@", 1)[1].split(":")[0].split("|")[0] if "@" in what else "?"
                if not any(loc.startswith(f) for f in BALANCE_FILES):
                    r.hist["dynamic"]["panic-elsewhere(C01):" + loc] += 1
                    continue
            r.count(case + " @" + ctx, True)
            fk = ("panic@" + what.split("@", 1)[1].split(":")[0].split("|")[0] if "@" in what else "panic") if what.startswith("panic") else ("nested-not-restored" if "nested-not-restored" in what else "depth-mismatch" if "depth-mismatch" in what else
                 ("output" if what.startswith("output") else what.split(":")[0].split("[")[0]))
            site = f"dyn:{cls if cls not in ('fixture', 'extra') else case}:{fk}"
            r.oracle_failure(f"{case} @{ctx}", f"engine vs reference/counters: {what[:400]}", site)
            if static_ok[case] and (fk.startswith("panic") or fk == "depth-mismatch") and cls not in ("fixture", "extra"):
                # the verified checker accepted every stream of this template, yet the engine's own
                # depth counters / a panic say it is unbalanced: the model misrepresents the VM
                r.model_disagreement(f"{case} @{ctx}", what[:200], "certificate accepted for all streams")
        else:
            r.broken.append(f"unknown harness result {res[:80]} for {case}")
    r.extra["streams_checked"] = n_streams
    r.extra["streams_rejected"] = n_reject
    r.extra["enumeration_depth"] = depth
    r.extra["stage"] = ("compile_has_cert / compiled_code_balanced proved for the FULL statement fragment (no staging): "
                        "if/elif/else, for (else, recursive, filtered as accumulation loop + loop), with, set-/filter-block, "
                        "autoescape, macro, call block, import/from-import, break, continue, loop() recursion, block "
                        "references, any nesting; expressions with internal jumps and macro argument defaults as `flat` blocks")
    if r.hist["checker"]["ok"] == 0:
        r.broken.append("the checker accepted no stream at all")


def replay(r, path):
    d = json.load(open(path))
    exe = r.cargo_build("c05")
    for case in [d.get("case")] + d.get("more_cases", []):
        if not case:
            continue
        shape = case.split(" @")[0]
        if shape.startswith("file:") or shape.startswith("extra:"):
            rc, out, err = r.harness(exe, ["gen", "quick"])
            out = "\n".join(l for l in out.splitlines() if l.split("\t")[1:2] == [shape] or l.split("\t")[1].startswith(shape + "/"))
        else:
            rc, out, err = r.harness(exe, ["one", shape])
            print(err)
        print(out)
        dl = [l for l in out.splitlines() if l.startswith("D\t")]
        if dl:
            for v in r.driver("drive_c05", "\n".join(dl) + "\n") or []:
                print("checker:", v)
    return 0
