"""C05 — scoped constructs restore scope, capture and escape state on every path (DESIGN.md §3 C05)."""
import json, collections, re

READY = True

META = {
    "technique": "Lean 4 proof of a certificate checker for push/pop balance of instruction streams + translation validation: the verified checker runs on every real instruction stream (repo fixtures, exhaustive enumeration of nestings with break/continue/recursion) + a second Lean machine for the operand stack and the recursion-base bookkeeping of loop(...) calls, proved paired with the loop frames and run along the operand-stack heights observed on the real engine + reference-interpreter, depth-counter, execution-state-snapshot oracles on the real engine incl. failure injected at every instruction position (fuel) and every frame-pushing position (recursion limit), loop controls and loop recursion at positions the compiler has to refuse, run-twice self-comparison, every block through super() + per-arm push/pop table of eval_impl regenerated and proved equal to what the machine's step does",
    "category": "proof",
    "text": "Kernel-checked theorems compile_has_cert and compiled_code_balanced: the model of the code generator (all scoped statement kinds, break/continue with the scope clean-up of fix 778ebf9, recursive loops, macros, call blocks, imports, arbitrary nesting) only produces instruction streams with an accepted certificate, so every run of the abstract VM on them is balanced; the model generator's output is compared with the real compiler's stream for every enumerated shape. Kernel-checked theorem checkCert_sound: if the verified checker accepts a certificate for an instruction stream, then from every region entry (pc 0, every macro body) EVERY reachable state of the abstract VM (all branches of conditional jumps and Iterate, any iteration count, any depth of loop(...) recursion) never pops a frame / capture / auto-escape entry the region did not push nor a frame of the wrong kind, and every exit (end of stream, Return) carries exactly the entry depths; corollary: frames, capture depth and auto-escape depth at a pc are path independent (text after a construct goes to the same output target whichever path was taken). The check compiles the repository's templates and an exhaustive enumeration of nestings of for/for-else/filtered for/recursive for/with/set-block/filter/autoescape/if/macro/call/block (+ completed sibling constructs) with break/continue/loop()/empty bodies at the innermost position with the REAL compiler, and runs the verified checker on every stream (main, blocks, macro bodies). with_auto_escape_restores (State::with_auto_escape, the one save/restore outside with_execution_state and the instruction pairs; inverted_restore_guard_leaks shows the model tells the guarded variant apart); state_writers_classified (EVERY assignment / mem::replace / swap / take of auto_escape, current_block, instructions, blocks, loaded_templates, ctx, the frame stack, depth, closure register and capture stack anywhere in the crate, regenerated from source, is a classed site), helper_restores_unconditional (each helper restores after the nested run at the run's own nesting depth with no return / early-return macro between), state_builtins_covered (every builtin with a State parameter is applied by the harness). include_statement_restores / include_noop_untouched: the whole perform_include (candidate loop, lookup errors, found template Ok/Err, nothing found + ignore missing) restores frames INCLUDING the closure attachment of the including frame; hoisted_take_closure_is_not_a_restore shows the model distinguishes the variant with take_closure in front of the loop. Table ties (regenerated from source every run, proved by decide): alphabet_covers_enum, other_arms_touch_nothing, mapped_arms_as_modelled (eval_impl arms vs the model's alphabet), codegen_arms_as_modelled (compile_stmt arms, start/end_scope placement, leave_scopes_of_innermost_loop vs the model generator), restore_order_as_modelled. nested_restores: in the model MJ/Model/Nested.lean of with_execution_state / eval_macro (Macro::call, State::call_macro) / call_block (State::render_block) / perform_super / perform_include, frames, recursion depth, instructions, auto-escape mode, current block, block table and loaded templates after the wrapper equal those before it on the Ok AND on the Err outcome of the nested evaluation (the caller's Output is untouched by macro calls and render_block, which write into their own Output). OPERAND STACK ACROSS loop(...) RECURSION (new): recursion_bases_paired / certified_recursion_bases_paired — in the machine MJ/Model/Ops.lean (one activation of eval_impl: operand-stack height with the effect of every instruction, frames, next_loop_recursion_jump and loop_recursion_bases as in the engine, ghost: the base each loop frame's own PushLoop recorded) every reachable state of every stream whose projection has an accepted certificate has loop_recursion_bases equal to the bases of the live loop frames, innermost first, and a frame has a base iff it carries a recursion return: pushes and pops are paired with the loop frames for the captured (CallFunction) and the fast (FastRecurse) entry alike, under any nesting, on every path; the frame-discipline hypothesis is discharged by checkCert_sound through a proved simulation of the two machines (MJ/Proofs/OpsBal.lean: sim_reach). popLoopFrame_truncates_to_own_base / certified_recursion_return: the PopLoopFrame of a recursion level truncates exactly to the base the PushLoop of the same frame recorded (only successor); pushLoop_records_height_under_argument: that base is the height under the call's argument; recursion_restores_operands: a level that stays above its base hands back exactly base (+1 captured value). capturedOnly_leaks_else_flag: the model tells the variant apart that only records a base for the captured form (the else flag of the level is left under the call's result). recursion_bases_sites_as_modelled: every statement of eval_impl / push_loop that touches loop_recursion_bases, next_loop_recursion_jump, recursion_jump, current_recursion_jump or truncates the operand stack, with its guarding conditions, regenerated from source (push under recursion_jump.is_some(), pop under the frame's current_recursion_jump being Some). FAILURE ANYWHERE (new): certified_run_keeps_callers_stacks — the abstract machine started on top of arbitrary caller stacks (with frames, loop frames of other streams, open captures, escape entries): for a certified stream, in every reachable state, i.e. wherever a failing instruction stops a nested evaluation, the caller's frames are underneath untouched and in order, at least its captures / escape entries are open, the next instruction pops none of them, and a normal exit leaves exactly the caller's stacks (frame rule step_lift / reach_lift) — the hypotheses FramesOnTop / BalancedOnOk of nested_restores for every program counter. BACK-PATCHING (new): backpatching_generator_eq / backpatched_code_balanced — the model of CodeGenerator written the way codegen.rs is (add appends, placeholder targets, pending_block stack with Branch / Loop{iter_instr, jump_instrs} / Scope, end_condition / end_for_loop / compile_macro_expression write the targets afterwards, break registers with the innermost pending loop, continue reads its iter_instr, leave_scopes_of_innermost_loop walks the stack; MJ/Model/BalPatch.lean) emits for EVERY statement tree exactly the instruction list of the size-computing generator and leaves pending_block empty; backpatch_sites_as_modelled ties its primitives to codegen.rs (landmark sequences regenerated from source); drive_c05 executes the back-patching generator on every shape and compares it with the real stream. FULL STATEMENT (session 4): C05_full E (for all accepted templates, all paths from every region entry: nothing popped that the region did not push, exits at entry stacks; same pc => same frames / capture depth / escape depth; a nested run on top of ANY caller stacks keeps them wherever it stops; NestedRestores) and C05_main: C05_full from two named hypotheses about the real code, h_parser (the in_loop discipline, validated by the nocompile stream) and h_codegen (codegen.rs emits what MJ.BalPatch.gen emits, validated by the stream comparison and tied by codegen_arms_as_modelled / backpatch_sites_as_modelled); C05_main_validated: the same conclusion for every stream the verified checker accepted at run time. vm_arm_effects_as_modelled (session 4): table C05_VM_EFFECTS = the count of EVERY push_frame / pop_frame / begin_capture / end_capture / auto_escape_stack.push|pop / loop_recursion_bases.push|pop call in every arm of eval_impl (push_loop inlined, recurse_loop! as a row of its own with its `if $capture`, the end-of-stream logic, the prologue), regenerated from vm/mod.rs on every run, equals what one step of MJ.Ops.step pushes / pops at most on each of its four stacks, MEASURED by executing the machine on probe states (MJ/Model/OpsArms.lean), for all 67 arms: an arm that gains or loses one breaks the theorem; LoadBlocks' discard capture is paired with the only end_capture of the end-of-stream logic. EXPRESSIONS (session 4): expression_code_is_flat — the code MJ.BalExpr.gen emits for every expression tree (and / or, inline if, chained comparisons, captured loop(x) calls, any nesting) is a `flat` block of the statement model. EXTENDS (session 4): extends_pairs_with_end_of_stream — in the model MJ/Model/Extends.lean of the LoadBlocks arm and of the end-of-stream logic (entries of the capture stack tagged with who pushed them, parent_instructions), a LoadBlocks at relative capture depth 0 followed by balanced capture events reaches the end of the stream with its own Discard entry on top, the one end_capture there pops exactly it and the template's capture stack is what it found; second_extends_fails; extends_inside_capture_mispairs: the path the hypothesis excludes and the code does not ({% set x %}{% extends %}{% endset %}: depth restored, pairing not — observation, see level_note). New dynamic streams (session 4): (5) NOT-ENCLOSED: break / continue / loop(x) / loop(x)|f leaves are generated at EVERY position of every chain, also where no loop (no recursive loop of the same stream) encloses them — across macro / call / block bodies, in else branches, outside any loop: the compiler has to refuse the template, or the code it emits is held to the property like any other (streams to the verified checker, one render that must not panic, leave an activation with other depths, or spin until the fuel is gone); (6) REPEAT: every shape of depth <= 2 and every fourth other shape is run as the body of `{% for rep in reps %}` with one and with two items, under the default recursion limit and (shapes with nested evaluations) under limits 7 / 10 / 14 / 19 / 25: the second run must print the same text again or fail where the first failed — the engine compared with itself, no reference involved: catches whatever a construct leaves behind that changes behaviour (depth budget, pooled macro contexts, block table, escape mode, frames, locals of a loop iteration via the probe `rl`); (7) entry point extends+super: every shape also as the PARENT of a generated child that overrides each of its blocks by ⟦{{ super() }}⟧ / ⟦{{ super()|safe }}⟧: main stream behind LoadBlocks and the end-of-stream switch, every block body through perform_super (statement and captured form), failures inside them through its error path with the ExecSnapshot comparison at FastSuper / render_block; the `extends` statement of the child sits at the top level and — rotating with the shape, all seven for chains of length <= 1 — inside a set-block / filter block / with / for / if / autoescape of the child: the renders must agree (the child's own output is discarded wherever the statement sits, the parent's output has to reach the real output; seeded C05-8 needs exactly this). The included child (inc.html) and the imported module (lib.txt) of the kinds seqI / seqM / seqP themselves EXTEND lexically inside a set-block resp. an if + filter block, so that at every position of every chain and through every entry point the crossed path (the block's EndCapture pops LoadBlocks' discard entry, the block's own capture is what the parent switch pops) runs in an included child and in an imported module, followed by text of the includer that has to arrive. end_of_stream_pops_unconditionally: the one end_capture of the end-of-stream logic with the conditions it is under, regenerated (none). extends_anywhere_restores_callers_captures: the LoadBlocks / parent-switch pair as part of the balance of a whole stream, crossed pairing allowed — for any stream whose capture events never reach below its entry, contain one LoadBlocks at ANY capture depth and end one entry above the entry depth, the unconditional pop of the end-of-stream logic removes exactly the one entry that is left (the discard entry or, crossed, the buffer of the block around the extends) and the parent's instructions start on exactly the caller's capture stack. Dynamic oracle: every shape is rendered on the real engine in contexts taking different branches and compared with an independent reference interpreter (sentinel text + auto-escape probe + scope probe after every construct), and feature-guarded counters compare frame depth, capture depth, auto-escape mode and auto-escape stack at entry and normal exit of every eval_impl activation. New dynamic streams: (1) shapes with a recursive loop WITH an else block (forre) and four more recursion leaves — loop(x) inside an expression with a waiting operand (string concatenation; call argument + list literal under construction), and the two mixed forms where even / odd recursion depths alternate between the captured call with a waiting operand and the {{ loop(x) }} fast path (depth 3-4 trees) — compared with the reference interpreter (sentinel operands p…q show up in the output when a leaked flag is consumed in their place); (2) for every shape with a recursion leaf and every 16th other shape the verif_hooks::opstack hook records (pc, operand-stack height) in front of every instruction of every activation; drive_c05 runs MJ.Ops.step along every distinct trace: any transition the engine makes that the machine does not have is reported (at a recursion return: oracle failure = the level did not truncate to its own base; elsewhere: the effect table is not the engine's), and the machine checks on the way that every with / capture / autoescape / loop closes at the operand height it was opened at and that no recursion level ends below its base; the stream's projection is certified by the verified checker in the same run (hypothesis of certified_recursion_bases_paired) and must equal the balance dump of the same stream; (3) failure at every instruction position: every 96th (thorough: 48th) shape with a nested evaluation is rendered with 1, 2, 3, … units of fuel, so that the run stops in front of every instruction in turn (inside macro bodies, call blocks, blocks, includes, imports); every nested evaluation the error passes through must restore the ExecSnapshot, every finished activation its depths; (4) failure at every frame-pushing position: the same shapes under recursion limits 1…48 (push_frame / incr_depth give back what they took).",
    "design_ref": "DESIGN.md §3 C05, §2.3(c), §2.7",
    "level_note": "Proved: compile_has_cert / compiled_code_balanced — for every statement tree the parser's in_loop discipline accepts, the Lean model of compile_stmt (MJ/Model/BalGen.lean, jump targets computed from block sizes where the Rust back-patches) emits code + certificate accepted by the verified checker, hence balanced on every path; the model generator is tied to codegen.rs by comparing its output with the REAL instruction stream on every enumerated and sampled shape (equal modulo `other` instructions and jump targets renumbered accordingly; instruction-for-instruction equal on most), any difference is a model disagreement. Proved: soundness of checkCert for the abstract VM of MJ/Model/Bal.lean (hand model of the balance-relevant part of vm/mod.rs eval_impl: PushWith/PopFrame/PushLoop/Iterate/PushDidNotIterate/PopLoopFrame/BeginCapture/EndCapture/PushAutoEscape/PopAutoEscape/Jump*/FastRecurse/CallFunction-on-loop/Return/BuildMacro; operand stack not tracked). The theorem is about the model generator, not about codegen.rs itself: what ties them is the stream comparison on the enumerated box (depth <= 3 / 4 chains over 25 kinds + deeper samples) and, independently, translation validation of every real stream (fixtures included) by the verified checker. Expressions with internal jumps (and/or, inline if, chained comparisons, macro argument defaults) are in the generator model as `flat` blocks (jumps stay inside, state unchanged); expression_code_is_flat proves that the expression generator model MJ.BalExpr.gen only produces such blocks. MOVED FROM VALIDATED TO PROVED in this round: (a) the pairing of loop_recursion_bases with the loop frames and the truncate-to-own-base of every recursion return (was: not modelled at all, operand stack 'not tracked'); (b) FramesOnTop / BalancedOnOk of a nested run of a certified stream that fails at ANY program counter (was: prose 'what checkCert_sound gives', now certified_run_keeps_callers_stacks on absolute stacks); (c) the PendingBlock back-patching mechanics (was: outside the model, replaced by size computation; now a model of the mechanism proved equal to the size-computing generator for every statement tree, ok or not). MOVED FROM VALIDATED TO PROVED in session 3/4: (d) the statement itself: C05_full E over an explicit Engine (templates, parser's statement tree, emitted stream) and C05_main with the two named hypotheses h_parser / h_codegen — before, the gap between compile_has_cert and the property was prose; C05_main_validated covers every stream the checker accepted at run time; (e) the tie of the abstract VM to eval_impl: was four booleans per arm (mentions frames / captures / escape stack / pc), now vm_arm_effects_as_modelled: the exact number of push_frame / pop_frame / begin_capture / end_capture / auto_escape_stack push|pop / loop_recursion_bases push|pop calls of EVERY arm (67), of recurse_loop!, of the end-of-stream logic and of the prologue, regenerated from vm/mod.rs, equals what MJ.Ops.step does on each of its stacks, measured by executing the machine (an arm that gains or loses one breaks the proof); (f) LoadBlocks' discard capture and the end-of-stream logic: was 'popped by the end-of-stream logic and not counted', now the model MJ/Model/Extends.lean with extends_pairs_with_end_of_stream (extends at relative capture depth 0) and, after seeded C05-8, extends_anywhere_restores_callers_captures (one LoadBlocks at ANY depth, crossed with set / filter blocks: net depth AND what the final pop removes; hypothesis `bal false 0 es = some (true, 1)` = the stream never pops below its entry and ends one entry up when LoadBlocks counts as an opening instruction — what the certificate of the stream says, the balance machine itself still has LoadBlocks as `other`: the two models are composed at the level of capture events, drive_c05 does not evaluate `bal` on the real streams), tied by the LoadBlocks / end-of-stream rows of C05_VM_EFFECTS and by end_of_stream_pops_unconditionally (the guard list of the one end_capture of the parent switch). THOROUGH TIER NOT VERIFIED IN SESSION 4: one `--tier thorough` run was started at load average ~120 and stopped after 37 min in the harness stage (35 CPU-minutes; the quick tier's harness stage is 3 CPU-minutes) to keep the deadline; the thorough tier has to be re-timed by the coordinator; if it is over budget, throttle the two new streams for that tier only (NOT-ENCLOSED positions for chains up to length 3, REPEAT on every 16th chain of length >= 4): a two-line change in do_shape_n / enumerate that was prepared but not committed because the last quick run of the session timed out in the harness stage on a stalled machine (TimeoutExpired after 3000 s, 33 min of system time) and could not confirm it. NOT DONE, with reasons: (g) static operand heights for every statement kind: a certificate of constant heights per pc does not exist for the counted segments (`for … if` accumulates the passing items under a run-time counter and BuildList(None) / *args calls pop a run-time count: the height at the Iterate of the accumulation loop depends on the iteration), it would need symbolic heights (base + number of accumulated items) in checker and proof; stays validated by the replay of every traced run on MJ.Ops.step (closesAt / returnsAbove) and by m01 of own_mutants (EndCapture without DiscardTop in the break clean-up: caught by that replay); (h) expression-level jumps: PARTLY MOVED — expression_code_is_flat: the model MJ/Model/BalExpr.lean of the four places where compile_expr emits jumps (and / or, inline if, chained comparison with its clean-up, calls that may be a captured loop(x); any nesting; targets as the back-patching leaves them, computed from sizes like MJ.BalGen does for statements) only emits `flat` blocks, so compile_has_cert covers statement trees whose expressions are GENERATED, not only assumed flat; NOT done: the PendingBlock::ScBool mechanics themselves (start_sc_bool / sc_bool / end_sc_bool as state-passing back-patching, the way MJ.BalPatch does it for statements) and a stream comparison per expression — for the REAL streams nothing is assumed anyway (the verified checker follows every jump of every real stream, expressions included); validated by the stream comparison of the statement skeletons (kind ifa: and / or / chained comparison / inline if in every chain) and the start_if / end_if landmarks of compile_macro_expression in backpatch_sites_as_modelled. OBSERVATION (not a failing input of this check, not recorded as a finding; since wave 12 exercised on every shape by the extends+super entry point, whose oracle is only that the parent's output arrives): `{% extends %}` inside a set / filter block compiles; the block's EndCapture then pops LoadBlocks' discard entry (the variable is undefined) and the end-of-stream logic pops the block's buffer — capture depth restored, pairing not (extends_inside_capture_mispairs); everything behind extends is discarded anyway, the one observable is the variable's value inside a parent block. Still only validated: that a construct closes at the operand height it was opened at for constructs other than loop(...) levels (checked by the Ops machine on every replayed trace, not proved: statements start at level-relative height 0 and C01's no_underflow covers underflow within a level, the counted segments of `for … if` / *args make exact static heights a C01 matter); the operand effect table of the harness (op_tok, exhaustive match) is validated by the replay itself. Outside the generator model: spans/line tables, the back-patching inside expressions (ScBool, inline if: `flat` blocks). Trusted: harness token mapping of the Instruction enum (exhaustive match, breaks the build on a new instruction), the untrusted certificate inference only proposes (checkCert decides). Model assumptions: a loop object is only re-entered (CallFunction) while its loop is live in the calling activation's own frame stack — enforced by the engine since 08f57de (`is_active_loop`), passing `loop` into a macro and calling it there is an error and exercised as such; LoadBlocks' discard capture is not counted by the balance machine (modelled separately: MJ/Model/Extends.lean); nested evaluations (CallBlock, FastSuper, Include, macro calls) are separate activations whose own regions are certified and whose entry/exit depths are compared by the verif_hooks counters; the restore-on-error of the nested-evaluation wrappers is modelled separately (MJ/Model/Nested.lean, hand transcription; hypotheses on the nested body: it only pushes frames on top of / pops its own frames (what checkCert_sound gives), block stacks only grow by LoadBlocks) and exercised dynamically through error-swallowing Rust callbacks (try_call / try_block) with sentinel probes (root variable, with-variable, macro argument, escape mode, template name, current block) and the verif_hooks ExecSnapshot comparison (frames, depth, instructions, escape mode, current block, block table, loaded templates, per-frame closure attachment and loop recursion bookkeeping; NOT recorded because not scope: temps, fuel, the closure table's size, the macro context pool, the per-activation filter/test caches) around Macro::call, State::render_block, Include, CallBlock, FastSuper and (opt-in, on for the builtin leaf and every fourth shape) every ApplyFilter / PerformTest / CallFunction / CallMethod / CallObject on both outcomes; on the error path of a capturing super() / an instruction-driven CallBlock / Include the shared Output is left with open captures by design of the code (the error always propagates to the owner of that Output: a macro call, render_block or the top-level render, which drops it); a template that includes itself from inside a recursive loop and calls loop() outside that loop's text is outside both machines (FastRecurse with no loop in the region is modelled as the error it is in every other situation; the engine re-enters the includer's loop: exercised as extra:self-include-recursion with the engine's own counters and output as oracle); MJ.Ops: an instruction that would panic on the operand stack or fails has no successor (the run ends), PopFrame pops whatever is on top as the engine does (that it only meets with-frames is the proved consequence of the certificate); ",
}

BALANCE_FILES = ("vm/mod.rs", "vm/context.rs", "vm/state.rs", "vm/loop_object.rs", "vm/macro_object.rs", "output.rs",
                 "compiler/codegen.rs", "compiler/instructions.rs", "?")

ALLOWED_NOCOMPILE = ("block tags in macros are not allowed", "'break' must be placed inside a loop",
                     "'continue' must be placed inside a loop")


def _project(t):
    """operand token -> balance token (MJ.OpsBal.projI)"""
    if re.fullmatch(r"e\d+_\d+|dy|ul\d+|xl", t):
        return "o"
    if re.fullmatch(r"c\d+|cd", t):
        return "cf"
    return t


def run(r):
    depth = 4 if r.tier == "thorough" else 3
    r.rule = (f"every instruction stream (main, each block; macro bodies are regions inside the main stream) of: all "
              f"fixture templates of /repo (tests/inputs, refs, every *.html/*.j2 that compiles), 4 multi-template sets, "
              f"ALL chains of depth <= 3 (thorough: depth 4 over the 19 core kinds) over 30 construct kinds x 13 innermost leaves (text, empty body, break, "
              f"continue, loop(x), loop(x)|filter, loop(x) with waiting operands (concatenation / call + list), the two mixed captured/fast recursions, run-time failure, failure in the iteration x == k, failing include) that are admissible, "
              f"plus a seeded sample of deeper chains; error recovery: macros, call-block callers and blocks invoked from "
              f"Rust functions (Value::call / State::render_block) that swallow the failure, with bodies failing after "
              f"opening with/for/capture/autoescape scopes, inside nested macro calls / includes and inside loops of the caller; closure write-through probe "
              f"(macro reading cv declared in front of EVERY construct, cv re-assigned behind it in the same frame, macro "
              f"called) on every exit path incl. includes that find nothing (ignore missing, single + list), lists with a "
              f"late hit, import / from-import, swallowed failures; leaf `bi`: all 29 builtins with a State parameter applied inside every construct under "
              f"none / html / custom initial modes, then the mode as a Rust function sees it, the escaping of a sentinel and the "
              f"safe-marking of a capture are observed; snapshots around every filter / test / function / method / object call; every shape additionally through a rotating entry "
              f"point (render_captured_to, render_captured + call_macro + render_block, template_from_named_str, extends+super: the shape as parent of a child that overrides every block by super()) and a "
              f"rotating environment configuration (chainable undefined, custom formatter, auto-escape callback = HTML, "
              f"auto-escape callback = custom mode with its formatter, "
              f"custom delimiters, debug off, loader-backed templates, no fuel); "
              f"operand-stack traces of every recursion shape and every 16th other shape replayed on the Lean machine; fuel sweep (failure in front of every instruction) and recursion-limit sweep (failure at every frame push) on every 96th shape with nested evaluations; "
              f"loop controls and loop(x) ALSO at every position where nothing encloses them (refusal by the compiler or balanced code); REPEAT (every shape of depth <= 2 + every 4th: run twice in one evaluation, default + 5 small recursion limits); entry point extends+super (shape as parent, every block overridden by super()); "
              f"dynamic: each shape rendered under all combinations of empty/non-empty iterable, both branches of "
              f"conditions, break/continue in first/later iteration; a case is non-trivial when its stream contains at "
              f"least one scope/capture/escape/loop instruction")
    r.assumptions = [
        "a loop object is only called while its loop is live in the calling activation's frame stack",
        "nested evaluations (blocks, super, include, macros) are separate activations: certified per stream and compared by the run-time depth counters",
        "an Output with open captures is only ever abandoned as a whole (errors propagate to the macro call / render_block / render that owns it)",
        "FastRecurse with no loop frame of the region on the stack is an error (true unless a template includes itself from inside its own recursive loop)",
        "what happens to text captured before a break/continue leaves the capture is unspecified (the engine drops it); only text outside such captures must appear",
        "within a level of loop(...) the operand stack does not go below the level's base (C01 no_underflow; checked on every replayed trace)",
        "the else block of a recursive loop belongs to the statement: recursion levels with an empty iterable do not run it (engine behaviour, mirrored by the reference interpreter; a C03 matter)",
    ]
    r.regen_tables(["C05_INSTRUCTIONS", "C05_VM_ARMS", "C05_CODEGEN_ARMS", "C05_HARNESS_OTHER", "C05_RESTORE_ORDER", "C05_HOOK_NOT_BRANCHES", "C05_STATE_WRITERS", "C05_HELPER_RESTORES", "C05_STATE_BUILTINS", "C05_RECURSION_BASES", "C05_BACKPATCH_SITES", "C05_VM_EFFECTS"])
    r.lean_prove("MJ.Props.C05", "MJ/Audit/C05.lean", extra_targets=["drive_c05"])
    exe = r.cargo_build("c05")
    if exe is None:
        return
    rc, out, err = r.harness(exe, ["gen", r.tier])
    if rc != 0:
        r.broken.append(f"harness c05 exited {rc}: {err[-300:]}")
        return
    dlines, rlines, olines = [], [], []
    for line in out.splitlines():
        if line.startswith("D\t"):
            dlines.append(line)
        elif line.startswith("R\t"):
            rlines.append(line)
        elif line.startswith("O\t"):
            olines.append(line)
    if not dlines:
        r.broken.append("harness produced no instruction streams")
        return
    # the verified checker + model generator on every stream, on a few processes
    from concurrent.futures import ThreadPoolExecutor
    nproc = 4
    step = (len(dlines) + nproc - 1) // nproc
    parts = [dlines[i:i + step] for i in range(0, len(dlines), step)]
    r.driver("drive_c05", "")   # build once
    ostep = max(1, (len(olines) + nproc - 1) // nproc)
    oparts = [olines[i:i + ostep] for i in range(0, len(olines), ostep)]
    with ThreadPoolExecutor(max_workers=nproc) as ex:
        outs = list(ex.map(lambda part: r.driver("drive_c05", "\n".join(part) + "\n"), parts + oparts))
    outs, oouts = outs[:len(parts)], outs[len(parts):]
    verdicts = None if any(o is None for o in outs) else [l for o in outs for l in o]
    overdicts = None if any(o is None for o in oouts) else [l for o in oouts for l in o]
    if verdicts is None or len(verdicts) != len(dlines):
        r.broken.append("checker driver output does not line up with the dumped streams")
        return
    r.exhaustive = True
    static_ok = collections.defaultdict(lambda: True)   # case -> all streams accepted
    n_streams = n_reject = n_gen_broken = 0
    for dl, vl in zip(dlines, verdicts):
        _, case, stream, cls, toks = dl.split("\t")
        v = vl.split("\t")
        if len(v) < 3 or v[0] != case or v[1] != stream:
            r.broken.append(f"driver line does not match stream {case}/{stream}: {vl[:120]}")
            continue
        verdict = v[2]
        n_streams += 1
        # model code generator (MJ/Model/BalGen.lean) run on the shape descriptor vs the real stream
        gm = re.search(r"gen=([A-Za-z-]+)", vl)
        g = gm.group(1) if gm else "missing"
        r.hist["model_generator_vs_real_stream"][g] += 1
        if g == "MISMATCH":
            r.model_disagreement(case + "/" + stream, "real stream (modulo `other`): " + toks[:300],
                                 "model generator compiles the shape to a different skeleton")
        elif g in ("CERT-REJECTED", "unknown-shape", "not-in-fragment", "missing", "BACKPATCH-DIFFERS"):
            n_gen_broken += 1
            if n_gen_broken <= 3:
                r.broken.append(f"model generator on {case}/{stream}: {g}")
        tl = toks.split(" ")
        nontrivial = any(t != "o" for t in tl)
        r.count(case + "/" + stream, nontrivial)
        r.hist["class"][cls] += 1
        r.hist["checker"][verdict] += 1
        r.hist["stream_kind"][stream.split(":")[0]] += 1
        for t in set(x.rstrip("0123456789") for x in tl):
            r.hist["opcodes_seen_in_streams"][t] += 1
        if verdict == "ok":
            if n_streams % 4000 == 1:
                r.sample({"case": case, "stream": stream, "checker": vl.split("\t", 3)[-1], "tokens": toks[:160]})
        elif verdict == "reject":
            n_reject += 1
            static_ok[case] = False
            site = "no-cert:" + (cls if cls not in ("fixture", "extra", "src") else case)
            r.oracle_failure(case, f"no certificate accepted for stream {stream}: {v[3] if len(v) > 3 else ''}", site)
        else:
            r.broken.append(f"stream {case}/{stream} could not be parsed by the checker driver ({verdict})")
    # operand stack: the machine of MJ/Model/Ops.lean run along the heights observed on the engine
    if not olines:
        r.broken.append("harness produced no operand-stack traces")
    elif overdicts is None or len(overdicts) != len(olines):
        r.broken.append("checker driver output does not line up with the operand-stack traces")
    else:
        n_tr = n_steps = n_rec = 0
        dtoks = {}
        for dl in dlines:
            f = dl.split("\t")
            dtoks[(f[1], f[2])] = f[4]
        for ol, vl in zip(olines, overdicts):
            _, case, stream, cls, toks, traces = ol.split("\t")
            # the two dumps of the same stream agree: forgetting the operand effects gives the `D` tokens
            if dtoks.get((case, stream)) != " ".join(_project(t) for t in toks.split(" ")):
                r.broken.append(f"operand tokens of {case}/{stream} do not project to its balance tokens")
            v = vl.split("\t")
            if len(v) < 3 or v[0] != case or v[1] != stream:
                r.broken.append(f"driver line does not match operand traces {case}/{stream}: {vl[:120]}")
                continue
            verdict = v[2]
            r.hist["operand_replay"][verdict] += 1
            r.count(case + "/" + stream + " operands", True)
            if verdict == "ops-ok":
                m = re.match(r"traces=(\d+) steps=(\d+) recursions=(\d+)", v[3] if len(v) > 3 else "")
                if m:
                    n_tr += int(m.group(1)); n_steps += int(m.group(2)); n_rec += int(m.group(3))
                    if int(m.group(3)):
                        r.hist["operand_replay_recursion_class"][cls] += 1
                continue
            where = v[3] if len(v) > 3 else "?"
            what = v[4] if len(v) > 4 else vl
            if verdict == "ops-uncertified":
                if static_ok[case]:
                    r.broken.append(f"{case}/{stream}: projection of the operand stream rejected but the balance stream accepted")
                continue
            if verdict in ("ops-not-restored", "ops-below") or (verdict == "ops-deviates" and where == "recursion-return"):
                # the property itself, evaluated on the engine's run: a scoped construct (a loop(...) call
                # included) closes at another operand height than it was opened at
                site = f"ops:{cls}:{verdict[4:]}:{where}"
                r.oracle_failure(f"{case} @operands/{stream}", f"operand stack: {what[:500]}", site)
                if verdict == "ops-deviates":
                    r.model_disagreement(f"{case}/{stream}", what[:300], "MJ.Ops.step (condReal)")
            elif verdict == "ops-deviates":
                # the machine's effect table / control flow is not the engine's: broken tie
                r.model_disagreement(f"{case}/{stream}", what[:300], f"MJ.Ops.step at {where}")
            else:
                r.broken.append(f"operand traces of {case}/{stream} could not be replayed ({verdict})")
        r.extra["operand_traces_replayed"] = n_tr
        r.extra["operand_steps_replayed"] = n_steps
        r.extra["operand_recursion_calls_replayed"] = n_rec
        if n_rec == 0:
            r.broken.append("no loop(...) recursion was replayed on the operand-stack machine")
    # dynamic results
    for rl in rlines:
        f = rl.split("\t")
        _, case, cls, ctx, res = f[0], f[1], f[2], f[3], "\t".join(f[4:])
        kind = res.split(":")[0]
        r.hist["dynamic"][kind] += 1
        mf = re.search(r" (fuel|limit)-sweep positions=(\d+) nested-errors=(\d+)", ctx)
        if mf:
            hk = mf.group(1) + "_sweep"
            r.hist[hk]["shapes"] += 1
            r.hist[hk]["failure_positions"] += int(mf.group(2))
            r.hist[hk]["nested_evaluations_ended_by_the_failure"] += int(mf.group(3))
        mr = re.search(r" repeat renders=(\d+)", ctx)
        if mr:
            r.hist["repeat"]["shapes"] += 1
            r.hist["repeat"]["renders"] += int(mr.group(1))
            r.hist["repeat"][kind] += 1
        me = re.search(r" entry=(\S+)", ctx)
        mc = re.search(r" cfg=(\S+)", ctx)
        r.hist["entry_point"][me.group(1) if me else "render"] += 1
        r.hist["env_config"][mc.group(1) if mc else "default"] += 1
        if ctx.endswith(" not-enclosed"):
            # a break / continue that no loop encloses and the compiler accepted all the same
            r.hist["loop_control_not_enclosed"]["accepted-by-compiler:" + kind] += 1
        elif kind == "nocompile" and cls.endswith("-not-enclosed"):
            r.hist["loop_control_not_enclosed"]["refused-by-compiler"] += 1
        if kind in ("ok", "ok-error"):
            r.count(case + " @" + ctx, True)
            if r.evaluations % 9000 == 0:
                r.sample({"case": case, "ctx": ctx, "engine_vs_reference": res})
        elif kind == "nocompile":
            if cls not in ("fixture", "extra") and not any(a in res for a in ALLOWED_NOCOMPILE):
                r.broken.append(f"generated shape {case} unexpectedly does not compile: {res[:160]}")
            r.hist["nocompile_reason"][res[10:60]] += 1
            if cls.endswith("-not-enclosed"):
                r.count(case + " refused", True)
        elif kind == "skip":
            r.hist["skipped"][res] += 1
        elif kind == "fail":
            what = res[5:]
            if what.startswith("panic") and "depth-mismatch" not in what:
                # a panic is this property's business when it happens where frames / captures /
                # escape entries are pushed and popped or where the pairs are emitted; a panic
                # anywhere else (filters, operators, constant folding, ...) is C01's
                loc = what.split("@", 1)[1].split(":")[0].split("|")[0] if "@" in what else "?"
                if not any(loc.startswith(f) for f in BALANCE_FILES):
                    r.hist["dynamic"]["panic-elsewhere(C01):" + loc] += 1
                    continue
            r.count(case + " @" + ctx, True)
            fk = ("panic@" + what.split("@", 1)[1].split(":")[0].split("|")[0] if "@" in what else "panic") if what.startswith("panic") else ("nested-not-restored" if "nested-not-restored" in what else "depth-mismatch" if "depth-mismatch" in what else
                 ("output" if what.startswith("output") else what.split(":")[0].split("[")[0]))
            site = f"dyn:{cls if cls not in ('fixture', 'extra') else case}:{fk}"
            r.oracle_failure(f"{case} @{ctx}", f"engine vs reference/counters: {what[:400]}", site)
            if static_ok[case] and (fk.startswith("panic") or fk == "depth-mismatch") and cls not in ("fixture", "extra"):
                # the verified checker accepted every stream of this template, yet the engine's own
                # depth counters / a panic say it is unbalanced: the model misrepresents the VM
                r.model_disagreement(f"{case} @{ctx}", what[:200], "certificate accepted for all streams")
        else:
            r.broken.append(f"unknown harness result {res[:80]} for {case}")
    r.extra["streams_checked"] = n_streams
    r.extra["streams_rejected"] = n_reject
    r.extra["enumeration_depth"] = depth
    r.extra["stage"] = ("compile_has_cert / compiled_code_balanced proved for the FULL statement fragment (no staging): "
                        "if/elif/else, for (else, recursive, filtered as accumulation loop + loop), with, set-/filter-block, "
                        "autoescape, macro, call block, import/from-import, break, continue, loop() recursion, block "
                        "references, any nesting; expressions with internal jumps and macro argument defaults as `flat` blocks")
    if r.hist["checker"]["ok"] == 0:
        r.broken.append("the checker accepted no stream at all")


def replay(r, path):
    d = json.load(open(path))
    exe = r.cargo_build("c05")
    for case in [d.get("case")] + d.get("more_cases", []):
        if not case:
            continue
        shape = case.split(" @")[0]
        if shape.startswith("file:") or shape.startswith("extra:"):
            rc, out, err = r.harness(exe, ["gen", "quick"])
            out = "\n".join(l for l in out.splitlines() if l.split("\t")[1:2] == [shape] or l.split("\t")[1].startswith(shape + "/"))
        else:
            rc, out, err = r.harness(exe, ["one", shape])
            print(err)
        print(out)
        dl = [l for l in out.splitlines() if l.startswith("D\t") or l.startswith("O\t")]
        if dl:
            for v in r.driver("drive_c05", "\n".join(dl) + "\n") or []:
                print("checker:", v[:1200])
    return 0
