#!/usr/bin/env python3
"""Regenerates the table of DESIGN.md §7.2 (between the markers) from evidence/*.json, the Audit
files and the META of lib/props/cxx.py, so that the implementation record cannot drift."""
import json, re, os, sys, importlib
V = os.path.dirname(os.path.dirname(os.path.abspath(__file__)))
sys.path.insert(0, os.path.join(V, "lib"))
rows = []
for n in range(1, 21):
    pid = f"C{n:02d}"
    ev = json.load(open(f"{V}/evidence/{pid}.json"))
    audit = open(f"{V}/lean/MJ/Audit/{pid}.lean").read()
    thms = re.findall(r"#print axioms\s+(?:MJ\.)?(?:%s\.)?([\w.']+)" % pid, audit)
    m = importlib.import_module(f"props.{pid.lower()}")
    cov = ev.get("coverage", ev)
    evals = cov.get("evaluations", ev.get("evaluations", "?"))
    dist = cov.get("distinct_nontrivial", ev.get("distinct_nontrivial", "?"))
    wall = ev.get("wall_s", "?")
    short = [t.split(".")[-1] for t in thms]
    names = ", ".join(f"`{t}`" for t in short[:14]) + (f", … (+{len(short)-14})" if len(short) > 14 else "")
    rows.append(f"| {pid} | {len(thms)} | {names} | {evals} / {dist} | {wall if isinstance(wall,str) else round(wall)} s |")
table = ("| id | audited theorems | names (first 14; all in `lean/MJ/Audit/Cxx.lean`) | quick: evaluations / distinct non-trivial | quick wall |\n"
         "|---|---|---|---|---|\n" + "\n".join(rows))
p = f"{V}/DESIGN.md"; s = open(p).read()
a = "<!-- TABLE72:BEGIN -->"; b = "<!-- TABLE72:END -->"
if a in s:
    s = s[:s.index(a) + len(a)] + "\n" + table + "\n" + s[s.index(b):]
    open(p, "w").write(s)
print(table)

# ---- §7.5: final status of every seeded change, from seeded/*/meta.json
import glob
rows = []
for mp in sorted(glob.glob(f"{V}/seeded/*/meta.json")):
    m = json.load(open(mp))
    first = m.get("detected_by", "")
    f = first.lower()
    if f.startswith("missed") or f.startswith("initially missed") or f.startswith("not detected"):
        st0 = "missed"
    elif "no-failing-input-found" in f or "broken" in f.split(":")[0] or "tie only" in f or "broken proof only" in f or "broken-tie" in f:
        st0 = "broken proof/tie only"
    elif f.startswith("not run"):
        st0 = "not run"
    else:
        st0 = "caught"
    now = "caught (failing input)" if (m.get("detected_after_strengthening") or st0 == "caught") else st0
    das = m.get("detected_after_strengthening")
    note = (m.get("detection_note") or (das if isinstance(das, str) else None) or first).replace("|", "/").replace("\n", " ")
    rows.append(f"| {m['id']} | {st0} | {now} | {note[:260]} |")
t75 = ("| id | first run | now | how |\n|---|---|---|---|\n" + "\n".join(rows))
s = open(p).read()
a = "<!-- TABLE75:BEGIN -->"; b = "<!-- TABLE75:END -->"
if a in s:
    s = s[:s.index(a) + len(a)] + "\n" + t75 + "\n" + s[s.index(b):]
    open(p, "w").write(s)
n_first = sum(1 for r in rows if "| caught |" in r.split("|", 3)[2:3][0] + "|" or r.split("|")[2].strip() == "caught")
print(f"seeded: {len(rows)}; caught at first run: {sum(1 for r in rows if r.split('|')[2].strip()=='caught')}; caught now: {sum(1 for r in rows if r.split('|')[3].strip().startswith('caught'))}")

# ---- §7.5: narrative tables of the waves recorded only in meta.json (wave 10 onwards): what each change needs + first run
import glob as _glob
def _wave(m):
    mm = re.search(r"wave (\d+)", m.get("source", "")); return int(mm.group(1)) if mm else 0
metas = [json.load(open(f)) for f in sorted(_glob.glob(f"{V}/seeded/C*/meta.json"))]
# wave 10 metas carry the label "wave 9" (intake script default at the time); they are the ones added by commit fc77ae6
W10 = {"C01-6","C02-7","C03-6","C04-6","C05-6","C06-7","C07-7","C10-6","C12-6","C13-6","C14-6","C15-6","C18-7","C19-7"}
out = []
for title, sel in (("Wave 10 (end of session 2; 14 properties)", lambda m: m["id"] in W10),
                   ("Wave 11 (session 3; all 20 properties; run against the COMMITTED checks through lib/verif_snapshot.sh while the workers were editing)", lambda m: _wave(m) == 11),
                   ("Wave 12 (session 4; 9 properties before the sandbox stalled; run against the COMMITTED checks while the workers were editing; three first-sight runs could not be completed)", lambda m: _wave(m) == 12)):
    rs = []
    for m in metas:
        if not sel(m): continue
        d = str(m.get("detected_by", ""))
        st = "**missed**" if d.startswith("MISSED") else ("broken tie only" if d.startswith("broken") else ("not run" if d.startswith("not run") else "caught"))
        das = m.get("detected_after_strengthening")
        if das and st != "caught":
            st += " → **caught** " + (das if isinstance(das, str) else "").replace("|", "/").replace("\n", " ")[:300]
        rs.append(f"| {m['id']} | {m.get('needs_to_manifest','').replace('|','/')[:330]} | {st} |")
    n = len(rs); c = sum(1 for r in rs if r.rstrip().endswith("| caught |"))
    out.append(f"{title}: {c} of {n} caught with a failing input at first sight.\n\n| id | change (what it needs) | first run → now |\n|---|---|---|\n" + "\n".join(rs))
s2 = open(p).read()
a = "<!-- TABLE75W:BEGIN -->"; b = "<!-- TABLE75W:END -->"
if a in s2:
    s2 = s2[:s2.index(a) + len(a)] + "\n" + "\n\n".join(out) + "\n" + s2[s2.index(b):]
    open(p, "w").write(s2)

# ---- §7.3: every `fix:` commit of /repo with the property whose check found it (KNOWN_FINDINGS fixed entries)
import subprocess
fixed = {}
for l in open(f"{V}/KNOWN_FINDINGS.jsonl"):
    l = l.strip()
    if not l or l.startswith("#"):
        continue
    d = json.loads(l)
    if d.get("fixed"):
        for c in re.split(r"[ ,+]+", d.get("commit", "")):
            if c:
                fixed.setdefault(c[:7], []).append(d)
log = subprocess.check_output(["git", "-C", os.environ.get("VERIF_REPO", "/repo"), "log", "--reverse", "--format=%h\t%s", "--grep=^fix:"], text=True)
rows73 = []
for line in log.splitlines():
    h, subj = line.split("\t", 1)
    ents = fixed.get(h[:7], [])
    props = ", ".join(sorted({e["property"] for e in ents})) or "—"
    rows73.append(f"| {h[:7]} | {props} | {subj[5:].replace('|', '/')} |")
t73 = "| commit | found by the check of | subject of the fix commit (details: `KNOWN_FINDINGS.jsonl`, entries with `fixed`) |\n|---|---|---|\n" + "\n".join(rows73)
s = open(p).read()
a = "<!-- TABLE73:BEGIN -->"; b = "<!-- TABLE73:END -->"
if a in s:
    s = s[:s.index(a) + len(a)] + "\n" + t73 + "\n" + s[s.index(b):]
    open(p, "w").write(s)
print(f"fix commits: {len(rows73)}; without a KNOWN_FINDINGS entry: {[r.split('|')[1].strip() for r in rows73 if '| — |' in r]}")
