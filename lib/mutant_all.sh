#!/bin/bash
# usage: lib/mutant_all.sh [jobs] [Cxx ...]
# Runs every seeded change under /verif/seeded against the check of its property (lib/mutant_run.sh,
# isolated test beds), properties in parallel, and writes one line per change to
# /tmp/mt/results/<id>.txt; prints a summary table.  Not a registered check: a regression run for the
# machinery itself (which seeded changes are caught by the checks as they are now).
JOBS=${1:-5}; shift
PROPS=${@:-$(ls /verif/seeded | grep -E "^C[0-9]+-" | sed "s/-.*//" | sort -u)}
mkdir -p /tmp/mt/results
run_prop() {
  P=$1
  for d in /verif/seeded/$P-*/; do
    id=$(basename $d)
    out=$(/verif/lib/mutant_run.sh $d/patch.diff $P quick 2>&1)
    rc=$(echo "$out" | grep -o 'rc=[0-9]*' | tail -1)
    nv=$(echo "$out" | grep -c '^VIOLATION')
    nf=$(echo "$out" | grep '^VIOLATION' | grep -vc 'no-failing-input-found')
    summ=$(echo "$out" | grep -o 'obligations.*' | tail -1)
    if echo "$out" | grep -q 'PATCH DOES NOT APPLY'; then st="PATCH-DOES-NOT-APPLY";
    elif [ "$rc" = "rc=0" ]; then st="MISSED";
    elif [ "$nf" -gt 0 ]; then st="CAUGHT(failing-input)";
    elif [ "$nv" -gt 0 ]; then st="CAUGHT(broken-proof/tie-only)";
    else st="ERROR($rc)"; fi
    echo "$id $st violations=$nv $summ" > /tmp/mt/results/$id.txt
    echo "$out" > /tmp/mt/results/$id.log
  done
}
export -f run_prop
echo $PROPS | tr ' ' '\n' | xargs -P $JOBS -I{} bash -c 'run_prop {}'
cat /tmp/mt/results/C*.txt | sort
