#!/bin/bash
# usage: lib/verif_snapshot.sh [dir]   (default /tmp/verif-head)
# Makes <dir> a copy of /verif as COMMITTED at HEAD (plus /verif's lean build cache), so that seeded changes can be run
# against the committed checks while workers are editing /verif in place:
#   VERIF_SRC=/tmp/verif-head MT_ROOT=/tmp/mth lib/mutant_run.sh <patch> Cxx quick
D=${1:-/tmp/verif-head}
mkdir -p $D
git -C /verif archive HEAD | tar -x -C $D
mkdir -p $D/lean/.lake
rsync -a /verif/lean/.lake/ $D/lean/.lake/ 2>/dev/null || true
git -C /verif rev-parse --short HEAD > $D/.snapshot_of
echo "snapshot of /verif $(cat $D/.snapshot_of) in $D"
