#!/usr/bin/env python3
"""usage: lib/mk_workerprompts_s4.py <deadline HH:MM UTC> [Cxx ...]
Session-4 worker prompts = session-3 prompt (lib/prompts/worker_Cxx_s3.txt) + a preamble: what was lost when
session 3 was interrupted (uncommitted /verif edits; the fix commits in /repo survived), the commit policy
(workers commit their OWN files at every green increment so an interruption loses nothing) and the deadline.
Writes /tmp/wp/worker-Cxx.txt and lib/prompts/worker_Cxx_s4.txt."""
import os, sys
V = os.path.dirname(os.path.dirname(os.path.abspath(__file__)))
deadline = sys.argv[1]; only = sys.argv[2:]
LOST = {
 "C09": "fix dad5284 (get_item_opt: Seq objects that announce no length count their items for end-relative subscripts). "
        "The coordinator only made lib/tables/c09.py accept the new source text; the stream with sequence OBJECTS of every "
        "Enumerator variant / size-hint honesty that found it is gone - rebuild it (model + harness + oracle x[-k] == (x|list)[-k]).",
 "C14": "fixes ae27dbe (span of the tuple on the right of a set statement with trailing comma) and 959b12c (render_debug_info "
        "propagates write errors instead of unwrapping). The span-validity oracle over every expression node and the failing-writer "
        "stream over the error display paths that found them are gone - rebuild both.",
 "C07": "fixes 276e6ac (MergeDict lists keys whose entries hold undefined values) and 79eda21 (dict(m) keeps every entry). The "
        "lookup-vs-enumeration law on derived maps and the copy-preserves-entries law that found them are gone - rebuild both.",
 "C10": "hook commit 7f52fad (feature verif_hooks: exposes the start delimiter automaton's overlapping matches and the identifier "
        "scan) is in /repo and recorded in HOOK_COMMITS.txt, but nothing in /verif uses it yet - use it (tie the Lean "
        "leftmost-longest search spec to the real automaton on enumerated haystacks) or ignore it.",
 "C18": "nothing was lost: your session-3 work is integrated (read DESIGN 7.2 'Session 3' C18 paragraph). Continue with the "
        "still-only-validated list of your META and TASK 1 with NEW mechanisms.",
 "C19": "nothing was lost: your session-3 work is integrated (read DESIGN 7.2 'Session 3' C19 paragraph). Continue with the "
        "still-only-validated list of your META (H_ops: prove that the op sequence is sink-independent from a VM-level model) and "
        "TASK 1 with NEW mechanisms.",
}
PRE = """SESSION 4 PREAMBLE (read first; it overrides the guide and the text below where they differ).
An earlier worker was given the prompt below in session 3 and was INTERRUPTED: every uncommitted edit it had made in /verif is
gone; /verif is at its last integrated commit. What survives: `fix:`/`verif hooks:` commits in /repo (git -C /repo log), the
stored seeded changes /verif/seeded/@P@-*/ and own mutants /verif/own_mutants/@P@/. @LOST@
So: start by running `./check @P@ --tier quick` against /repo HEAD; if it is red, the first job is to make it follow HEAD
(default repair is to the model/tables/harness; the code is wrong only when the property itself says so). If the text below says
a stored seeded change is missed, verify that first with lib/mutant_run.sh - it may or may not still be.
COMMIT POLICY (overrides 'do not git commit'): so that nothing is lost again, commit YOUR OWN files yourself after every
increment at which `./check @P@ --tier quick` is green on the unchanged tree: `cd /verif && git add <explicit paths> && git commit
-m "@P@: <what>" -- <the same explicit paths>` - explicit paths ONLY (never `git add -A`/`-u`/`.`/`commit -a`): lean/MJ/{Model,Proofs,Props,Audit,Drive}/<your files>,
harness/src/bin/@p@*.rs (+ .inc files of yours), lib/props/@p@.py, lib/tables/@p@.py, own_mutants/@P@/, seeded/@P@-*/meta.json,
corpus/@P@/, evidence/@P@.json, and a KNOWN_FINDINGS.jsonl line you appended (git add KNOWN_FINDINGS.jsonl is fine: append-only).
Retry when the index is locked (15 other workers commit too). Never commit a state in which your check is red or does not build;
never amend, rebase, reset, checkout or stash anything. Do not touch MANIFEST.json, DESIGN.md, lib/common.py, check (the
coordinator regenerates/integrates them); put what DESIGN.md should say about your work into your META and final report.
TIME: hard deadline @DEADLINE@ UTC (`date -u`). Work in small green increments, biggest gain first; at the deadline stop, make
sure the last green state is committed, and give the final report. A quick check must stay within its time budget on an idle
machine (the machine is busy now: judge by the share of time spent in your own steps, and shard over cores).
Whatever you add must hold to three rules: (1) green and quiet on the unchanged tree, deterministic in VERIF_SEED, no flaky
alarms (run the quick check under 3 seeds before each commit: VERIF_SEED=1,2,3); (2) an oracle may only demand what the property
STATES - a harmless refactoring or a behaviour change that keeps the property must not be reported as a failing input (a broken
regenerated-table tie reports `no-failing-input-found`, which is the designed outcome for source-shape changes); (3) generality:
reach whole classes of defects (every entry point x every value kind x every configuration x every construct combination the
property quantifies over), never a special case for one stored patch.
=============================== session-3 prompt follows ===============================
"""
os.makedirs("/tmp/wp", exist_ok=True)
for i in range(1, 21):
    P = f"C{i:02d}"
    if only and P not in only:
        continue
    base = open(f"{V}/lib/prompts/worker_{P}_s3.txt").read()
    lost = LOST.get(P, "No /repo commit of that worker is known for @P@, so only its /verif work has to be redone.")
    pre = PRE.replace("@LOST@", "Lost for @P@: " + lost if P in LOST else lost)
    t = (pre + base).replace("@P@", P).replace("@p@", P.lower()).replace("@DEADLINE@", deadline)
    open(f"/tmp/wp/worker-{P}.txt", "w").write(t)
    open(f"{V}/lib/prompts/worker_{P}_s4.txt", "w").write(t)
    print("wrote", P)
