#!/usr/bin/env python3
"""usage: lib/mk_workerprompts.py spec.json
spec.json: {"Cxx": ["<property-specific deepening hints>", "<missed seeded id or null>"], ...}
Writes /tmp/wp/worker-Cxx.txt (what a per-property worker sub-agent is told to read) and keeps a copy
as lib/prompts/worker_Cxx_s3.txt.  Built on lib/prompts/worker_generic.txt."""
import json, os, sys
V = os.path.dirname(os.path.dirname(os.path.abspath(__file__)))
g = open(f"{V}/lib/prompts/worker_generic.txt").read()
old_state = g[g.index("State now:"):g.index("TASK 1")]
GEN = ("Your check's own META in lib/props/@p@.py (level_note) lists what is STILL ONLY VALIDATED / NOT PROVED / TRUSTED / "
       "OUTSIDE THE MODEL. Work that list down, largest share of real code first: for each item either (i) bring the mechanism "
       "INTO the Lean model with a theorem (and a correspondence stream that executes the new model part against the real code), "
       "or (ii) replace a hand transcription by a table REGENERATED from the source (lib/tables/@p@.py) with a theorem over the "
       "table, so that an edit of that source breaks a proof obligation, or (iii) state precisely in META why neither is possible. "
       "Prefer theorems that quantify over ALL inputs of the mechanism over decided tables where the mechanism is an algorithm. "
       "Also state the property's main theorem at FULL STRENGTH in Props/@P@.lean (one `def @P@_full : Prop` that reads like the "
       "property's statement and quantifier, if not there yet) and make the gap between what is proved and `@P@_full` explicit as "
       "named hypotheses/parameters of a final theorem `@P@_main` (each hypothesis either discharged by another audited theorem, "
       "tied by a regenerated table, or listed as validated-only in META). Update META (technique, level_note: add a paragraph "
       "`MOVED FROM VALIDATED TO PROVED in session 3`) to match exactly what you built. ")
MISSED = ("State now: `./check @P@ --tier quick` is green on the unchanged tree. The stored seeded change @M@ (read "
          "/verif/seeded/@M@/meta.json, agent_meta.txt, patch.diff, demo_test.rs) is currently NOT caught with a failing input by "
          "`lib/mutant_run.sh seeded/@M@/patch.diff @P@ quick`; all other stored seeded changes of @P@ were caught when last run. In "
          "every wave of fresh seeded changes (written by agents that saw only the property text) about a third escaped their check "
          "at first sight, each time because the defect sat in a mechanism, value kind, entry point, configuration or construct "
          "combination that the generators did not reach. FIRST make @M@ caught WITH A FAILING INPUT by strengthening the check IN "
          "GENERAL (the generator axis / stream / oracle / model extension that reaches the whole class of such defects, never a "
          "special case for this patch), and write into /verif/seeded/@M@/meta.json a key \"detected_after_strengthening\" saying "
          "what was added and the result line. Then do the two tasks below.\n\n")
OK = ("State now: `./check @P@ --tier quick` is green on the unchanged tree and every stored seeded change of @P@ was caught with "
      "failing inputs when last run. In every wave of fresh seeded changes (written by agents that saw only the property text) about "
      "a third escaped their check at first sight, each time because the defect sat in a mechanism, value kind, entry point, "
      "configuration or construct combination that the generators did not reach. Your job is to make that less likely for @P@ and "
      "to deepen the proof.\n\n")
os.makedirs("/tmp/wp", exist_ok=True)
for P, (extra, missed) in json.load(open(sys.argv[1])).items():
    state = MISSED.replace("@M@", missed) if missed else OK
    t = g.replace(old_state, state).replace("@DEEPEN@", GEN + extra).replace("@P@", P).replace("@p@", P.lower())
    open(f"/tmp/wp/worker-{P}.txt", "w").write(t)
    open(f"{V}/lib/prompts/worker_{P}_s3.txt", "w").write(t)
    print("wrote", P)
