#!/bin/bash
# usage: lib/mutant_run.sh <patch.diff|none> <Cxx> [tier]
# Runs ./check Cxx against an isolated copy of /repo (HEAD + patch) using an isolated copy of
# /verif, so that neither /repo nor /verif's build state is disturbed.  Test bed under /tmp/mt.
set -e
PATCH=$1; [ "$PATCH" != "none" ] && PATCH=$(realpath "$PATCH"); PROP=$2; TIER=${3:-quick}
MT=${MT_ROOT:-/tmp/mt}/$PROP            # one test bed per property (concurrent runs of different properties do not interfere)
mkdir -p $MT
exec 9>$MT/.lock; flock 9    # serialise runs on the same property
if [ ! -d $MT/repo/.git ] && [ ! -f $MT/repo/.git ]; then
  git -C /repo worktree add -f --detach $MT/repo HEAD >/dev/null 2>&1
fi
git -C $MT/repo checkout -q -- . ; git -C $MT/repo clean -fdq -e target
git -C $MT/repo checkout -q --detach "$(git -C /repo rev-parse HEAD)" || { echo "TEST BED: cannot check out /repo HEAD"; exit 3; }
if [ "$PATCH" != "none" ]; then
  git -C $MT/repo apply "$PATCH" 2>/dev/null || (cd $MT/repo && patch -p1 -F3 -s --no-backup-if-mismatch < "$PATCH") || { echo "PATCH DOES NOT APPLY"; exit 3; }
fi
rsync -a --delete --exclude .git --exclude .build --exclude evidence/replay --exclude '*.tmp.*' ${VERIF_SRC:-/verif}/ $MT/verif/ || [ $? -eq 24 ]
mkdir -p $MT/verif/.build $MT/verif/evidence
sed -i "s|/repo/|$MT/repo/|g" $MT/verif/harness/Cargo.toml $MT/verif/harness/src/bin/*.rs
sed -i "s|/verif/.build/cargo|$MT/verif/.build/cargo|" $MT/verif/harness/.cargo/config.toml
cd $MT/verif
VERIF_REPO=$MT/repo ./check $PROP --tier $TIER 2>&1 | grep -E "^VIOLATION|^KNOWN-FINDING|obligations [0-9]+/[0-9]+ evaluations" | cut -c1-260
echo "rc=${PIPESTATUS[0]}"
