"""C06 table items: the default auto-escape callback (`defaults.rs`): which template-name
extensions select which `AutoEscape` mode, and which trailing extensions are ignored.  The Lean
model (`MJ.Blocks.modeOfName`) interprets these lists, so a changed arm changes the model."""
import re
from extract_tables import item, read, fn_body, lean_str

DEF = "minijinja/src/defaults.rs"


@item("C06_AUTO_ESCAPE_EXTENSIONS")
def _auto_escape(repo):
    src = read(repo, DEF)
    m = re.search(r"const\s+IGNORED_EXTENSIONS\s*:\s*\[&str;\s*\d+\]\s*=\s*\[([^\]]*)\]", src)
    if not m:
        raise KeyError("IGNORED_EXTENSIONS")
    ignored = re.findall(r'"([^"]*)"', m.group(1))
    body = fn_body(src, r"pub fn default_auto_escape_callback\s*\(")
    arms = {}
    for pats, mode in re.findall(r'Some\(([^)]*)\)\s*=>\s*AutoEscape::(\w+)', body):
        arms.setdefault(mode, []).extend(re.findall(r'"([^"]*)"', pats))
    if "Html" not in arms or "Json" not in arms:
        raise KeyError("default_auto_escape_callback arms")
    if not re.search(r"_\s*=>\s*AutoEscape::None", body) or "rsplit('.')" not in body \
            or not re.search(r"strip_suffix\(ext\)\s*\{\s*name = stripped;\s*break;", body):
        raise KeyError("default_auto_escape_callback shape")
    lst = lambda xs: "[" + ", ".join(lean_str(x) for x in xs) + "]"
    lean = ("def c06AutoEscapeIgnoredExts : List String := %s\n"
            "def c06AutoEscapeHtmlExts : List String := %s\n"
            "def c06AutoEscapeJsonExts : List String := %s" % (lst(ignored), lst(arms["Html"]), lst(arms["Json"])))
    return {"ignored": ignored, "html": arms["Html"], "json": arms["Json"]}, lean


@item("C06_UNDEFINED_TABLES")
def _undefined(repo):
    """`UndefinedBehavior::handle_undefined` (attribute / item lookup on a value) and the set of
    modes under which `Emit` of an undefined value fails (`strict_undefined` in `eval_impl`)."""
    utils = read(repo, "minijinja/src/utils.rs")
    body = fn_body(utils, r"pub\(crate\) fn handle_undefined\s*\(")
    rows = []
    for arm in re.finditer(r"((?:\|?\s*\(UndefinedBehavior::\w+,\s*(?:true|false|_)\)\s*)+)=>\s*(Ok|Err)\(", body):
        for mode, flag in re.findall(r"\(UndefinedBehavior::(\w+),\s*(true|false|_)\)", arm.group(1)):
            for f in ([True, False] if flag == "_" else [flag == "true"]):
                rows.append((mode, f, arm.group(2) == "Err"))
    modes = sorted({m for m, _, _ in rows})
    if len({(m, f) for m, f, _ in rows}) != len(rows) or len(rows) != 2 * len(modes):
        raise KeyError("handle_undefined arms do not form a total table")
    vm = read(repo, "minijinja/src/vm/mod.rs")
    m = re.search(r"let strict_undefined = matches!\(\s*undefined_behavior,\s*([^)]*)\)", vm)
    if not m:
        raise KeyError("strict_undefined")
    strict = re.findall(r"UndefinedBehavior::(\w+)", m.group(1))
    lean = ("def c06HandleUndefined : List (String × Bool × Bool) := [%s]\n"
            "def c06StrictEmit : List String := [%s]" % (
                ", ".join("(%s, %s, %s)" % (lean_str(a), str(b).lower(), str(c).lower()) for a, b, c in sorted(rows)),
                ", ".join(lean_str(x) for x in strict)))
    return {"handle_undefined": sorted(rows), "strict_emit": strict}, lean


def _split_top(expr, sep):
    """split at `sep` outside parentheses / brackets / braces"""
    out, depth, cur, i = [], 0, "", 0
    while i < len(expr):
        c = expr[i]
        if c in "([{":
            depth += 1
        elif c in ")]}":
            depth -= 1
        if depth == 0 and expr.startswith(sep, i):
            out.append(cur)
            cur = ""
            i += len(sep)
            continue
        cur += c
        i += 1
    out.append(cur)
    return out


@item("C06_INCLUDE_CHOICES")
def _include_choices(repo):
    """The candidate-building code of `perform_include` (`vm/mod.rs`): which object kinds reach
    `try_iter()` (every `.filter(..)` on the object in front of it removes kinds), what happens
    when there is nothing to iterate (the single-name arm), and the condition under which the
    tail raises `TemplateNotFound`.  The Lean model (`MJ.Blocks.choices`, `notFoundRaised`)
    interprets these tables; shapes the extractor does not know are reported missing."""
    obj_src = re.sub(r"///.*", "", read(repo, "minijinja/src/value/object.rs"))
    reprs = re.findall(r"^\s*([A-Z]\w*)\s*,", fn_body(obj_src, r"pub enum ObjectRepr\s*\{"), re.M)
    if not reprs:
        raise KeyError("ObjectRepr variants")
    body = fn_body(read(repo, "minijinja/src/vm/mod.rs"), r"fn perform_include\s*\(")
    body = re.sub(r"//.*", "", body)
    if not re.search(r"let\s+obj\s*=\s*name\.as_object\(\)\s*;", body):
        raise KeyError("perform_include: let obj = name.as_object()")
    m = re.search(r"let\s+(?:mut\s+)?choices\s*=\s*(.*?);", body, re.S)
    if not m or not re.search(r"for\s+choice\s+in\s+choices\s*\{", body):
        raise KeyError("perform_include: choices")
    steps = _split_top(re.sub(r"\s+", "", m.group(1)), ".")
    if steps[0] != "obj":
        raise KeyError("perform_include: choices does not start from obj")
    steps = steps[1:]
    kept = list(reprs)
    i = 0
    while i < len(steps) and steps[i] != "and_then(|d|d.try_iter())":
        st = steps[i]
        if st in ("as_ref()", "clone()", "as_deref()"):
            pass
        elif re.fullmatch(r"filter\(\|d\|d\.repr\(\)==ObjectRepr::(\w+)\)", st):
            only = re.fullmatch(r"filter\(\|d\|d\.repr\(\)==ObjectRepr::(\w+)\)", st).group(1)
            kept = [r for r in kept if r == only]
        elif re.fullmatch(r"filter\(\|d\|d\.repr\(\)!=ObjectRepr::(\w+)\)", st):
            no = re.fullmatch(r"filter\(\|d\|d\.repr\(\)!=ObjectRepr::(\w+)\)", st).group(1)
            kept = [r for r in kept if r != no]
        elif re.fullmatch(r"filter\(\|d\|(!?)matches!\(d\.repr\(\),([\w:|]+)\)\)", st):
            g = re.fullmatch(r"filter\(\|d\|(!?)matches!\(d\.repr\(\),([\w:|]+)\)\)", st)
            named = re.findall(r"ObjectRepr::(\w+)", g.group(2))
            kept = [r for r in kept if (r in named) != (g.group(1) == "!")]
        else:
            raise KeyError("perform_include: unknown step in front of try_iter: " + st)
        i += 1
    if i == len(steps):
        raise KeyError("perform_include: choices does not call try_iter")
    tail = steps[i + 1:]
    if tail == ["unwrap_or_else(||Box::new(Some(name.clone()).into_iter()))"]:
        fallback = "single-name"
    elif tail == ["into_iter()", "flatten()", "chain(obj.is_none().then(||name.clone()))"]:
        fallback = "single-name-unless-object"
    else:
        raise KeyError("perform_include: unknown tail of choices: " + ".".join(tail))
    c = re.search(r"if\s+([^{};]+?)\s*\{\s*Err\(\s*Error::new\(\s*ErrorKind::TemplateNotFound", body)
    if not c:
        raise KeyError("perform_include: TemplateNotFound condition")
    cond = re.sub(r"\s+", "", c.group(1))
    if "||" in cond or "(" in cond.replace("is_empty()", ""):
        raise KeyError("perform_include: TemplateNotFound condition is not a conjunction of atoms: " + cond)
    atoms = cond.split("&&")
    lst = lambda xs: "[" + ", ".join(lean_str(x) for x in xs) + "]"
    lean = ("def c06ObjectReprs : List String := %s\n"
            "def c06IncludeIteratedReprs : List String := %s\n"
            "def c06IncludeFallback : String := %s\n"
            "def c06IncludeNotFoundCond : List String := %s" % (lst(reprs), lst(kept), lean_str(fallback), lst(atoms)))
    return {"reprs": reprs, "iterated": kept, "fallback": fallback, "not_found_when": atoms}, lean


def _brace_body(src, i):
    """src[i] == '{': the text between it and its matching brace, and the index behind that brace"""
    depth, j = 0, i
    while j < len(src):
        if src[j] == "{":
            depth += 1
        elif src[j] == "}":
            depth -= 1
            if depth == 0:
                return src[i + 1:j], j + 1
        j += 1
    raise KeyError("unbalanced braces")


def _top_statements(body):
    """statements at nesting depth 0 of a block: `(text, is_braced_block)`"""
    out, depth, cur = [], 0, ""
    for c in body:
        cur += c
        if c in "([{":
            depth += 1
        elif c in ")]}":
            depth -= 1
            if depth == 0 and c == "}" and re.match(r"\s*(if|while|for|loop|match)\b", cur):
                out.append(cur.strip())
                cur = ""
        elif c == ";" and depth == 0:
            out.append(cur.strip())
            cur = ""
    if cur.strip():
        out.append(cur.strip())
    return out


@item("C06_ACTIVATION_STATE")
def _activation_state(repo):
    """What happens to the state of a VM activation (`Executor::eval_impl`, `vm/mod.rs`) and to the
    fields of `State` (`vm/state.rs`) when the activation switches to the instructions of the parent
    template (the end-of-instructions arm).  Rows for the activation's locals: (name, is it indexed by
    the local ids of `state.instructions`?, what the switch does: `reset` = assigned unconditionally
    at the top level of the arm, `conditional` = assigned only inside a nested block, `taken` =
    `.take()`n, `carried` = untouched).  Rows for `State`: (field, `retargeted` / `carried`)."""
    vm = re.sub(r"//.*", "", read(repo, "minijinja/src/vm/mod.rs"))
    body = fn_body(vm, r"fn eval_impl\s*\(")
    loop_at = re.search(r"\n\s*loop\s*\{", body)
    if not loop_at:
        raise KeyError("eval_impl: main loop")
    prologue = body[:loop_at.start()]
    locals_ = ["stack", "pc"] if re.search(r"mut stack: Stack,\s*mut pc: u32", vm) else None
    if locals_ is None:
        raise KeyError("eval_impl: parameters")
    depth = 0
    for line in prologue.splitlines():
        if depth == 0:
            m = re.match(r"\s*let mut (\w+)\b", line)
            if m and m.group(1) not in locals_:
                locals_.append(m.group(1))
        depth += line.count("{") - line.count("}")
    keyed = set(re.findall(r"get_or_lookup_local\(\s*&mut (\w+)\s*,\s*\*local_id", body))
    if not keyed:
        raise KeyError("eval_impl: get_or_lookup_local uses")
    m = re.search(r"let instr = match state\.instructions\.get\(pc\)\s*\{", body)
    if not m:
        raise KeyError("eval_impl: instruction fetch")
    fetch, _ = _brace_body(body, m.end() - 1)
    arms = [a for a in re.finditer(r"None\s*=>\s*\{", fetch)]
    if len(arms) != 1:
        raise KeyError("eval_impl: end-of-instructions arm")
    arm, _ = _brace_body(fetch, arms[0].end() - 1)
    what = {}
    def note(name, w):
        # the weakest treatment wins: a conditional assignment is not a reset
        order = ["conditional", "taken", "reset"]
        if name not in what or order.index(w) < order.index(what[name]):
            what[name] = w
    state_assigned = set()
    for st in _top_statements(arm):
        braced = bool(re.match(r"(if|while|for|loop|match)\b", st))
        for name in re.findall(r"\b(\w+)\.take\(\)", st):
            note(name, "taken")
        if braced:
            for name in re.findall(r"\b(\w+)\s*=[^=]", st):
                note(name, "conditional")
            for f in re.findall(r"\bstate\.(\w+)\s*=[^=]", st):
                state_assigned.add(f)
            continue
        a = re.match(r"(state\.)?(\w+)\s*=[^=]", st)
        if a and a.group(1):
            state_assigned.add(a.group(2))
            # nested assignments in the right-hand side (a match with arms) are conditional
        elif a:
            note(a.group(2), "reset")
    rows = [(n, n in keyed, what.get(n, "carried")) for n in locals_]
    if not keyed <= set(locals_):
        raise KeyError("eval_impl: an id-indexed cache is not a local of the activation")
    sf = fn_body(re.sub(r"//.*", "", read(repo, "minijinja/src/vm/state.rs")), r"pub struct State<'template, 'env>\s*\{")
    fields = re.findall(r"pub\(crate\)\s+(\w+)\s*:", sf)
    if "instructions" not in fields or "blocks" not in fields:
        raise KeyError("State fields")
    srows = [(f, "retargeted" if f in state_assigned else "carried") for f in fields]
    if not state_assigned <= set(fields):
        raise KeyError("the parent switch assigns a State field the struct does not have")
    lean = ("def c06ActivationLocals : List (String × Bool × String) := [%s]\n"
            "def c06StateAtParentSwitch : List (String × String) := [%s]" % (
                ", ".join("(%s, %s, %s)" % (lean_str(a), str(b).lower(), lean_str(c)) for a, b, c in rows),
                ", ".join("(%s, %s)" % (lean_str(a), lean_str(b)) for a, b in srows)))
    return {"locals": rows, "state": srows}, lean
