"""C06 table items: the default auto-escape callback (`defaults.rs`): which template-name
extensions select which `AutoEscape` mode, and which trailing extensions are ignored.  The Lean
model (`MJ.Blocks.modeOfName`) interprets these lists, so a changed arm changes the model."""
import re
from extract_tables import item, read, fn_body, lean_str

DEF = "minijinja/src/defaults.rs"


@item("C06_AUTO_ESCAPE_EXTENSIONS")
def _auto_escape(repo):
    src = read(repo, DEF)
    m = re.search(r"const\s+IGNORED_EXTENSIONS\s*:\s*\[&str;\s*\d+\]\s*=\s*\[([^\]]*)\]", src)
    if not m:
        raise KeyError("IGNORED_EXTENSIONS")
    ignored = re.findall(r'"([^"]*)"', m.group(1))
    body = fn_body(src, r"pub fn default_auto_escape_callback\s*\(")
    arms = {}
    for pats, mode in re.findall(r'Some\(([^)]*)\)\s*=>\s*AutoEscape::(\w+)', body):
        arms.setdefault(mode, []).extend(re.findall(r'"([^"]*)"', pats))
    if "Html" not in arms or "Json" not in arms:
        raise KeyError("default_auto_escape_callback arms")
    if not re.search(r"_\s*=>\s*AutoEscape::None", body) or "rsplit('.')" not in body \
            or not re.search(r"strip_suffix\(ext\)\s*\{\s*name = stripped;\s*break;", body):
        raise KeyError("default_auto_escape_callback shape")
    lst = lambda xs: "[" + ", ".join(lean_str(x) for x in xs) + "]"
    lean = ("def c06AutoEscapeIgnoredExts : List String := %s\n"
            "def c06AutoEscapeHtmlExts : List String := %s\n"
            "def c06AutoEscapeJsonExts : List String := %s" % (lst(ignored), lst(arms["Html"]), lst(arms["Json"])))
    return {"ignored": ignored, "html": arms["Html"], "json": arms["Json"]}, lean


@item("C06_UNDEFINED_TABLES")
def _undefined(repo):
    """`UndefinedBehavior::handle_undefined` (attribute / item lookup on a value) and the set of
    modes under which `Emit` of an undefined value fails (`strict_undefined` in `eval_impl`)."""
    utils = read(repo, "minijinja/src/utils.rs")
    body = fn_body(utils, r"pub\(crate\) fn handle_undefined\s*\(")
    rows = []
    for arm in re.finditer(r"((?:\|?\s*\(UndefinedBehavior::\w+,\s*(?:true|false|_)\)\s*)+)=>\s*(Ok|Err)\(", body):
        for mode, flag in re.findall(r"\(UndefinedBehavior::(\w+),\s*(true|false|_)\)", arm.group(1)):
            for f in ([True, False] if flag == "_" else [flag == "true"]):
                rows.append((mode, f, arm.group(2) == "Err"))
    modes = sorted({m for m, _, _ in rows})
    if len({(m, f) for m, f, _ in rows}) != len(rows) or len(rows) != 2 * len(modes):
        raise KeyError("handle_undefined arms do not form a total table")
    vm = read(repo, "minijinja/src/vm/mod.rs")
    m = re.search(r"let strict_undefined = matches!\(\s*undefined_behavior,\s*([^)]*)\)", vm)
    if not m:
        raise KeyError("strict_undefined")
    strict = re.findall(r"UndefinedBehavior::(\w+)", m.group(1))
    lean = ("def c06HandleUndefined : List (String × Bool × Bool) := [%s]\n"
            "def c06StrictEmit : List String := [%s]" % (
                ", ".join("(%s, %s, %s)" % (lean_str(a), str(b).lower(), str(c).lower()) for a, b, c in sorted(rows)),
                ", ".join(lean_str(x) for x in strict)))
    return {"handle_undefined": sorted(rows), "strict_emit": strict}, lean


def _split_top(expr, sep):
    """split at `sep` outside parentheses / brackets / braces"""
    out, depth, cur, i = [], 0, "", 0
    while i < len(expr):
        c = expr[i]
        if c in "([{":
            depth += 1
        elif c in ")]}":
            depth -= 1
        if depth == 0 and expr.startswith(sep, i):
            out.append(cur)
            cur = ""
            i += len(sep)
            continue
        cur += c
        i += 1
    out.append(cur)
    return out


@item("C06_INCLUDE_CHOICES")
def _include_choices(repo):
    """The candidate-building code of `perform_include` (`vm/mod.rs`): which object kinds reach
    `try_iter()` (every `.filter(..)` on the object in front of it removes kinds), what happens
    when there is nothing to iterate (the single-name arm), and the condition under which the
    tail raises `TemplateNotFound`.  The Lean model (`MJ.Blocks.choices`, `notFoundRaised`)
    interprets these tables; shapes the extractor does not know are reported missing."""
    obj_src = re.sub(r"///.*", "", read(repo, "minijinja/src/value/object.rs"))
    reprs = re.findall(r"^\s*([A-Z]\w*)\s*,", fn_body(obj_src, r"pub enum ObjectRepr\s*\{"), re.M)
    if not reprs:
        raise KeyError("ObjectRepr variants")
    body = fn_body(read(repo, "minijinja/src/vm/mod.rs"), r"fn perform_include\s*\(")
    body = re.sub(r"//.*", "", body)
    if not re.search(r"let\s+obj\s*=\s*name\.as_object\(\)\s*;", body):
        raise KeyError("perform_include: let obj = name.as_object()")
    m = re.search(r"let\s+(?:mut\s+)?choices\s*=\s*(.*?);", body, re.S)
    if not m or not re.search(r"for\s+choice\s+in\s+choices\s*\{", body):
        raise KeyError("perform_include: choices")
    steps = _split_top(re.sub(r"\s+", "", m.group(1)), ".")
    if steps[0] != "obj":
        raise KeyError("perform_include: choices does not start from obj")
    steps = steps[1:]
    kept = list(reprs)
    i = 0
    while i < len(steps) and steps[i] != "and_then(|d|d.try_iter())":
        st = steps[i]
        if st in ("as_ref()", "clone()", "as_deref()"):
            pass
        elif re.fullmatch(r"filter\(\|d\|d\.repr\(\)==ObjectRepr::(\w+)\)", st):
            only = re.fullmatch(r"filter\(\|d\|d\.repr\(\)==ObjectRepr::(\w+)\)", st).group(1)
            kept = [r for r in kept if r == only]
        elif re.fullmatch(r"filter\(\|d\|d\.repr\(\)!=ObjectRepr::(\w+)\)", st):
            no = re.fullmatch(r"filter\(\|d\|d\.repr\(\)!=ObjectRepr::(\w+)\)", st).group(1)
            kept = [r for r in kept if r != no]
        elif re.fullmatch(r"filter\(\|d\|(!?)matches!\(d\.repr\(\),([\w:|]+)\)\)", st):
            g = re.fullmatch(r"filter\(\|d\|(!?)matches!\(d\.repr\(\),([\w:|]+)\)\)", st)
            named = re.findall(r"ObjectRepr::(\w+)", g.group(2))
            kept = [r for r in kept if (r in named) != (g.group(1) == "!")]
        else:
            raise KeyError("perform_include: unknown step in front of try_iter: " + st)
        i += 1
    if i == len(steps):
        raise KeyError("perform_include: choices does not call try_iter")
    tail = steps[i + 1:]
    if tail == ["unwrap_or_else(||Box::new(Some(name.clone()).into_iter()))"]:
        fallback = "single-name"
    elif tail == ["into_iter()", "flatten()", "chain(obj.is_none().then(||name.clone()))"]:
        fallback = "single-name-unless-object"
    else:
        raise KeyError("perform_include: unknown tail of choices: " + ".".join(tail))
    c = re.search(r"if\s+([^{};]+?)\s*\{\s*Err\(\s*Error::new\(\s*ErrorKind::TemplateNotFound", body)
    if not c:
        raise KeyError("perform_include: TemplateNotFound condition")
    cond = re.sub(r"\s+", "", c.group(1))
    if "||" in cond or "(" in cond.replace("is_empty()", ""):
        raise KeyError("perform_include: TemplateNotFound condition is not a conjunction of atoms: " + cond)
    atoms = cond.split("&&")
    lst = lambda xs: "[" + ", ".join(lean_str(x) for x in xs) + "]"
    lean = ("def c06ObjectReprs : List String := %s\n"
            "def c06IncludeIteratedReprs : List String := %s\n"
            "def c06IncludeFallback : String := %s\n"
            "def c06IncludeNotFoundCond : List String := %s" % (lst(reprs), lst(kept), lean_str(fallback), lst(atoms)))
    return {"reprs": reprs, "iterated": kept, "fallback": fallback, "not_found_when": atoms}, lean
