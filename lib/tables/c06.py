"""C06 table items: the default auto-escape callback (`defaults.rs`): which template-name
extensions select which `AutoEscape` mode, and which trailing extensions are ignored.  The Lean
model (`MJ.Blocks.modeOfName`) interprets these lists, so a changed arm changes the model."""
import re
from extract_tables import item, read, fn_body, lean_str

DEF = "minijinja/src/defaults.rs"


@item("C06_AUTO_ESCAPE_EXTENSIONS")
def _auto_escape(repo):
    src = read(repo, DEF)
    m = re.search(r"const\s+IGNORED_EXTENSIONS\s*:\s*\[&str;\s*\d+\]\s*=\s*\[([^\]]*)\]", src)
    if not m:
        raise KeyError("IGNORED_EXTENSIONS")
    ignored = re.findall(r'"([^"]*)"', m.group(1))
    body = fn_body(src, r"pub fn default_auto_escape_callback\s*\(")
    arms = {}
    for pats, mode in re.findall(r'Some\(([^)]*)\)\s*=>\s*AutoEscape::(\w+)', body):
        arms.setdefault(mode, []).extend(re.findall(r'"([^"]*)"', pats))
    if "Html" not in arms or "Json" not in arms:
        raise KeyError("default_auto_escape_callback arms")
    if not re.search(r"_\s*=>\s*AutoEscape::None", body) or "rsplit('.')" not in body \
            or not re.search(r"strip_suffix\(ext\)\s*\{\s*name = stripped;\s*break;", body):
        raise KeyError("default_auto_escape_callback shape")
    lst = lambda xs: "[" + ", ".join(lean_str(x) for x in xs) + "]"
    lean = ("def c06AutoEscapeIgnoredExts : List String := %s\n"
            "def c06AutoEscapeHtmlExts : List String := %s\n"
            "def c06AutoEscapeJsonExts : List String := %s" % (lst(ignored), lst(arms["Html"]), lst(arms["Json"])))
    return {"ignored": ignored, "html": arms["Html"], "json": arms["Json"]}, lean
