"""C06 table items: the default auto-escape callback (`defaults.rs`): which template-name
extensions select which `AutoEscape` mode, and which trailing extensions are ignored.  The Lean
model (`MJ.Blocks.modeOfName`) interprets these lists, so a changed arm changes the model."""
import re
from extract_tables import item, read, fn_body, lean_str

DEF = "minijinja/src/defaults.rs"


@item("C06_AUTO_ESCAPE_EXTENSIONS")
def _auto_escape(repo):
    src = read(repo, DEF)
    m = re.search(r"const\s+IGNORED_EXTENSIONS\s*:\s*\[&str;\s*\d+\]\s*=\s*\[([^\]]*)\]", src)
    if not m:
        raise KeyError("IGNORED_EXTENSIONS")
    ignored = re.findall(r'"([^"]*)"', m.group(1))
    body = fn_body(src, r"pub fn default_auto_escape_callback\s*\(")
    arms = {}
    for pats, mode in re.findall(r'Some\(([^)]*)\)\s*=>\s*AutoEscape::(\w+)', body):
        arms.setdefault(mode, []).extend(re.findall(r'"([^"]*)"', pats))
    if "Html" not in arms or "Json" not in arms:
        raise KeyError("default_auto_escape_callback arms")
    if not re.search(r"_\s*=>\s*AutoEscape::None", body) or "rsplit('.')" not in body \
            or not re.search(r"strip_suffix\(ext\)\s*\{\s*name = stripped;\s*break;", body):
        raise KeyError("default_auto_escape_callback shape")
    lst = lambda xs: "[" + ", ".join(lean_str(x) for x in xs) + "]"
    lean = ("def c06AutoEscapeIgnoredExts : List String := %s\n"
            "def c06AutoEscapeHtmlExts : List String := %s\n"
            "def c06AutoEscapeJsonExts : List String := %s" % (lst(ignored), lst(arms["Html"]), lst(arms["Json"])))
    return {"ignored": ignored, "html": arms["Html"], "json": arms["Json"]}, lean


@item("C06_UNDEFINED_TABLES")
def _undefined(repo):
    """`UndefinedBehavior::handle_undefined` (attribute / item lookup on a value) and the set of
    modes under which `Emit` of an undefined value fails (`strict_undefined` in `eval_impl`)."""
    utils = read(repo, "minijinja/src/utils.rs")
    body = fn_body(utils, r"pub\(crate\) fn handle_undefined\s*\(")
    rows = []
    for arm in re.finditer(r"((?:\|?\s*\(UndefinedBehavior::\w+,\s*(?:true|false|_)\)\s*)+)=>\s*(Ok|Err)\(", body):
        for mode, flag in re.findall(r"\(UndefinedBehavior::(\w+),\s*(true|false|_)\)", arm.group(1)):
            for f in ([True, False] if flag == "_" else [flag == "true"]):
                rows.append((mode, f, arm.group(2) == "Err"))
    modes = sorted({m for m, _, _ in rows})
    if len({(m, f) for m, f, _ in rows}) != len(rows) or len(rows) != 2 * len(modes):
        raise KeyError("handle_undefined arms do not form a total table")
    vm = read(repo, "minijinja/src/vm/mod.rs")
    m = re.search(r"let strict_undefined = matches!\(\s*undefined_behavior,\s*([^)]*)\)", vm)
    if not m:
        raise KeyError("strict_undefined")
    strict = re.findall(r"UndefinedBehavior::(\w+)", m.group(1))
    lean = ("def c06HandleUndefined : List (String × Bool × Bool) := [%s]\n"
            "def c06StrictEmit : List String := [%s]" % (
                ", ".join("(%s, %s, %s)" % (lean_str(a), str(b).lower(), str(c).lower()) for a, b, c in sorted(rows)),
                ", ".join(lean_str(x) for x in strict)))
    return {"handle_undefined": sorted(rows), "strict_emit": strict}, lean
