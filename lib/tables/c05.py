"""C05 table items, regenerated from the sources on every run into lean/MJ/Gen/Tables.lean:

* C05_INSTRUCTIONS   — the variants of `enum Instruction` (compiler/instructions.rs)
* C05_VM_ARMS        — for every `Instruction::X` arm of `eval_impl` (vm/mod.rs) which of the three
                       stacks / the program counter its body mentions (syntactically) and whether
                       it starts a nested evaluation
* C05_CODEGEN_ARMS   — for the scoped `ast::Stmt` arms of `compile_stmt` and for
                       `leave_scopes_of_innermost_loop` (compiler/codegen.rs) the balance-relevant
                       instructions they add, in textual order
* C05_HARNESS_OTHER  — the instruction names the harness projects to `other` (harness/src/bin/c05.rs)
* C05_RESTORE_ORDER  — for eval_macro / perform_super / perform_include: the order of
                       "run nested evaluation", "restore", "look at the result" landmarks

`MJ/Props/C05.lean` proves (by `decide`) that the model's alphabet, the harness projection and the
model code generator agree with these tables.
"""
import os, re
from extract_tables import item, read, fn_body, lean_str

VM = "minijinja/src/vm/mod.rs"
CODEGEN = "minijinja/src/compiler/codegen.rs"
INSTR = "minijinja/src/compiler/instructions.rs"
HERE = os.path.dirname(os.path.dirname(os.path.dirname(os.path.abspath(__file__))))


def _strip_comments(src):
    return re.sub(r"//[^\n]*", "", src)


def _lean_list(xs):
    return "[" + ", ".join(lean_str(x) for x in xs) + "]"


def _b(x):
    return "true" if x else "false"


@item("C05_INSTRUCTIONS")
def _instructions(repo):
    src = _strip_comments(read(repo, INSTR))
    body = fn_body(src, r"pub enum Instruction<'source>\s*\{")
    names = re.findall(r"^\s{4}([A-Z]\w*)\s*(?:\(|,)", body, re.M)
    if len(names) < 40:
        raise KeyError("enum Instruction: too few variants found")
    return names, "def c05Instructions : List String := " + _lean_list(names)


def _vm_arms(repo):
    src = _strip_comments(read(repo, VM))
    body = fn_body(src, r"fn eval_impl\s*\(")
    m = re.search(r"\bmatch instr\s*\{", body)
    if not m:
        raise KeyError("eval_impl: match instr")
    disp = body[m.end():]
    heads = list(re.finditer(r"^\s{16}Instruction::(\w+)(?:\([^)]*\))?\s*=>", disp, re.M))
    if len(heads) < 40:
        raise KeyError("eval_impl: too few arms found")
    arms = []
    for i, h in enumerate(heads):
        end = heads[i + 1].start() if i + 1 < len(heads) else len(disp)
        text = disp[h.end():end]
        # the text of an arm ends where the dispatch ends (`pc += 1;` after the match)
        text = text.split("\n            }\n            pc += 1;")[0]
        frames = bool(re.search(r"push_frame|pop_frame|push_loop|next_loop_item|current_loop\(\)", text))
        caps = bool(re.search(r"begin_capture|end_capture", text))
        esc = bool(re.search(r"auto_escape_stack", text))
        jump = bool(re.search(r"\bpc\s*=[^=]|recurse_loop!|=>\s*break\b|\bbreak\s*[,;]", text)) or text.strip().startswith("break")
        nested = bool(re.search(r"perform_include|perform_super|Self::call_block|\.call\(state|call_method\(state|func\.call\(", text))
        arms.append((h.group(1), frames, caps, esc, jump, nested))
    return arms


@item("C05_VM_ARMS")
def _vm_arms_item(repo):
    arms = _vm_arms(repo)
    lean = ("def c05VmArms : List (String × Bool × Bool × Bool × Bool × Bool) := [\n  "
            + ",\n  ".join(f"({lean_str(n)}, {_b(f)}, {_b(c)}, {_b(e)}, {_b(j)}, {_b(x)})" for n, f, c, e, j, x in arms) + "]")
    return arms, lean


BAL = ["PushWith", "PopFrame", "PushLoop", "Iterate", "PushDidNotIterate", "PopLoopFrame", "BeginCapture",
       "EndCapture", "PushAutoEscape", "PopAutoEscape", "Jump", "JumpIfFalse", "FastRecurse", "Return",
       "BuildMacro", "DiscardTop", "Include", "ExportLocals"]


def _seq(text):
    return re.findall(r"Instruction::(%s)\b" % "|".join(BAL), text)


@item("C05_CODEGEN_ARMS")
def _codegen_arms(repo):
    src = _strip_comments(read(repo, CODEGEN))
    body = fn_body(src, r"pub fn compile_stmt\s*\(")
    heads = list(re.finditer(r"^\s{12}ast::Stmt::(\w+)\(\w+\)\s*=>", body, re.M))
    if len(heads) < 10:
        raise KeyError("compile_stmt: too few arms found")
    rows = []
    for i, h in enumerate(heads):
        end = heads[i + 1].start() if i + 1 < len(heads) else len(body)
        text = body[h.end():end]
        if h.group(1) in ("WithBlock", "SetBlock", "AutoEscape", "FilterBlock", "Import", "FromImport", "Break", "Continue"):
            calls = re.findall(r"self\.(start_scope\(PendingScope::\w+\)|end_scope\(\)|leave_scopes_of_innermost_loop\(\))|Instruction::(%s)\b" % "|".join(BAL), text)
            seq = []
            for call, ins in calls:
                seq.append(ins if ins else re.sub(r"[^A-Za-z:]", "", call).replace("PendingScope::", ":"))
            rows.append((h.group(1), seq))
    # start_for_loop / end_for_loop / leave_scopes_of_innermost_loop / compile_macro_expression
    for fn in ("start_for_loop", "end_for_loop", "compile_macro_expression"):
        rows.append((fn, _seq(fn_body(src, r"fn %s\s*\(" % fn))))
    leave = fn_body(src, r"fn leave_scopes_of_innermost_loop\s*\(")
    for scope in ("With", "Capture", "AutoEscape"):
        m = re.search(r"PendingScope::%s\s*=>\s*\{(.*?)\n\s{16}\}" % scope, leave, re.S)
        if not m:
            raise KeyError("leave_scopes_of_innermost_loop: " + scope)
        rows.append(("leave:" + scope, _seq(m.group(1))))
    if "take_while(|x| !matches!(x, PendingBlock::Loop" not in leave.replace("\n", " ").replace("  ", ""):
        if not re.search(r"take_while\(\|x\|\s*!matches!\(x,\s*PendingBlock::Loop", leave):
            raise KeyError("leave_scopes_of_innermost_loop: does not stop at the innermost loop")
    lean = ("def c05CodegenArms : List (String × List String) := [\n  "
            + ",\n  ".join(f"({lean_str(n)}, {_lean_list(s)})" for n, s in rows) + "]")
    return rows, lean


@item("C05_HARNESS_OTHER")
def _harness_other(repo):
    src = read(HERE, "harness/src/bin/c05.rs")
    body = fn_body(src, r"fn tok\(i: &Instruction<'_>\) -> String\s*\{")
    m = re.search(r"EmitRaw\(_\)(.*?)=>\s*\"o\"\.into\(\)", body, re.S)
    if not m:
        raise KeyError("harness tok(): the `other` arm")
    names = ["EmitRaw"] + re.findall(r"\|\s*([A-Z]\w*)", m.group(1))
    mapped = re.findall(r"^\s{8}([A-Z]\w*)(?:\([^)]*\))?\s*=>", body, re.M)
    lean = ("def c05HarnessOther : List String := " + _lean_list(names) + "\n"
            "def c05HarnessMapped : List String := " + _lean_list(mapped))
    return {"other": names, "mapped": mapped}, lean


@item("C05_RESTORE_ORDER")
def _restore_order(repo):
    src = _strip_comments(read(repo, VM))
    rows = []
    spec = {
        "eval_macro": [("run", r"state\.with_execution_state\("), ("restore", r"mem::replace\(&mut state\.ctx, old_ctx\)"),
                       ("result", r"\n\s{8}rv\n")],
        "perform_super": [("run", r"state\.with_execution_state\("), ("restore", r"state\.ctx\.pop_frame\(\);"),
                          ("restore2", r"state\.blocks\.get_mut\(name\)\.unwrap\(\)\.pop\(\);\s*\n\s*(?:#\[cfg[^\]]*\]\s*\n\s*[^\n]*\n\s*)?\s*ok!\(rv"),
                          ("result", r"ok!\(rv\.map_err")],
        "perform_include": [("loop", r"for choice in choices"), ("take", r"state\.ctx\.take_closure\(\)"),
                            ("run", r"state\.with_execution_state\("), ("restore", r"state\.ctx\.reset_closure\(old_closure\)"),
                            ("restore2", r"state\.ctx\.decr_depth\(INCLUDE_RECURSION_COST\)"), ("result", r"ok!\(rv\.map_err")],
    }
    for fn, marks in spec.items():
        body = fn_body(src, r"fn %s(?:<'template>)?\s*\(\s*\n\s*(?:name: Value,\s*\n\s*)?state: &mut State" % fn)
        pos = []
        for name, rx in marks:
            ms = list(re.finditer(rx, body))
            if len(ms) != 1:
                raise KeyError(f"{fn}: expected exactly one `{name}` landmark, found {len(ms)}")
            pos.append((ms[0].start(), name))
        pos.sort()
        rows.append((fn, [n for _, n in pos]))
    lean = ("def c05RestoreOrder : List (String × List String) := [\n  "
            + ",\n  ".join(f"({lean_str(n)}, {_lean_list(s)})" for n, s in rows) + "]")
    return rows, lean


@item("C05_HOOK_NOT_BRANCHES")
def _hook_not_branches(repo):
    """every `cfg(not(feature = "verif_hooks"))` in the files C05 hooks: a hook site must contain the
    real call exactly once (only additions are guarded), otherwise the feature-off line — the code
    users run — is invisible to every check"""
    rows = []
    for rel in ("minijinja/src/vm/mod.rs", "minijinja/src/vm/state.rs", "minijinja/src/vm/macro_object.rs",
                "minijinja/src/vm/context.rs", "minijinja/src/vm/loop_object.rs"):
        for n, line in enumerate(read(repo, rel).splitlines(), 1):
            if re.search(r'not\(\s*feature\s*=\s*"verif_hooks"\s*\)', line):
                rows.append(f"{rel}:{n}")
    return rows, "def c05HookNotBranches : List String := " + _lean_list(rows)


SCOPED_FIELDS = ("auto_escape", "current_block", "instructions", "blocks", "loaded_templates", "ctx")


def _enclosing_fn(lines, idx):
    for j in range(idx, -1, -1):
        m = re.match(r"\s*(?:pub(?:\([^)]*\))?\s+)?fn\s+(\w+)", lines[j])
        if m:
            return m.group(1)
    return "?"


@item("C05_STATE_WRITERS")
def _state_writers(repo):
    """every site anywhere in the crate that writes one of the scoped fields of `State` (assignment,
    mem::replace / swap / take), the frame stack / depth / closure register of `Context`, or the
    capture stack of `Output`: (field, operation, file::fn)"""
    root = os.path.join(repo, "minijinja/src")
    rows = []
    for dirpath, _, files in os.walk(root):
        for fn in sorted(files):
            if not fn.endswith(".rs") or fn == "verif_hooks.rs":
                continue
            rel = os.path.relpath(os.path.join(dirpath, fn), root)
            src = _strip_comments(open(os.path.join(dirpath, fn), encoding="utf-8").read())
            lines = src.splitlines()
            for i, line in enumerate(lines):
                if "verif" in line:
                    continue
                for f in SCOPED_FIELDS:
                    if re.search(r"\b(?:self|state)\.%s\s*=[^=]" % f, line):
                        rows.append((f, "assign", f"{rel}::{_enclosing_fn(lines, i)}"))
                    m = re.search(r"mem::(replace|swap|take)\(\s*&mut (?:self|state)\.%s\b" % f, line)
                    if m:
                        rows.append((f, m.group(1), f"{rel}::{_enclosing_fn(lines, i)}"))
                if rel == "vm/context.rs":
                    m = re.search(r"self\.stack\.(push|pop|truncate|clear)\(", line)
                    if m:
                        rows.append(("frames", m.group(1), f"{rel}::{_enclosing_fn(lines, i)}"))
                    m = re.search(r"self\.outer_stack_depth\s*(\+=|-=|=[^=])", line)
                    if m:
                        rows.append(("depth", m.group(1).strip()[:2].strip(), f"{rel}::{_enclosing_fn(lines, i)}"))
                    m = re.search(r"\.closure(?:\.take\(\)|\s*=[^=])", line)
                    if m:
                        rows.append(("closure", "take" if "take" in m.group(0) else "assign", f"{rel}::{_enclosing_fn(lines, i)}"))
                if rel == "output.rs":
                    m = re.search(r"capture_stack\.(push|pop)\(", line)
                    if m:
                        rows.append(("captures", m.group(1), f"{rel}::{_enclosing_fn(lines, i)}"))
    rows.sort()
    if len(rows) < 15:
        raise KeyError("state writers: too few sites found")
    lean = ("def c05StateWriters : List (String × String × String) := [\n  "
            + ",\n  ".join(f"({lean_str(a)}, {lean_str(b)}, {lean_str(c)})" for a, b, c in rows) + "]")
    return rows, lean


def _depth_at(body, pos):
    """brace depth (relative to the function body) at offset pos"""
    d = 0
    for ch in body[:pos]:
        if ch == "{":
            d += 1
        elif ch == "}":
            d -= 1
    return d


@item("C05_HELPER_RESTORES")
def _helper_restores(repo):
    """for every save/restore helper outside the instruction pairs: where it runs the nested code and
    where it restores — (site, restore landmark, brace depth of the restore inside the function body,
    the nested run is not wrapped in an early-return macro, no `return` between run and restore)"""
    vm = _strip_comments(read(repo, VM))
    st = _strip_comments(read(repo, "minijinja/src/vm/state.rs"))
    spec = [
        ("state.rs::with_auto_escape", st, r"fn with_auto_escape<R>\s*\(", r"let rv = f\(self\);",
         [("auto_escape", r"self\.auto_escape = old;")]),
        ("state.rs::with_execution_state", st, r"fn with_execution_state<R>\s*\(", r"let rv = f\(self\);",
         [("frames", r"self\.ctx\.restore_stack_depth\(stack_depth\);"), ("instructions", r"self\.instructions = old_instructions;"),
          ("auto_escape", r"self\.auto_escape = old_auto_escape;"), ("current_block", r"self\.current_block = old_current_block;"),
          ("blocks", r"self\.blocks = blocks;"), ("loaded_templates", r"self\.loaded_templates = loaded_templates;\s*\n\s*\}\s*\n\s*None")]),
        ("vm/mod.rs::eval_macro", vm, r"fn eval_macro<'template>\s*\(", r"let rv = state\.with_execution_state\(",
         [("ctx", r"mem::replace\(&mut state\.ctx, old_ctx\)")]),
        ("vm/mod.rs::perform_super", vm, r"fn perform_super\s*\(", r"let rv = state\.with_execution_state\(",
         [("frames", r"state\.ctx\.pop_frame\(\);"), ("blocks", r"state\.blocks\.get_mut\(name\)\.unwrap\(\)\.pop\(\);\s*\n\s*\n?\s*(?:#\[[^\]]*\]\s*)?(?:[^\n]*\n)?\s*ok!\(rv")]),
        ("vm/mod.rs::perform_include", vm, r"fn perform_include\s*\(", r"let rv = state\.with_execution_state\(",
         [("closure", r"state\.ctx\.reset_closure\(old_closure\);"), ("depth", r"state\.ctx\.decr_depth\(INCLUDE_RECURSION_COST\);")]),
    ]
    rows = []
    for site, src, head, run_rx, restores in spec:
        body = fn_body(src, head)
        runs = list(re.finditer(run_rx, body))
        if len(runs) != 1:
            raise KeyError(f"{site}: expected exactly one nested run `{run_rx}`, found {len(runs)}")
        run = runs[0]
        run_depth = _depth_at(body, run.start())
        for field, rx in restores:
            ms = list(re.finditer(rx, body))
            if len(ms) != 1:
                raise KeyError(f"{site}: expected exactly one restore of {field}, found {len(ms)}")
            r0 = ms[0]
            if r0.start() < run.start():
                raise KeyError(f"{site}: restore of {field} in front of the nested run")
            between = body[run.end():r0.start()]
            # the restore is as deep as the run (+ the mode switch of with_execution_state)
            rel_depth = _depth_at(body, r0.start()) - run_depth
            ret_between = bool(re.search(r"\breturn\b|\bok!\(|\?;", between.split("|state|")[0] if "|state|" not in between else re.sub(r"\|state\|.*?\n\s*\);", "", between, flags=re.S)))
            rows.append((site, field, rel_depth, ret_between))
    lean = ("def c05HelperRestores : List (String × String × Int × Bool) := [\n  "
            + ",\n  ".join(f"({lean_str(a)}, {lean_str(b)}, {c}, {_b(d)})" for a, b, c, d in rows) + "]")
    return rows, lean


@item("C05_STATE_BUILTINS")
def _state_builtins(repo):
    """the builtin filters / tests / functions that are handed the State (from their signatures) and
    the ones the harness applies inside every scoped construct"""
    names = []
    for rel in ("filters.rs", "tests.rs", "functions.rs"):
        src = _strip_comments(read(repo, "minijinja/src/" + rel))
        names += re.findall(r"pub fn (\w+)\s*(?:<[^>]*>)?\(\s*\w+:\s*&(?:mut )?State", src)
    if len(names) < 10:
        raise KeyError("builtins with State: too few found")
    h = read(HERE, "harness/src/bin/c05.rs")
    m = re.search(r"const BI_COVERED: \[&str; \d+\] = \[(.*?)\];", h, re.S)
    if not m:
        raise KeyError("harness: BI_COVERED")
    covered = re.findall(r'"(\w+)"', m.group(1))
    lean = ("def c05StateBuiltins : List String := " + _lean_list(names) + "\n"
            "def c05HarnessBuiltins : List String := " + _lean_list(covered))
    return {"source": names, "harness": covered}, lean


RECURSION_VARS = ("loop_recursion_bases", "next_loop_recursion_jump", "recursion_jump", "current_recursion_jump", r"stack\.truncate")


def _stmt_and_guards(text, pos):
    """the statement (or block header) around offset pos, and the `if` headers of the blocks that
    are open there, outermost first — whitespace collapsed"""
    norm = lambda t: re.sub(r"\s+", " ", t).strip()
    # statement: back to the previous ; { } and forward to the next ; or {
    a = max(text.rfind(c, 0, pos) for c in ";{}") + 1
    ends = [e for e in (text.find(c, pos) for c in ";{") if e >= 0]
    b = min(ends) if ends else len(text)
    stmt = norm(text[a:b])
    guards, stack = [], []
    for i, ch in enumerate(text[:pos]):
        if ch == "{":
            s0 = max(text.rfind(c, 0, i) for c in ";{}") + 1
            stack.append(norm(text[s0:i]))
        elif ch == "}":
            if stack:
                stack.pop()
    for h in stack:
        if h.startswith("if ") or h.startswith("} else") or h.startswith("else"):
            guards.append(h)
    return stmt, guards


@item("C05_RECURSION_BASES")
def _recursion_bases(repo):
    """every statement of `eval_impl` (by instruction arm; `recurse_loop!` and the prologue by name)
    and of `push_loop` that mentions the bookkeeping of loop recursion — `loop_recursion_bases`,
    `next_loop_recursion_jump`, `recursion_jump`, `current_recursion_jump` — with the `if` conditions it
    is under: (where, statement, guards)"""
    src = _strip_comments(read(repo, VM))
    body = fn_body(src, r"fn eval_impl\s*\(")
    m = re.search(r"\bmatch instr\s*\{", body)
    if not m:
        raise KeyError("eval_impl: match instr")
    regions = []
    pro = body[:m.start()]
    mm = re.search(r"macro_rules! recurse_loop\s*\{", pro)
    if not mm:
        raise KeyError("eval_impl: recurse_loop!")
    mac = fn_body(pro, r"macro_rules! recurse_loop\s*\{")
    regions.append(("prologue", pro[:mm.start()]))
    regions.append(("recurse_loop!", mac))
    disp = body[m.end():]
    heads = list(re.finditer(r"^\s{16}Instruction::(\w+)(?:\([^)]*\))?\s*=>", disp, re.M))
    for i, h in enumerate(heads):
        end = heads[i + 1].start() if i + 1 < len(heads) else len(disp)
        text = disp[h.end():end].split("\n            }\n            pc += 1;")[0]
        regions.append((h.group(1), text))
    regions.append(("push_loop", fn_body(src, r"fn push_loop\s*\(")))
    rows = []
    for where, text in regions:
        seen = set()
        for mt in re.finditer(r"\b(%s)\b" % "|".join(RECURSION_VARS), text):
            if "verif" in text[max(0, text.rfind("\n", 0, mt.start())):text.find("\n", mt.start())]:
                continue
            stmt, guards = _stmt_and_guards(text, mt.start())
            if len(stmt) > 100:
                # a long statement: only the call the variable is an argument of
                depth, j = 0, mt.start()
                while j > 0:
                    j -= 1
                    if text[j] == ")":
                        depth += 1
                    elif text[j] == "(":
                        if depth == 0:
                            break
                        depth -= 1
                callee = re.search(r"([\w:!]+)\s*$", text[:j])
                stmt = f"{callee.group(1) if callee else '?'}(.., {mt.group(1)}, ..)"
            key = (stmt, tuple(guards))
            if key in seen:
                continue
            seen.add(key)
            rows.append((where, stmt, guards))
    if not any("loop_recursion_bases.push" in r[1] for r in rows) or not any("loop_recursion_bases.pop" in r[1] for r in rows):
        raise KeyError("eval_impl: loop_recursion_bases push / pop sites")
    lean = ("def c05RecursionBases : List (String × String × List String) := [\n  "
            + ",\n  ".join(f"({lean_str(w)}, {lean_str(s)}, {_lean_list(g)})" for w, s, g in rows) + "]")
    return rows, lean


@item("C05_BACKPATCH_SITES")
def _backpatch_sites(repo):
    """the primitives of the `pending_block` back-patching in codegen.rs, each as the sequence of its
    landmarks in textual order: instructions added, pending blocks pushed / popped, which instruction
    variants get a target written, registration of a `break` jump with the innermost loop"""
    src = _strip_comments(read(repo, CODEGEN))
    rx = re.compile(
        r"self\.add(?:_with_span)?\(\s*Instruction::(\w+)"            # 1 add
        r"|self\.pending_block\.push\(\s*PendingBlock::(\w+)"          # 2 push
        r"|self\.pending_block\.(pop)\(\)"                             # 3 pop
        r"|self\.(end_condition)\("                                    # 4
        r"|&mut Instruction::(\w+)\(ref mut"                           # 5 variant that is written
        r"|\*(?:jump_)?target\s*=\s*([\w.() +]+);"                     # 6 what is written
        r"|jump_instrs\.(push)\(instr\)"                               # 7 register
        r"|self\.(leave_scopes_of_innermost_loop)\(\)"                 # 8
        r"|PendingBlock::Loop\s*\{\s*(iter_instr),\s*\.\.\s*\}")       # 9 continue reads iter_instr
    def marks(text):
        out = []
        for m in rx.finditer(text):
            if m.group(1): out.append("add:" + m.group(1))
            elif m.group(2): out.append("push:" + m.group(2))
            elif m.group(3): out.append("pop")
            elif m.group(4): out.append("end_condition")
            elif m.group(5): out.append("writes:" + m.group(5))
            elif m.group(6): out.append("target=" + re.sub(r"\s+", "", m.group(6)))
            elif m.group(7): out.append("register")
            elif m.group(8): out.append("leave")
            elif m.group(9): out.append("reads:iter_instr")
        return out
    rows = []
    for fn in ("start_if", "start_else", "end_if", "end_condition", "start_for_loop", "end_for_loop",
               "start_scope", "end_scope"):
        rows.append((fn, marks(fn_body(src, r"fn %s\s*\(" % fn))))
    mac = fn_body(src, r"fn compile_macro_expression\s*\(")
    rows.append(("compile_macro_expression", [x for x in marks(mac) if x.split(":")[-1] in ("Jump", "Return", "BuildMacro") or x.startswith("target=")]))
    body = fn_body(src, r"pub fn compile_stmt\s*\(")
    for arm in ("Continue", "Break"):
        m = re.search(r"ast::Stmt::%s\(\w+\)\s*=>\s*\{" % arm, body)
        if not m:
            raise KeyError("compile_stmt: " + arm)
        rows.append((arm, marks(fn_body(body[m.start():], r"=>\s*\{"))))
    lean = ("def c05BackpatchSites : List (String × List String) := [\n  "
            + ",\n  ".join(f"({lean_str(n)}, {_lean_list(s)})" for n, s in rows) + "]")
    return rows, lean


VM_EFFECTS = [("frames+", r"\.push_frame\("), ("frames-", r"\.pop_frame\("),
              ("caps+", r"\.begin_capture\("), ("caps-", r"\.end_capture\("),
              ("escs+", r"auto_escape_stack\.push\("), ("escs-", r"auto_escape_stack\.pop\("),
              ("bases+", r"loop_recursion_bases\.push\("), ("bases-", r"loop_recursion_bases\.pop\(")]


@item("C05_VM_EFFECTS")
def _vm_effects(repo):
    """EVERY push / pop on the frame stack, the capture stack, the auto-escape stack and
    `loop_recursion_bases` in `eval_impl`, counted per instruction arm (the helper `push_loop`, which
    runs in the same activation, inlined; lines of verification hooks skipped), plus the rows
    `recurse_loop!` (the macro body), `end-of-stream` (the `None` arm of the instruction fetch) and
    `prologue` (everything else in front of the dispatch): (where, [frames+, frames-, caps+, caps-,
    escs+, escs-, bases+, bases-], first arguments of the `recurse_loop!` calls of the arm, number of
    nested evaluations started: perform_include / perform_super / call_block)"""
    src = _strip_comments(read(repo, VM))
    body = fn_body(src, r"fn eval_impl\s*\(")
    m = re.search(r"\bmatch instr\s*\{", body)
    if not m:
        raise KeyError("eval_impl: match instr")
    disp = body[m.end():]
    pro = body[:m.start()]
    mac = fn_body(pro, r"macro_rules! recurse_loop\s*\{")
    push_loop = fn_body(src, r"fn push_loop\s*\(")
    heads = list(re.finditer(r"^\s{16}Instruction::(\w+)(?:\([^)]*\))?\s*=>", disp, re.M))
    if len(heads) < 40:
        raise KeyError("eval_impl: too few arms found")

    def count(text):
        text = "\n".join(l for l in text.splitlines() if "verif" not in l)
        return ([len(re.findall(rx, text)) for _, rx in VM_EFFECTS],
                re.findall(r"recurse_loop!\(\s*(\w+)", text),
                len(re.findall(r"perform_include\(|perform_super\(|Self::call_block\(", text)))
    rows = []
    for i, h in enumerate(heads):
        end = heads[i + 1].start() if i + 1 < len(heads) else len(disp)
        text = disp[h.end():end].split("\n            }\n            pc += 1;")[0]
        text = text.replace("Self::push_loop(", "{" + push_loop + "}(")
        rows.append((h.group(1),) + count(text))
    rows.append(("recurse_loop!",) + count(mac))
    mm = re.search(r"let instr = match state\.instructions\.get\(pc\)\s*\{", body)
    if not mm:
        raise KeyError("eval_impl: instruction fetch")
    eos = fn_body(body[mm.start():], r"match state\.instructions\.get\(pc\)\s*\{")
    rows.append(("end-of-stream",) + count(eos))
    rows.append(("prologue",) + count(body[:mm.start()].replace(mac, "")))
    # the condition of the capture of a recursion: `if $capture { out.begin_capture(..) }`
    if not re.search(r"if \$capture\s*\{\s*out\.begin_capture\(CaptureMode::Capture\);\s*\}", mac):
        raise KeyError("recurse_loop!: the capture is not begun under `if $capture`")
    # the conditions the one `end_capture` of the end-of-stream logic is under (the model
    # `MJ.Extends.endOfStream` pops whatever is on top whenever a parent was loaded)
    pos = [m0.start() for m0 in re.finditer(r"\.end_capture\(", eos)]
    if len(pos) != 1:
        raise KeyError("end-of-stream: expected exactly one end_capture")
    stmt, guards = _stmt_and_guards(eos, pos[0])
    lean = ("def c05VmEffects : List (String × List Nat × List String × Nat) := [\n  "
            + ",\n  ".join(f"({lean_str(n)}, [{', '.join(map(str, c))}], {_lean_list(r)}, {x})" for n, c, r, x in rows) + "]\n"
            + "def c05EndOfStreamPop : String × List String := (" + lean_str(stmt) + ", " + _lean_list(guards) + ")")
    return {"rows": rows, "end_of_stream_pop": [stmt, guards]}, lean
