"""C17 table items, regenerated from /repo on every run.

C17_SAFE_JOIN_RULES    the segment rules of `loader::safe_join`: the separator the template name is
                       split on and the rejection condition (`||` of `seg.starts_with('c')`,
                       `seg.contains('c')`, `seg == "lit"`).  The Lean model's `badSeg`/`safeJoin`
                       are DEFINED from these, so the confinement theorems are re-checked against
                       what the source says now (dropping a rule makes `escape_rejected` fail).
                       Only the rules are extracted, not how the accepted segments are joined
                       (that is compared behaviourally), so `push` vs. `join` refactors are free.
C17_PATH_LOADER_SHAPE  what `path_loader` captures as its base (`let dir = …;` before the closure),
                       every `fs::…` call in it, the variable bound to `safe_join`'s result and
                       what is handed to the read, every call whose name is in a file-system
                       vocabulary (whatever its spelling), and how often the joined path, the
                       base and the name are mentioned at all (a reassignment, `.push(`, `.join(`,
                       `format!("{name}…")` or a second probe changes one of the counts).  The model's loader keeps the configured
                       base verbatim and reads exactly one path per request.
C17_LOADER_ENTRY_SITES the functions of the engine that ask the template store / loader for a
                       template by name (`get_template(`, `join_template_path(`, `templates.get(`,
                       `templates.iter(`); each must be driven by a form of the harness.
C17_NAME_FLOW          every call by which a template NAME travels towards the loader (`get_template`,
                       `join_template_path`, `templates.get`, the loader closure, the path-join
                       callback) with the function it sits in, its receiver and its ARGUMENT TEXT
                       (+ where a plain variable argument was bound): the Lean `Engine` model's
                       routes (`MJ/Model/PathRoutes.lean`) are compared with it row by row.
C17_STMT_ROUTES        statement -> instruction (codegen) -> fetching function (VM dispatch) for
                       include / import / from-import / extends, and the number of calls of the
                       two fetching functions.
"""
import re, os, glob
from extract_tables import item, read, fn_body, lean_str, lean_char

LOADER = "minijinja/src/loader.rs"


def _unchar(lit):
    """content of a Rust char literal body such as `.`, `\\\\`, `\\'`"""
    if lit.startswith("\\"):
        esc = {"\\\\": "\\", "\\'": "'", "\\n": "\n", "\\t": "\t", "\\0": "\0", '\\"': '"'}
        if lit in esc:
            return esc[lit]
        raise KeyError(f"char escape {lit}")
    if len(lit) != 1:
        raise KeyError(f"char literal {lit!r}")
    return lit


def _strip_comments(src):
    return re.sub(r"//[^\n]*", "", src)


@item("C17_SAFE_JOIN_RULES")
def _safe_join_rules(repo):
    src = read(repo, LOADER)
    body = _strip_comments(fn_body(src, r"pub fn safe_join\(base: &Path, template: &str\) -> Option<PathBuf>\s*\{"))
    m = re.search(r"for\s+(\w+)\s+in\s+template\s*\.split\('((?:\\.|[^'\\]))'\)\s*\{", body)
    if not m:
        raise KeyError("safe_join: `for seg in template.split('c')`")
    seg, sep = m.group(1), _unchar(m.group(2))
    if len(re.findall(r"\.split\w*\(", body)) != 1:
        raise KeyError("safe_join: more than one split")
    loop = fn_body(body[m.start():], r"for\s+\w+\s+in[^{]*\{")
    c = re.search(r"^\s*if\s+(.*?)\s*\{\s*return\s+None\s*;\s*\}", loop, re.S)
    if not c:
        raise KeyError("safe_join: the loop does not start with `if <cond> { return None; }`")
    if len(re.findall(r"\bif\b", body)) != 1 or len(re.findall(r"return\s+None", body)) != 1:
        raise KeyError("safe_join: more than one condition / early return")
    prefix, contains, equals = [], [], []
    for atom in c.group(1).split("||"):
        atom = atom.strip()
        a = re.fullmatch(r"%s\s*\.starts_with\('((?:\\.|[^'\\]))'\)" % seg, atom)
        b = re.fullmatch(r"%s\s*\.contains\('((?:\\.|[^'\\]))'\)" % seg, atom)
        e = re.fullmatch(r'%s\s*==\s*"([^"\\]*)"' % seg, atom)
        if a:
            prefix.append(_unchar(a.group(1)))
        elif b:
            contains.append(_unchar(b.group(1)))
        elif e:
            equals.append(e.group(1))
        else:
            raise KeyError(f"safe_join: condition atom {atom!r} not understood")
    lean = (f"def c17SafeJoinSep : Char := {lean_char(sep)}\n"
            f"def c17RejectPrefix : List Char := [{', '.join(lean_char(x) for x in prefix)}]\n"
            f"def c17RejectContains : List Char := [{', '.join(lean_char(x) for x in contains)}]\n"
            f"def c17RejectEquals : List String := [{', '.join(lean_str(x) for x in equals)}]")
    return {"sep": sep, "prefix": prefix, "contains": contains, "equals": equals}, lean


@item("C17_PATH_LOADER_SHAPE")
def _path_loader_shape(repo):
    src = read(repo, LOADER)
    m = re.search(r"pub fn path_loader<", src)
    if not m:
        raise KeyError("path_loader")
    # the body is the first `{` after the return type's `'static`
    k = src.index("'static", m.end())
    body = _strip_comments(fn_body(src[k:], r"'static\s*\{"))
    bases = re.findall(r"let\s+dir\s*=\s*(.*?);", body, re.S)
    if len(bases) != 1:
        raise KeyError("path_loader: `let dir = …;`")
    base = re.sub(r"\s+", "", bases[0])
    fs_calls = re.findall(r"\bfs::(\w+)\s*\(", body)
    joins = [re.sub(r"\s+", "", x) for x in re.findall(r"safe_join\s*\((.*?)\)", body)]
    # the variable bound to safe_join's result, and what is handed to the read
    jb = re.findall(r"let\s+Some\(\s*(.*?)\s*\)\s*=\s*safe_join\s*\(", body)
    if len(jb) != 1:
        raise KeyError("path_loader: `let Some(<var>) = safe_join(..)`")
    binding = re.sub(r"\s+", " ", jb[0])
    var = binding.split(" ")[-1]
    read_args = [re.sub(r"\s+", "", x) for x in re.findall(r"\bread_to_string\s*\((.*?)\)", body)]
    # every call / path segment whose name belongs to a file-system vocabulary, whatever its spelling
    # (`fs::x(..)`, `.x(..)`, `File::open`, `OpenOptions::new`, …)
    vocab = ("exists|try_exists|is_file|is_dir|is_symlink|metadata|symlink_metadata|read|read_to_string|read_to_end|"
             "read_dir|read_link|canonicalize|open|create|create_new|write|copy|rename|remove_file|remove_dir|"
             "remove_dir_all|hard_link|File|OpenOptions|DirEntry|ReadDir|walk_dir|current_dir|set_current_dir|include_str|include_bytes")
    fs_vocab = [m.group(1) for m in re.finditer(r"(?<![\w])(%s)\s*(?:\(|::|!)" % vocab, body)]

    def uses(v):
        return len(re.findall(r"(?<![\w.])%s\b" % re.escape(v), body))
    lean = (f"def c17PathLoaderBase : String := {lean_str(base)}\n"
            f"def c17PathLoaderFsCalls : List String := [{', '.join(lean_str(x) for x in fs_calls)}]\n"
            f"def c17PathLoaderJoins : List String := [{', '.join(lean_str(x) for x in joins)}]\n"
            f"def c17PathLoaderJoinBinding : String := {lean_str(binding)}\n"
            f"def c17PathLoaderReadArgs : List String := [{', '.join(lean_str(x) for x in read_args)}]\n"
            f"def c17PathLoaderFsVocab : List String := [{', '.join(lean_str(x) for x in fs_vocab)}]\n"
            f"def c17PathLoaderPathUses : Nat := {uses(var)}\n"
            f"def c17PathLoaderDirUses : Nat := {uses('dir')}\n"
            f"def c17PathLoaderNameUses : Nat := {uses('name')}")
    return {"base": base, "fs_calls": fs_calls, "joins": joins, "join_binding": binding, "read_args": read_args,
            "fs_vocab": fs_vocab, "path_uses": uses(var), "dir_uses": uses("dir"), "name_uses": uses("name")}, lean


@item("C17_LOADER_ENTRY_SITES")
def _entry_sites(repo):
    import glob, os
    sites = []
    files = sorted(glob.glob(os.path.join(repo, "minijinja/src/**/*.rs"), recursive=True))
    for path in files:
        rel = os.path.relpath(path, os.path.join(repo, "minijinja/src"))
        if rel in ("verif_hooks.rs",) or rel.startswith("verif_hooks"):
            continue
        text = open(path, encoding="utf-8").read()
        # blank doc/line comments, keep offsets
        text = re.sub(r"//[^\n]*", lambda mm: " " * len(mm.group(0)), text)
        cut = text.find("#[cfg(test)]\nmod tests")
        if cut >= 0:
            text = text[:cut]
        for mm in re.finditer(r"(?<!fn )\b(get_template|join_template_path)\s*\(|\btemplates\s*\.\s*(get|iter)\s*\(", text):
            fns = list(re.finditer(r"\bfn\s+(\w+)", text[:mm.start()]))
            if not fns:
                continue
            what = mm.group(1) or ("templates." + mm.group(2))
            s = (rel, fns[-1].group(1), what)
            if s not in sites:
                sites.append(s)
    if not sites:
        raise KeyError("no loader entry sites found")
    lean = ("def c17LoaderEntrySites : List (String × String × String) := ["
            + ", ".join(f"({lean_str(a)}, {lean_str(b)}, {lean_str(c)})" for a, b, c in sites) + "]")
    return [list(s) for s in sites], lean


def _norm(stmt):
    return re.sub(r"\s+", "", stmt)


@item("C17_SAFE_JOIN_LOOP")
def _safe_join_loop(repo):
    """the SHAPE of safe_join's loop: what `rv` starts as, what is iterated, the statements of the
    loop body after the filter (`rv.push(<loop variable>)` and nothing else), how often the loop
    variable, the name and the base are mentioned, and what is returned.  One split, one filter,
    one push per segment, all three on the same variable."""
    src = read(repo, LOADER)
    body = _strip_comments(fn_body(src, r"pub fn safe_join\(base: &Path, template: &str\) -> Option<PathBuf>\s*\{"))
    m = re.search(r"for\s+(\w+)\s+in\s+(.*?)\s*\{", body, re.S)
    if not m:
        raise KeyError("safe_join: no `for <var> in <iter> {`")
    var, it = m.group(1), _norm(m.group(2))
    init = [_norm(x) for x in body[:m.start()].split(";") if x.strip()]
    loop = fn_body(body[m.start():], r"for\s+\w+\s+in[^{]*\{")
    c = re.search(r"^\s*if\s+(.*?)\s*\{\s*return\s+None\s*;\s*\}", loop, re.S)
    if not c:
        raise KeyError("safe_join: the loop does not start with `if <cond> { return None; }`")
    after = [_norm(x) for x in loop[c.end():].split(";") if x.strip()]
    # what follows the loop
    k = body.index(loop, m.start()) + len(loop)
    tail = _norm(body[k:].lstrip().lstrip("}"))

    def uses(v, text):
        return len(re.findall(r"(?<![\w.])%s\b" % re.escape(v), text))
    cond_vars = sorted(set(re.findall(r"(?<![\w.'\"])([a-z_]\w*)\s*\.", c.group(1))))
    lean = (f"def c17LoopInit : List String := [{', '.join(lean_str(x) for x in init)}]\n"
            f"def c17LoopVar : String := {lean_str(var)}\n"
            f"def c17LoopIter : String := {lean_str(it)}\n"
            f"def c17LoopFilterSubjects : List String := [{', '.join(lean_str(x) for x in cond_vars)}]\n"
            f"def c17LoopAfterFilter : List String := [{', '.join(lean_str(x) for x in after)}]\n"
            f"def c17LoopTail : String := {lean_str(tail)}\n"
            f"def c17LoopVarUsesAfterFilter : Nat := {uses(var, loop[c.end():])}\n"
            f"def c17SafeJoinTemplateUses : Nat := {uses('template', body)}\n"
            f"def c17SafeJoinBaseUses : Nat := {uses('base', body)}")
    return {"init": init, "var": var, "iter": it, "filter_subjects": cond_vars, "after_filter": after, "tail": tail,
            "var_uses_after_filter": uses(var, loop[c.end():]), "template_uses": uses("template", body),
            "base_uses": uses("base", body)}, lean


@item("C17_PATH_PRODUCERS")
def _path_producers(repo):
    """every function of the engine and of the crates that ship with it (contrib, autoreload) —
    tests, the verification hooks and the build-time embed crate aside — whose body mentions the
    file system or builds a path: `PathBuf`, `Path::`, `&Path`, `fs::`, `File::`, `OsStr`,
    `std::path`, `std::env::current_dir`, `read_to_string`, `canonicalize`."""
    import glob, os
    pat = re.compile(r"\bPathBuf\b|\bPath::|&\s*Path\b|\bfs::|\bFile::|\bOsStr\b|\bOsString\b|std::path\b|current_dir\b|read_to_string\b|canonicalize\b|AsRef<Path>")
    out = []
    for crate in ("minijinja", "minijinja-contrib", "minijinja-autoreload"):
        for path in sorted(glob.glob(os.path.join(repo, crate, "src/**/*.rs"), recursive=True)):
            rel = crate + "/" + os.path.relpath(path, os.path.join(repo, crate, "src"))
            if os.path.basename(path).startswith("verif_hooks"):
                continue
            text = open(path, encoding="utf-8").read()
            # blank comments (doc examples mention paths), keep offsets
            text = re.sub(r"//[^\n]*", lambda mm: " " * len(mm.group(0)), text)
            # raw-string documentation (`#[doc = r#"…"#]`) holds example code
            text = re.sub(r'r#".*?"#', lambda mm: " " * len(mm.group(0)), text, flags=re.S)
            cut = text.find("#[cfg(test)]\nmod tests")
            if cut >= 0:
                text = text[:cut]
            fns = list(re.finditer(r"\bfn\s+(\w+)", text))
            for mm in pat.finditer(text):
                before = [f for f in fns if f.start() < mm.start()]
                if not before:
                    continue      # a `use` line
                s = (rel, before[-1].group(1))
                if s not in out:
                    out.append(s)
    lean = ("def c17PathProducers : List (String × String) := ["
            + ", ".join(f"({lean_str(a)}, {lean_str(b)})" for a, b in out) + "]")
    return [list(s) for s in out], lean


def _call_args(text, k):
    """text[k] is the `(` of a call: the argument text up to the matching `)`"""
    depth, i = 0, k
    while i < len(text):
        c = text[i]
        if c in "([{":
            depth += 1
        elif c in ")]}":
            depth -= 1
            if depth == 0:
                return text[k + 1:i]
        i += 1
    raise KeyError("unbalanced call")

@item("C17_NAME_FLOW")
def _name_flow(repo):
    """every place of the engine (tests and verification hooks aside) where a template NAME travels
    towards the loader: calls of `get_template`, `join_template_path`, `templates.get`, of the loader
    closure (`loader(..)`, the `LoadFunc` held by the store) and of the path-join callback (`cb(..)`),
    each with the function it sits in and its ARGUMENT TEXT (white space removed)."""
    rows = []
    files = sorted(glob.glob(os.path.join(repo, "minijinja/src/**/*.rs"), recursive=True))
    for path in files:
        rel = os.path.relpath(path, os.path.join(repo, "minijinja/src"))
        if rel.startswith("verif_hooks"):
            continue
        text = open(path, encoding="utf-8").read()
        text = re.sub(r"//[^\n]*", lambda mm: " " * len(mm.group(0)), text)
        cut = text.find("#[cfg(test)]\nmod tests")
        if cut >= 0:
            text = text[:cut]
        fns = list(re.finditer(r"\bfn\s+(\w+)", text))
        pat = r"(?<!fn )\b(get_template|join_template_path)\s*\(|\b(templates\s*\.\s*get)\s*\(|(?<![\w.])(loader|cb)\s*\("
        for mm in re.finditer(pat, text):
            before = [f for f in fns if f.start() < mm.start()]
            if not before:
                continue
            callee = re.sub(r"\s+", "", mm.group(1) or mm.group(2) or mm.group(3))
            args = re.sub(r"\s+", "", _call_args(text, mm.end() - 1))
            # the receiver of a method call (`state.`, `self.env().`, `state.env().`)
            recv = re.search(r"((?:\b\w+(?:\(\))?\s*\.\s*)+)$", text[max(0, mm.start() - 80):mm.start()])
            recv = re.sub(r"\s+", "", recv.group(1)) if recv and callee not in ("loader", "cb") else ""
            # a plain variable as argument: where it was bound in this function (first 64 characters)
            av = re.fullmatch(r"&?(\w+)", args)
            if av:
                scope = text[before[-1].start():mm.start()]
                b = re.findall(r"\blet\s+(?:mut\s+)?%s\s*(?::[^=;]+)?=\s*(.*?);" % re.escape(av.group(1)), scope, re.S)
                if b:
                    args += " where " + av.group(1) + "=" + re.sub(r"\s+", "", b[-1]).split(".ok_or_else(")[0][:64]
            rows.append((rel, before[-1].group(1), recv + callee, args))
    if not rows:
        raise KeyError("no name-flow call sites found")
    lean = ("def c17NameFlow : List (String × String × String × String) := [\n  "
            + ",\n  ".join(f"({lean_str(a)}, {lean_str(b)}, {lean_str(c)}, {lean_str(d)})" for a, b, c, d in rows) + "]")
    return [list(r) for r in rows], lean

@item("C17_STMT_ROUTES")
def _stmt_routes(repo):
    """how a statement that names a template becomes a call of one of the two fetching functions:
    the instruction `compiler/codegen.rs` emits for `ast::Stmt::{Include, Import, FromImport,
    Extends}` and the function the VM's dispatch calls for that instruction."""
    cg = re.sub(r"//[^\n]*", "", read(repo, "minijinja/src/compiler/codegen.rs"))
    vm = re.sub(r"//[^\n]*", "", read(repo, "minijinja/src/vm/mod.rs"))
    cut = vm.find("#[cfg(test)]\nmod tests")
    vm = vm[:cut] if cut >= 0 else vm
    rows = []
    arms = list(re.finditer(r"\bast::Stmt::(\w+)\s*\(", cg))
    for i, a in enumerate(arms):
        seg = cg[a.end():arms[i + 1].start() if i + 1 < len(arms) else len(cg)]
        for ins in re.findall(r"\bInstruction::(Include|LoadBlocks)\b", seg):
            r = ("codegen", "Stmt::" + a.group(1), ins)
            if r not in rows:
                rows.append(r)
    arms = list(re.finditer(r"\bInstruction::(\w+)\b[^=\n]*=>", vm))
    for i, a in enumerate(arms):
        seg = vm[a.end():arms[i + 1].start() if i + 1 < len(arms) else len(vm)]
        for fn in re.findall(r"\bSelf::(perform_include|load_blocks)\s*\(", seg):
            r = ("vm", "Instruction::" + a.group(1), fn)
            if r not in rows:
                rows.append(r)
    # every call of the two functions, wherever it sits
    calls = sorted(set(re.findall(r"(?<!fn )\b(perform_include|load_blocks)\s*\(", vm)))
    n_calls = len(re.findall(r"(?<!fn )\b(?:perform_include|load_blocks)\s*\(", vm))
    if not rows:
        raise KeyError("no statement routes found")
    lean = ("def c17StmtRoutes : List (String × String × String) := ["
            + ", ".join(f"({lean_str(a)}, {lean_str(b)}, {lean_str(c)})" for a, b, c in rows) + "]\n"
            f"def c17FetchFnCalls : Nat := {n_calls}")
    return {"routes": [list(r) for r in rows], "calls": calls, "n_calls": n_calls}, lean

@item("C17_WATCH_ARGS")
def _watch_args(repo):
    """minijinja-autoreload's `watch_path` / `unwatch_path` (the only functions outside loader.rs
    that take a path): what becomes of the `path` parameter — how it is rebound, which calls it is
    an argument of, and how often it is mentioned at all."""
    src = re.sub(r"//[^\n]*", "", read(repo, "minijinja-autoreload/src/lib.rs"))
    rows = []
    for fn in ("watch_path", "unwatch_path"):
        m = re.search(r"pub fn %s<P: AsRef<Path>>\(&self, path: P[^)]*\)\s*\{" % fn, src)
        if not m:
            raise KeyError(f"autoreload: pub fn {fn}<P: AsRef<Path>>(&self, path: P, ..)")
        body = fn_body(src[m.start():], r"pub fn %s<P: AsRef<Path>>\(&self, path: P[^)]*\)\s*\{" % fn)
        binds = [re.sub(r"\s+", "", x) for x in re.findall(r"let\s+path\s*=\s*(.*?);", body, re.S)]
        calls = []
        for c in re.finditer(r"([\w.:]+)\s*\(", body):
            args = re.sub(r"\s+", "", _call_args(body, c.end() - 1))
            if re.search(r"(?<![\w.])path\b", args) and "|" not in args:
                calls.append(c.group(1) + "(" + args + ")")
        uses = len(re.findall(r"(?<![\w.])path\b", body))
        rows.append((fn, ";".join(binds), ";".join(calls), uses))
    lean = ("def c17WatchArgs : List (String × String × String × Nat) := ["
            + ", ".join(f"({lean_str(a)}, {lean_str(b)}, {lean_str(c)}, {d})" for a, b, c, d in rows) + "]")
    return [list(r) for r in rows], lean


@item("C17_STORE_GET")
def _store_get(repo):
    """`LoaderStore::get` (the name-keyed store in front of the loader): every call in it whose
    arguments mention `name` or `loader_result` — the look-ups, the loader call, what is compiled and
    stored — with the argument text, and how the two `name` bindings read."""
    src = _strip_comments(read(repo, LOADER))
    body = fn_body(src, r"pub fn get\(&self, name: &str\) -> Result<&CompiledTemplate<'_>, Error>\s*\{")
    rows = []
    for c in re.finditer(r"([\w.:]+)\s*\(", body):
        callee = c.group(1)
        args = re.sub(r"\s+", "", _call_args(body, c.end() - 1))
        if callee in ("Ok", "Some", "ok!", "map") or "||" in args or "|x|" in args:
            # wrappers and the closures themselves (their bodies are scanned on their own)
            if "||" in args or "|x|" in args:
                args = args.split("||")[0].split("|x|")[0].rstrip(",")
            else:
                continue
        if re.search(r"(?<![\w.])(name|loader_result)\b", args):
            rows.append((callee, args))
    binds = [re.sub(r"\s+", "", x) for x in re.findall(r"let\s+name\s*(?::[^=;]+)?=\s*(.*?);", body, re.S)]
    lean = ("def c17StoreGetCalls : List (String × String) := ["
            + ", ".join(f"({lean_str(a)}, {lean_str(b)})" for a, b in rows) + "]\n"
            f"def c17StoreGetNameBindings : List String := [{', '.join(lean_str(x) for x in binds)}]")
    return {"calls": [list(r) for r in rows], "bindings": binds}, lean
