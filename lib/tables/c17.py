"""C17 table items, regenerated from /repo on every run.

C17_SAFE_JOIN_RULES    the segment rules of `loader::safe_join`: the separator the template name is
                       split on and the rejection condition (`||` of `seg.starts_with('c')`,
                       `seg.contains('c')`, `seg == "lit"`).  The Lean model's `badSeg`/`safeJoin`
                       are DEFINED from these, so the confinement theorems are re-checked against
                       what the source says now (dropping a rule makes `escape_rejected` fail).
                       Only the rules are extracted, not how the accepted segments are joined
                       (that is compared behaviourally), so `push` vs. `join` refactors are free.
C17_PATH_LOADER_SHAPE  what `path_loader` captures as its base (`let dir = …;` before the closure),
                       every `fs::…` call in it, the variable bound to `safe_join`'s result and
                       what is handed to the read, every call whose name is in a file-system
                       vocabulary (whatever its spelling), and how often the joined path, the
                       base and the name are mentioned at all (a reassignment, `.push(`, `.join(`,
                       `format!("{name}…")` or a second probe changes one of the counts).  The model's loader keeps the configured
                       base verbatim and reads exactly one path per request.
C17_LOADER_ENTRY_SITES the functions of the engine that ask the template store / loader for a
                       template by name (`get_template(`, `join_template_path(`, `templates.get(`,
                       `templates.iter(`); each must be driven by a form of the harness.
"""
import re
from extract_tables import item, read, fn_body, lean_str, lean_char

LOADER = "minijinja/src/loader.rs"


def _unchar(lit):
    """content of a Rust char literal body such as `.`, `\\\\`, `\\'`"""
    if lit.startswith("\\"):
        esc = {"\\\\": "\\", "\\'": "'", "\\n": "\n", "\\t": "\t", "\\0": "\0", '\\"': '"'}
        if lit in esc:
            return esc[lit]
        raise KeyError(f"char escape {lit}")
    if len(lit) != 1:
        raise KeyError(f"char literal {lit!r}")
    return lit


def _strip_comments(src):
    return re.sub(r"//[^\n]*", "", src)


@item("C17_SAFE_JOIN_RULES")
def _safe_join_rules(repo):
    src = read(repo, LOADER)
    body = _strip_comments(fn_body(src, r"pub fn safe_join\(base: &Path, template: &str\) -> Option<PathBuf>\s*\{"))
    m = re.search(r"for\s+(\w+)\s+in\s+template\s*\.split\('((?:\\.|[^'\\]))'\)\s*\{", body)
    if not m:
        raise KeyError("safe_join: `for seg in template.split('c')`")
    seg, sep = m.group(1), _unchar(m.group(2))
    if len(re.findall(r"\.split\w*\(", body)) != 1:
        raise KeyError("safe_join: more than one split")
    loop = fn_body(body[m.start():], r"for\s+\w+\s+in[^{]*\{")
    c = re.search(r"^\s*if\s+(.*?)\s*\{\s*return\s+None\s*;\s*\}", loop, re.S)
    if not c:
        raise KeyError("safe_join: the loop does not start with `if <cond> { return None; }`")
    if len(re.findall(r"\bif\b", body)) != 1 or len(re.findall(r"return\s+None", body)) != 1:
        raise KeyError("safe_join: more than one condition / early return")
    prefix, contains, equals = [], [], []
    for atom in c.group(1).split("||"):
        atom = atom.strip()
        a = re.fullmatch(r"%s\s*\.starts_with\('((?:\\.|[^'\\]))'\)" % seg, atom)
        b = re.fullmatch(r"%s\s*\.contains\('((?:\\.|[^'\\]))'\)" % seg, atom)
        e = re.fullmatch(r'%s\s*==\s*"([^"\\]*)"' % seg, atom)
        if a:
            prefix.append(_unchar(a.group(1)))
        elif b:
            contains.append(_unchar(b.group(1)))
        elif e:
            equals.append(e.group(1))
        else:
            raise KeyError(f"safe_join: condition atom {atom!r} not understood")
    lean = (f"def c17SafeJoinSep : Char := {lean_char(sep)}\n"
            f"def c17RejectPrefix : List Char := [{', '.join(lean_char(x) for x in prefix)}]\n"
            f"def c17RejectContains : List Char := [{', '.join(lean_char(x) for x in contains)}]\n"
            f"def c17RejectEquals : List String := [{', '.join(lean_str(x) for x in equals)}]")
    return {"sep": sep, "prefix": prefix, "contains": contains, "equals": equals}, lean


@item("C17_PATH_LOADER_SHAPE")
def _path_loader_shape(repo):
    src = read(repo, LOADER)
    m = re.search(r"pub fn path_loader<", src)
    if not m:
        raise KeyError("path_loader")
    # the body is the first `{` after the return type's `'static`
    k = src.index("'static", m.end())
    body = _strip_comments(fn_body(src[k:], r"'static\s*\{"))
    bases = re.findall(r"let\s+dir\s*=\s*(.*?);", body, re.S)
    if len(bases) != 1:
        raise KeyError("path_loader: `let dir = …;`")
    base = re.sub(r"\s+", "", bases[0])
    fs_calls = re.findall(r"\bfs::(\w+)\s*\(", body)
    joins = [re.sub(r"\s+", "", x) for x in re.findall(r"safe_join\s*\((.*?)\)", body)]
    # the variable bound to safe_join's result, and what is handed to the read
    jb = re.findall(r"let\s+Some\(\s*(.*?)\s*\)\s*=\s*safe_join\s*\(", body)
    if len(jb) != 1:
        raise KeyError("path_loader: `let Some(<var>) = safe_join(..)`")
    binding = re.sub(r"\s+", " ", jb[0])
    var = binding.split(" ")[-1]
    read_args = [re.sub(r"\s+", "", x) for x in re.findall(r"\bread_to_string\s*\((.*?)\)", body)]
    # every call / path segment whose name belongs to a file-system vocabulary, whatever its spelling
    # (`fs::x(..)`, `.x(..)`, `File::open`, `OpenOptions::new`, …)
    vocab = ("exists|try_exists|is_file|is_dir|is_symlink|metadata|symlink_metadata|read|read_to_string|read_to_end|"
             "read_dir|read_link|canonicalize|open|create|create_new|write|copy|rename|remove_file|remove_dir|"
             "remove_dir_all|hard_link|File|OpenOptions|DirEntry|ReadDir|walk_dir|current_dir|set_current_dir|include_str|include_bytes")
    fs_vocab = [m.group(1) for m in re.finditer(r"(?<![\w])(%s)\s*(?:\(|::|!)" % vocab, body)]

    def uses(v):
        return len(re.findall(r"(?<![\w.])%s\b" % re.escape(v), body))
    lean = (f"def c17PathLoaderBase : String := {lean_str(base)}\n"
            f"def c17PathLoaderFsCalls : List String := [{', '.join(lean_str(x) for x in fs_calls)}]\n"
            f"def c17PathLoaderJoins : List String := [{', '.join(lean_str(x) for x in joins)}]\n"
            f"def c17PathLoaderJoinBinding : String := {lean_str(binding)}\n"
            f"def c17PathLoaderReadArgs : List String := [{', '.join(lean_str(x) for x in read_args)}]\n"
            f"def c17PathLoaderFsVocab : List String := [{', '.join(lean_str(x) for x in fs_vocab)}]\n"
            f"def c17PathLoaderPathUses : Nat := {uses(var)}\n"
            f"def c17PathLoaderDirUses : Nat := {uses('dir')}\n"
            f"def c17PathLoaderNameUses : Nat := {uses('name')}")
    return {"base": base, "fs_calls": fs_calls, "joins": joins, "join_binding": binding, "read_args": read_args,
            "fs_vocab": fs_vocab, "path_uses": uses(var), "dir_uses": uses("dir"), "name_uses": uses("name")}, lean


@item("C17_LOADER_ENTRY_SITES")
def _entry_sites(repo):
    import glob, os
    sites = []
    files = sorted(glob.glob(os.path.join(repo, "minijinja/src/**/*.rs"), recursive=True))
    for path in files:
        rel = os.path.relpath(path, os.path.join(repo, "minijinja/src"))
        if rel in ("verif_hooks.rs",) or rel.startswith("verif_hooks"):
            continue
        text = open(path, encoding="utf-8").read()
        # blank doc/line comments, keep offsets
        text = re.sub(r"//[^\n]*", lambda mm: " " * len(mm.group(0)), text)
        cut = text.find("#[cfg(test)]\nmod tests")
        if cut >= 0:
            text = text[:cut]
        for mm in re.finditer(r"(?<!fn )\b(get_template|join_template_path)\s*\(|\btemplates\s*\.\s*(get|iter)\s*\(", text):
            fns = list(re.finditer(r"\bfn\s+(\w+)", text[:mm.start()]))
            if not fns:
                continue
            what = mm.group(1) or ("templates." + mm.group(2))
            s = (rel, fns[-1].group(1), what)
            if s not in sites:
                sites.append(s)
    if not sites:
        raise KeyError("no loader entry sites found")
    lean = ("def c17LoaderEntrySites : List (String × String × String) := ["
            + ", ".join(f"({lean_str(a)}, {lean_str(b)}, {lean_str(c)})" for a, b, c in sites) + "]")
    return [list(s) for s in sites], lean


def _norm(stmt):
    return re.sub(r"\s+", "", stmt)


@item("C17_SAFE_JOIN_LOOP")
def _safe_join_loop(repo):
    """the SHAPE of safe_join's loop: what `rv` starts as, what is iterated, the statements of the
    loop body after the filter (`rv.push(<loop variable>)` and nothing else), how often the loop
    variable, the name and the base are mentioned, and what is returned.  One split, one filter,
    one push per segment, all three on the same variable."""
    src = read(repo, LOADER)
    body = _strip_comments(fn_body(src, r"pub fn safe_join\(base: &Path, template: &str\) -> Option<PathBuf>\s*\{"))
    m = re.search(r"for\s+(\w+)\s+in\s+(.*?)\s*\{", body, re.S)
    if not m:
        raise KeyError("safe_join: no `for <var> in <iter> {`")
    var, it = m.group(1), _norm(m.group(2))
    init = [_norm(x) for x in body[:m.start()].split(";") if x.strip()]
    loop = fn_body(body[m.start():], r"for\s+\w+\s+in[^{]*\{")
    c = re.search(r"^\s*if\s+(.*?)\s*\{\s*return\s+None\s*;\s*\}", loop, re.S)
    if not c:
        raise KeyError("safe_join: the loop does not start with `if <cond> { return None; }`")
    after = [_norm(x) for x in loop[c.end():].split(";") if x.strip()]
    # what follows the loop
    k = body.index(loop, m.start()) + len(loop)
    tail = _norm(body[k:].lstrip().lstrip("}"))

    def uses(v, text):
        return len(re.findall(r"(?<![\w.])%s\b" % re.escape(v), text))
    cond_vars = sorted(set(re.findall(r"(?<![\w.'\"])([a-z_]\w*)\s*\.", c.group(1))))
    lean = (f"def c17LoopInit : List String := [{', '.join(lean_str(x) for x in init)}]\n"
            f"def c17LoopVar : String := {lean_str(var)}\n"
            f"def c17LoopIter : String := {lean_str(it)}\n"
            f"def c17LoopFilterSubjects : List String := [{', '.join(lean_str(x) for x in cond_vars)}]\n"
            f"def c17LoopAfterFilter : List String := [{', '.join(lean_str(x) for x in after)}]\n"
            f"def c17LoopTail : String := {lean_str(tail)}\n"
            f"def c17LoopVarUsesAfterFilter : Nat := {uses(var, loop[c.end():])}\n"
            f"def c17SafeJoinTemplateUses : Nat := {uses('template', body)}\n"
            f"def c17SafeJoinBaseUses : Nat := {uses('base', body)}")
    return {"init": init, "var": var, "iter": it, "filter_subjects": cond_vars, "after_filter": after, "tail": tail,
            "var_uses_after_filter": uses(var, loop[c.end():]), "template_uses": uses("template", body),
            "base_uses": uses("base", body)}, lean


@item("C17_PATH_PRODUCERS")
def _path_producers(repo):
    """every function of the engine and of the crates that ship with it (contrib, autoreload) —
    tests, the verification hooks and the build-time embed crate aside — whose body mentions the
    file system or builds a path: `PathBuf`, `Path::`, `&Path`, `fs::`, `File::`, `OsStr`,
    `std::path`, `std::env::current_dir`, `read_to_string`, `canonicalize`."""
    import glob, os
    pat = re.compile(r"\bPathBuf\b|\bPath::|&\s*Path\b|\bfs::|\bFile::|\bOsStr\b|\bOsString\b|std::path\b|current_dir\b|read_to_string\b|canonicalize\b|AsRef<Path>")
    out = []
    for crate in ("minijinja", "minijinja-contrib", "minijinja-autoreload"):
        for path in sorted(glob.glob(os.path.join(repo, crate, "src/**/*.rs"), recursive=True)):
            rel = crate + "/" + os.path.relpath(path, os.path.join(repo, crate, "src"))
            if os.path.basename(path).startswith("verif_hooks"):
                continue
            text = open(path, encoding="utf-8").read()
            # blank comments (doc examples mention paths), keep offsets
            text = re.sub(r"//[^\n]*", lambda mm: " " * len(mm.group(0)), text)
            # raw-string documentation (`#[doc = r#"…"#]`) holds example code
            text = re.sub(r'r#".*?"#', lambda mm: " " * len(mm.group(0)), text, flags=re.S)
            cut = text.find("#[cfg(test)]\nmod tests")
            if cut >= 0:
                text = text[:cut]
            fns = list(re.finditer(r"\bfn\s+(\w+)", text))
            for mm in pat.finditer(text):
                before = [f for f in fns if f.start() < mm.start()]
                if not before:
                    continue      # a `use` line
                s = (rel, before[-1].group(1))
                if s not in out:
                    out.append(s)
    lean = ("def c17PathProducers : List (String × String) := ["
            + ", ".join(f"({lean_str(a)}, {lean_str(b)})" for a, b in out) + "]")
    return [list(s) for s in out], lean
