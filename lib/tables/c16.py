"""C16 table items: the HTML-safe replacement table of `tojson`, the separators of
`JinjaJsonFormatter`, the value-handle marker, and the string escape table of the *locked*
serde_json (the JSON writer the engine delegates to)."""
import glob, os, re
from extract_tables import item, read, fn_body, lean_str, lean_char


def lean_chars(s):
    """explicit `List Char` literal (kernel-friendly: no String.toList to reduce)"""
    return "[" + ", ".join(lean_char(c) for c in s) + "]"


def _rust_unescape(s):
    out, i = [], 0
    while i < len(s):
        c = s[i]
        if c == "\\":
            n = s[i + 1]
            if n == "u" and s[i + 2] == "{":
                j = s.index("}", i)
                out.append(chr(int(s[i + 3:j], 16)))
                i = j + 1
                continue
            if n == "x":
                out.append(chr(int(s[i + 2:i + 4], 16)))
                i += 4
                continue
            out.append({"n": "\n", "t": "\t", "r": "\r", "0": "\0", "\\": "\\", '"': '"', "'": "'"}[n])
            i += 2
            continue
        out.append(c)
        i += 1
    return "".join(out)


@item("TOJSON_REPLACEMENTS")
def _tojson_replacements(repo):
    src = read(repo, "minijinja/src/filters.rs")
    body = fn_body(src, r"pub fn tojson\(value: &Value, indent: Option<Value>, args: Kwargs\) -> Result<Value, Error>\s*\{")
    m = re.search(r"for c in s\.chars\(\)\s*\{\s*match c\s*\{(.*?)_\s*=>\s*rv\.push\(c\)", body, re.S)
    if not m:
        raise KeyError("tojson post-processing loop")
    rows = re.findall(r"'((?:\\.|[^'\\]))'\s*=>\s*rv\.push_str\(\"((?:[^\"\\]|\\.)*)\"\)", m.group(1))
    arms = len(re.findall(r"=>", m.group(1)))
    if not rows or arms != len(rows):
        raise KeyError("tojson replacement arms not understood")
    tbl = [(_rust_unescape(c), _rust_unescape(r)) for c, r in rows]
    if "Value::from_safe_string(rv)" not in body:
        raise KeyError("tojson no longer returns the post-processed text as a safe string")
    lean = ("def tojsonReplacements : List (Char × List Char) := ["
            + ", ".join(f"({lean_char(c)}, {lean_chars(r)})" for c, r in tbl) + "]")
    return tbl, lean


@item("TOJSON_TRUE_INDENT")
def _tojson_true_indent(repo):
    src = read(repo, "minijinja/src/filters.rs")
    body = fn_body(src, r"pub fn tojson\(value: &Value, indent: Option<Value>, args: Kwargs\) -> Result<Value, Error>\s*\{")
    m = re.search(r"Some\(true\)\s*=>\s*Some\((\d+)\)", body)
    if not m or not re.search(r"Some\(false\)\s*=>\s*None", body):
        raise KeyError("tojson(true) / tojson(false) indent rule")
    if '" ".repeat(indent)' not in body or "PrettyFormatter::with_indent" not in body:
        raise KeyError("tojson indentation is no longer `indent` spaces through PrettyFormatter")
    v = int(m.group(1))
    return v, f"def tojsonTrueIndent : Nat := {v}"


@item("JINJA_JSON_SEPARATORS")
def _jinja_separators(repo):
    src = read(repo, "minijinja/src/filters.rs")
    body = fn_body(src, r"impl serde_json::ser::Formatter for JinjaJsonFormatter\s*\{")
    out = {}
    for fn in ("begin_array_value", "begin_object_key", "begin_object_value"):
        b = fn_body(body, r"fn %s<W>\(" % fn)
        lits = re.findall(r'write_all\(b"((?:[^"\\]|\\.)*)"\)', b)
        if len(lits) != 1:
            raise KeyError(f"JinjaJsonFormatter::{fn}")
        out[fn] = _rust_unescape(lits[0])
        if fn != "begin_object_value" and not re.search(r"if first\s*\{\s*Ok\(\(\)\)\s*\}\s*else", b):
            raise KeyError(f"JinjaJsonFormatter::{fn} first-element rule")
    overridden = re.findall(r"fn (\w+)<", body)
    if sorted(overridden) != sorted(out):
        raise KeyError(f"JinjaJsonFormatter overrides {overridden}")
    lean = (f"def jinjaArraySep : List Char := {lean_chars(out['begin_array_value'])}\n"
            f"def jinjaMemberSep : List Char := {lean_chars(out['begin_object_key'])}\n"
            f"def jinjaKeySep : List Char := {lean_chars(out['begin_object_value'])}")
    return out, lean


@item("VALUE_HANDLE_MARKER")
def _marker(repo):
    src = read(repo, "minijinja/src/value/mod.rs")
    m = re.search(r'const VALUE_HANDLE_MARKER: &str = "((?:[^"\\]|\\.)*)";', src)
    if not m:
        raise KeyError("VALUE_HANDLE_MARKER")
    v = _rust_unescape(m.group(1))
    lean = "def valueHandleMarker : List Nat := [" + ", ".join(str(ord(c)) for c in v) + "]"
    return v, lean


def _serde_json_src(repo):
    lock = read(repo, "Cargo.lock")
    m = re.search(r'name = "serde_json"\nversion = "([^"]+)"', lock)
    if not m:
        raise KeyError("serde_json in Cargo.lock")
    ver = m.group(1)
    home = os.environ.get("CARGO_HOME", os.path.expanduser("~/.cargo"))
    cands = glob.glob(os.path.join(home, "registry", "src", "*", f"serde_json-{ver}", "src", "ser.rs"))
    if not cands:
        raise KeyError(f"serde_json-{ver} sources")
    with open(cands[0], encoding="utf-8") as fh:
        return ver, fh.read()


@item("SERDE_JSON_ESCAPE")
def _serde_json_escape(repo):
    ver, src = _serde_json_src(repo)
    consts = dict(re.findall(r"const (\w\w): u8 = (b'(?:\\.|[^'\\])'|0);", src))
    m = re.search(r"static ESCAPE: \[u8; 256\] = \[(.*?)\];", src, re.S)
    if not m:
        raise KeyError("serde_json ESCAPE table")
    body = re.sub(r"//.*", "", m.group(1))
    names = re.findall(r"\b(\w\w)\b", body)
    if len(names) != 256:
        raise KeyError(f"serde_json ESCAPE table has {len(names)} entries")

    def val(n):
        lit = consts[n]
        if lit == "0":
            return 0
        return ord(_rust_unescape(lit[2:-1]))
    tbl = [val(n) for n in names]
    # the escape writer: \uXXXX with lower-case hex digits, other escapes are backslash + code
    if not re.search(r"static HEX_DIGITS: \[u8; 16\] = \*b\"0123456789abcdef\";", src):
        raise KeyError("serde_json hex digits")
    if not re.search(r"b'\\\\',\s*b'u',\s*b'0',\s*b'0',\s*HEX_DIGITS\[\(byte >> 4\) as usize\],\s*HEX_DIGITS\[\(byte & 0xF\) as usize\]", src):
        raise KeyError("serde_json \\u00XX writer")
    lean = (f"-- serde_json {ver}\n"
            "def jsonEscapeTable : List Nat := [" + ", ".join(map(str, tbl)) + "]")
    return {"version": ver, "table": tbl}, lean


@item("VALUE_SERIALIZE_LENGTHS")
def _value_serialize_lengths(repo):
    """what `impl Serialize for Value` announces to an external serializer"""
    src = read(repo, "minijinja/src/value/mod.rs")
    body = fn_body(src, r"impl serde::Serialize for Value\s*\{")
    m = re.search(r"ObjectRepr::Seq \| ObjectRepr::Iterable => \{(.*?)seq\.end\(\)", body, re.S)
    if not m:
        raise KeyError("Seq/Iterable branch of Value::serialize")
    seq = m.group(1)
    ms = re.search(r"serializer\.serialize_seq\(([^;]*?)\)\)?;", seq)
    if not ms:
        raise KeyError("serialize_seq call")
    seq_len = re.sub(r"\s+", "", ms.group(1))
    if not re.search(r"if let Some\(iter\) = o\.try_iter\(\)\s*\{\s*for item in iter\s*\{\s*ok!\(seq\.serialize_element\(&item\)\);", seq):
        raise KeyError("elements of the sequence are no longer exactly the items of o.try_iter()")
    m = re.search(r"ObjectRepr::Map => \{(.*?)map\.end\(\)", body, re.S)
    if not m:
        raise KeyError("Map branch of Value::serialize")
    mm = re.search(r"serializer\.serialize_map\(([^;]*?)\)\)?;", m.group(1))
    if not mm:
        raise KeyError("serialize_map call")
    map_len = re.sub(r"\s+", "", mm.group(1))
    lean = (f"def valueSerSeqLen : String := {lean_str(seq_len)}\n"
            f"def valueSerMapLen : String := {lean_str(map_len)}")
    return {"seq": seq_len, "map": map_len}, lean


@item("ENUMERATOR_QUERY_LEN")
def _enumerator_query_len(repo):
    src = read(repo, "minijinja/src/value/object.rs")
    body = fn_body(src, r"fn query_len\(&self\) -> Option<usize>\s*\{")
    rules = []
    for var, rhs in re.findall(r"Enumerator::(\w+)(?:\([^)]*\))?\s*=>\s*(.*?)(?=,\s*Enumerator::|\s*\}\)\s*$)", body, re.S):
        rhs = re.sub(r"\s+", " ", rhs.strip())
        if rhs == "0":
            rule = "zero"
        elif rhs in ("v.len()",):
            rule = "len"
        elif rhs == "*v":
            rule = "n"
        elif rhs.startswith("return None"):
            rule = "none"
        elif re.fullmatch(r"match i\.size_hint\(\) \{ \(a, Some\(b\)\) if a == b => a, _ => return None, \}", rhs):
            rule = "exact_hint"
        else:
            raise KeyError(f"query_len arm {var} => {rhs}")
        rules.append((var, rule))
    if len(rules) < 9:
        raise KeyError(f"query_len arms: {rules}")
    d = fn_body(src, r"fn enumerator_len\(self: &Arc<Self>\) -> Option<usize>\s*\{")
    if re.sub(r"\s+", "", d) != "self.enumerate().query_len()":
        raise KeyError("default Object::enumerator_len")
    lean = ("def enumeratorQueryLen : List (String × String) := ["
            + ", ".join(f"({lean_str(a)}, {lean_str(b)})" for a, b in sorted(rules)) + "]")
    return sorted(rules), lean


@item("SERDE_JSON_COMPOUND")
def _serde_json_compound(repo):
    """the parts of serde_json's serializer the length contract matters for"""
    ver, src = _serde_json_src(repo)
    seq = fn_body(src, r"fn serialize_seq\(self, len: Option<usize>\) -> Result<Self::SerializeSeq>\s*\{")
    mp = fn_body(src, r"fn serialize_map\(self, len: Option<usize>\) -> Result<Self::SerializeMap>\s*\{")
    shortcut = all(re.search(r"if len == Some\(0\)\s*\{[^}]*end_" + k + r"\(&mut self\.writer\)", b, re.S) and "State::Empty" in b
                   for k, b in (("array", seq), ("object", mp)))
    end = re.search(r"impl<'a, W, F> ser::SerializeSeq for Compound<'a, W, F>.*?fn end\(self\) -> Result<\(\)>\s*\{(.*?)\n    \}", src, re.S)
    if not end or not re.search(r"State::Empty => Ok\(\(\)\),\s*_ => ser\.formatter\.end_array", end.group(1)):
        raise KeyError("serde_json SerializeSeq::end")
    if not re.search(r"begin_array_value\(&mut ser\.writer, \*state == State::First\)", src):
        raise KeyError("serde_json serialize_element")
    pretty = re.search(r"impl<'a> Formatter for PrettyFormatter<'a>\s*\{(.*?)\n\}", src, re.S)
    if not pretty:
        raise KeyError("PrettyFormatter")
    p = pretty.group(1)
    counter = bool(re.search(r"fn end_array<W>.*?self\.current_indent -= 1;.*?if self\.has_value \{", p, re.S)
                   and re.search(r"fn begin_array<W>.*?self\.current_indent \+= 1;\s*self\.has_value = false;", p, re.S)
                   and re.search(r"fn end_array_value<W>.*?self\.has_value = true;", p, re.S))
    lean = (f"def serdeJsonEmptyShortcut : Bool := {'true' if shortcut else 'false'}\n"
            f"def serdeJsonPrettyCounter : Bool := {'true' if counter else 'false'}")
    return {"version": ver, "empty_shortcut": shortcut, "pretty_counter": counter}, lean


@item("SERIALIZATION_FLAG_GUARD")
def _serialization_flag_guard(repo):
    src = read(repo, "minijinja/src/value/mod.rs")
    m = re.search(r"static LAST_VALUE_HANDLE: Cell<u(\d+)>", src)
    if not m:
        raise KeyError("LAST_VALUE_HANDLE")
    bits = int(m.group(1))
    if "x.get().wrapping_add(1)" not in src:
        raise KeyError("value handle counter increment")
    conv = fn_body(src, r"impl<T: serde::Serialize> From<Serde<T>> for Value\s*\{")
    drop = fn_body(src, r"impl Drop for InternalSerializationGuard<'_>\s*\{")
    restores = bool(re.search(r"let old = flag\.replace\(true\);", conv)
                    and re.search(r"reset_on_drop:\s*!old", conv)
                    and re.search(r"if self\.reset_on_drop\s*\{\s*self\.flag\.set\(false\);\s*\}", drop))
    lean = (f"def valueHandleBits : Nat := {bits}\n"
            f"def serializationGuardRestores : Bool := {'true' if restores else 'false'}")
    return {"handle_bits": bits, "guard_restores": restores}, lean


def _rust_cond_to_lean(cond):
    """translate the registry's fast-path condition into a Lean Bool expression over
    `singleNone` / `overflowEmpty`"""
    c = re.sub(r"\s+", " ", cond.strip())
    c = c.replace("self.single.is_none()", "singleNone").replace("self.single.is_some()", "(!singleNone)")
    c = c.replace("self.overflow.is_empty()", "overflowEmpty")
    if not re.fullmatch(r"[()!&| ]*(?:(?:singleNone|overflowEmpty)[()!&| ]*)+", c):
        raise KeyError(f"registry fast-path condition not understood: {cond!r}")
    return c


@item("VALUE_HANDLE_REGISTRY")
def _value_handle_registry(repo):
    src = read(repo, "minijinja/src/value/mod.rs")
    imp = fn_body(src, r"impl ValueHandleRegistry\s*\{")
    ins = fn_body(imp, r"pub\(crate\) fn insert\(&mut self, handle: u32, value: Value\)\s*\{")
    m = re.match(r"\s*if (.*?)\s*\{\s*self\.single = Some\(\(handle, value\)\);\s*return;\s*\}\s*(.*)$", ins, re.S)
    if not m:
        raise KeyError("ValueHandleRegistry::insert fast path")
    cond = _rust_cond_to_lean(m.group(1))
    spill = re.sub(r"\s+", " ", m.group(2).strip())
    want_spill = ("if let Some((other_handle, other_value)) = self.single.take() { self.overflow.insert(other_handle, other_value); } "
                  "self.overflow.insert(handle, value);")
    if spill != want_spill:
        raise KeyError("ValueHandleRegistry::insert spill path changed")
    rem = re.sub(r"\s+", " ", fn_body(imp, r"pub\(crate\) fn remove\(&mut self, handle: u32\) -> Option<Value>\s*\{").strip())
    want_rem = ("if let Some((single_handle, _)) = self.single { if single_handle == handle { "
                "return self.single.take().map(|(_, value)| value); } } self.overflow.remove(&handle)")
    if rem != want_rem:
        raise KeyError("ValueHandleRegistry::remove changed")
    st = re.search(r"pub\(crate\) struct ValueHandleRegistry \{\s*single: Option<\(u32, Value\)>,\s*overflow: BTreeMap<u32, Value>,\s*\}", src)
    if not st:
        raise KeyError("ValueHandleRegistry fields")
    lean = ("/-- `ValueHandleRegistry::insert`: the condition of the inline-slot fast path -/\n"
            f"def registryInsertFastPath (singleNone overflowEmpty : Bool) : Bool := {cond}")
    return {"fast_path": cond}, lean


# ---------------------------------------------------------------------------- serde entry points
def _locked_src(repo, crate, rel):
    lock = read(repo, "Cargo.lock")
    m = re.search(r'name = "%s"\nversion = "([^"]+)"' % re.escape(crate), lock)
    if not m:
        raise KeyError(f"{crate} in Cargo.lock")
    ver = m.group(1)
    home = os.environ.get("CARGO_HOME", os.path.expanduser("~/.cargo"))
    cands = glob.glob(os.path.join(home, "registry", "src", "*", f"{crate}-{ver}", *rel.split("/")))
    if not cands:
        raise KeyError(f"{crate}-{ver} sources")
    with open(cands[0], encoding="utf-8") as fh:
        return ver, fh.read()

def _trait_methods(src, header_re, prefix):
    """(name, has_default_body) of the `fn <prefix>*` items of a trait, in source order"""
    body = fn_body(src, header_re)
    out = []
    for m in re.finditer(r"\n    fn (%s\w*)\s*(?:<[^{;]*?>)?\s*\(" % prefix, body):
        # find whether the item ends with `;` (required) or has a `{` body (provided)
        i = m.end()
        depth = 1
        while depth:                      # skip the parameter list
            c = body[i]
            depth += (c == "(") - (c == ")")
            i += 1
        j = i
        while body[j] not in "{;":
            j += 1
        out.append((m.group(1), body[j] == "{"))
    return out

def _impl_methods(src, header_re, prefix):
    body = fn_body(src, header_re)
    return re.findall(r"\n    (?:#\[[^\]]*\]\s*)*fn (%s\w*)" % prefix, "\n" + body)

@item("SERDE_METHODS")
def _serde_methods(repo):
    ver, ser = _locked_src(repo, "serde_core", "src/ser/mod.rs")
    _, de = _locked_src(repo, "serde_core", "src/de/mod.rs")
    ser_trait = _trait_methods(ser, r"pub trait Serializer: Sized\s*\{", "serialize_")
    de_trait = _trait_methods(de, r"pub trait Deserializer<'de>: Sized\s*\{", "deserialize_")
    if len(ser_trait) < 29 or len(de_trait) < 30:
        raise KeyError(f"serde trait methods: {len(ser_trait)} / {len(de_trait)}")
    s = read(repo, "minijinja/src/value/serialize.rs")
    d = read(repo, "minijinja/src/value/deserialize.rs")
    ser_impl = _impl_methods(s, r"impl Serializer for ValueSerializer\s*\{", "serialize_")
    own = _impl_methods(d, r"impl<'de> Deserializer<'de> for Value\s*\{", "deserialize_")
    ref = _impl_methods(d, r"impl<'de> Deserializer<'de> for &Value\s*\{", "deserialize_")
    for hdr, lst in ((r"impl<'de> Deserializer<'de> for Value\s*\{", own), (r"impl<'de> Deserializer<'de> for &Value\s*\{", ref)):
        b = fn_body(d, hdr)
        rest = re.sub(r"common_forward!\(\);", "", b)
        if "forward_to_deserialize_any!" in rest or b.count("common_forward!();") != 1:
            raise KeyError("Deserializer impl forwards methods outside common_forward!()")
    m = re.search(r"macro_rules! common_forward \{\s*\(\) => \{\s*forward_to_deserialize_any! \{(.*?)\}\s*\};\s*\}", d, re.S)
    if not m:
        raise KeyError("common_forward! macro")
    fwd = ["deserialize_" + w for w in m.group(1).split()]
    # the borrowed deserializer delegates every explicit method to the owned one
    refbody = fn_body(d, r"impl<'de> Deserializer<'de> for &Value\s*\{")
    delegates = all(re.search(r"fn %s<.*?\{\s*self\.clone\(\)\.%s\(" % (n, n), refbody, re.S) for n in ref)
    # compound serializers: which trait methods each implements
    comp = {}
    for tr in ("SerializeSeq", "SerializeTuple", "SerializeTupleStruct", "SerializeTupleVariant", "SerializeMap", "SerializeStruct", "SerializeStructVariant"):
        comp[tr] = sorted(_impl_methods(s, r"impl ser::%s for %s\s*\{" % (tr, tr), r"(?:serialize_|end)"))
    # anything else the impls define (is_human_readable, collect_str, …)
    def other(hdr, src):
        return sorted(n for n in re.findall(r"\n    (?:#\[[^\]]*\]\s*)*fn (\w+)", "\n" + fn_body(src, hdr)) if not n.startswith(("serialize_", "deserialize_")))
    others = (other(r"impl Serializer for ValueSerializer\s*\{", s) + other(r"impl<'de> Deserializer<'de> for Value\s*\{", d)
              + other(r"impl<'de> Deserializer<'de> for &Value\s*\{", d))
    val = {"serde": ver, "others": others, "ser_trait": ser_trait, "de_trait": de_trait, "ser_impl": ser_impl, "de_owned": own, "de_ref": ref,
           "de_forwarded": fwd, "ref_delegates": delegates, "compound": comp}
    def lst(xs):
        return "[" + ", ".join(lean_str(x) for x in xs) + "]"
    def lstb(xs):
        return "[" + ", ".join(f"({lean_str(a)}, {'true' if b else 'false'})" for a, b in xs) + "]"
    lean = (f"-- serde_core {ver}: (method, has a provided default)\n"
            f"def serdeSerializerTrait : List (String × Bool) := {lstb(ser_trait)}\n"
            f"def serdeDeserializerTrait : List (String × Bool) := {lstb(de_trait)}\n"
            f"def valueSerializerMethods : List String := {lst(ser_impl)}\n"
            f"def valueDeserializerExplicit : List String := {lst(own)}\n"
            f"def refValueDeserializerExplicit : List String := {lst(ref)}\n"
            f"def valueDeserializerForwarded : List String := {lst(fwd)}\n"
            f"def refValueDeserializerDelegates : Bool := {'true' if delegates else 'false'}\n"
            f"def valueSerdeImplOtherFns : List String := {lst(others)}\n"
            "def valueCompoundSerializers : List (String × List String) := ["
            + ", ".join(f"({lean_str(k)}, {lst(v)})" for k, v in comp.items()) + "]")
    return val, lean


def _norm(s):
    return re.sub(r"\s+", " ", s.strip())

@item("SERDE_ARMS")
def _serde_arms(repo):
    s = read(repo, "minijinja/src/value/serialize.rs")
    d = read(repo, "minijinja/src/value/deserialize.rs")
    m = read(repo, "minijinja/src/value/mod.rs")
    imp = fn_body(s, r"impl Serializer for ValueSerializer\s*\{")
    prim = []
    for name in ("bool", "i8", "i16", "i32", "i64", "i128", "u8", "u16", "u32", "u64", "u128", "f32", "f64", "char", "str", "bytes", "none", "unit", "unit_struct", "unit_variant"):
        body = _norm(fn_body(imp, r"fn serialize_%s\s*\(" % name))
        body = re.sub(r"^Ok\((.*)\)$", r"\1", body)
        body = re.sub(r"\.into\(\)$", "", body)
        prim.append((name, body))
    # wrappers: serialize_some / newtype_struct are `Ok(transform(value))`
    for name in ("some", "newtype_struct"):
        body = _norm(fn_body(imp, r"fn serialize_%s<T>\s*\(" % name))
        prim.append((name, re.sub(r"^Ok\((.*)\)$", r"\1", body)))
    anyb = fn_body(d, r"fn deserialize_any<V: Visitor<'de>>\(self, visitor: V\) -> Result<V::Value, Error>\s*\{")
    arms = []
    for pat, rhs in re.findall(r"\n\s*(ValueRepr::[^=]*?|ObjectRepr::[^=]*?)\s*=>\s*(?:\{\s*)?(.*?)(?=,\n|\n\s*\}\n|\{\n)", anyb, re.S):
        pat = _norm(pat)
        rhs = _norm(rhs)
        v = re.match(r"visitor\.(visit_\w+)\(", rhs)
        arms.append((pat, v.group(1) if v else ("error" if rhs.startswith("Err(") else "match" if rhs.startswith("match") else rhs[:40])))
    opt = _norm(fn_body(d, r"fn deserialize_option<V: Visitor<'de>>\(self, visitor: V\) -> Result<V::Value, Error>\s*\{"))
    opt_ok = opt == "match self.0 { ValueRepr::None | ValueRepr::Undefined(_) => visitor.visit_unit(), _ => visitor.visit_some(self), }"
    us = _norm(fn_body(d, r"fn deserialize_unit_struct<V: Visitor<'de>>\(\s*self,\s*_name: &'static str,\s*visitor: V,\s*\) -> Result<V::Value, Error>\s*\{"))
    ns = _norm(fn_body(d, r"fn deserialize_newtype_struct<V: Visitor<'de>>\(\s*self,\s*_name: &'static str,\s*visitor: V,\s*\) -> Result<V::Value, Error>\s*\{"))
    # `impl Serialize for Value` towards an external serializer
    sv = fn_body(m, r"impl serde::Serialize for Value\s*\{")
    ext = []
    mm = re.search(r"match self\.0 \{(.*)\}\s*\}\s*$", sv, re.S)
    if not mm:
        raise KeyError("external arms of Value::serialize")
    for pat, meth in re.findall(r"\n\s{12}(ValueRepr::[^=]*?)\s*=>\s*(?:\{\s*)?serializer\.(serialize_\w+)\(", mm.group(1), re.S):
        ext.append((_norm(pat), meth))
    plain = re.search(r"ObjectRepr::Plain => serializer\.(serialize_\w+)\(&o\.to_string\(\)\)", sv)
    ext.append(("ObjectRepr::Plain", plain.group(1) if plain else "?"))
    val = {"prim": prim, "any": arms, "option_as_expected": opt_ok, "unit_struct": us, "newtype_struct": ns, "external": ext}
    def pairs(xs):
        return "[" + ", ".join(f"({lean_str(a)}, {lean_str(b)})" for a, b in xs) + "]"
    lean = (f"def valueSerializerPrimArms : List (String × String) := {pairs(prim)}\n"
            f"def valueDeserializeAnyArms : List (String × String) := {pairs(arms)}\n"
            f"def valueDeserializeOptionAsModelled : Bool := {'true' if opt_ok else 'false'}\n"
            f"def valueDeserializeUnitStruct : String := {lean_str(us)}\n"
            f"def valueDeserializeNewtypeStruct : String := {lean_str(ns)}\n"
            f"def valueSerializeExternalArms : List (String × String) := {pairs(ext)}")
    return val, lean


@item("SERDE_ARGTYPE")
def _serde_argtype(repo):
    d = read(repo, "minijinja/src/value/deserialize.rs")
    a = read(repo, "minijinja/src/value/argtypes.rs")
    imp = fn_body(d, r"impl<'a, T: DeserializeOwned> ArgType<'a> for Serde<T>\s*\{")
    body = _norm(fn_body(imp, r"fn from_value\(value: Option<&'a Value>\) -> Result<Self, Error>\s*\{"))
    want = ("match value { Some(value) => { if value.is_kwargs() { return Err(Error::new( ErrorKind::InvalidOperation, "
            "\"cannot deserialize from kwargs\", )); } T::deserialize(value).map(Serde) } None => Err(Error::from(ErrorKind::MissingArgument)), }")
    only = re.findall(r"fn (\w+)", imp) == ["from_value"]
    opt = fn_body(a, r"impl<'a, T: ArgType<'a>> ArgType<'a> for Option<T>\s*\{")
    ob = _norm(fn_body(opt, r"fn from_value\(value: Option<&'a Value>\) -> Result<Self::Output, Error>\s*\{"))
    owant = ("match value { Some(value) => { if value.is_undefined() || value.is_none() { Ok(None) } else { "
             "T::from_value(Some(value)).map(Some) } } None => Ok(None), }")
    val = {"serde_arg": body == want and only, "option_arg": ob == owant}
    lean = (f"def serdeArgTypeAsModelled : Bool := {'true' if val['serde_arg'] else 'false'}\n"
            f"def optionArgTypeAsModelled : Bool := {'true' if val['option_arg'] else 'false'}")
    return val, lean


# ------------------------------------------------------------------ dispatch of the deserializer on the source value
def _strip_comments(s):
    return re.sub(r"//[^\n]*", "", s)


def _top_split(s, sep):
    """split at top-level occurrences of `sep` (outside (), [], {}, strings)"""
    out, depth, i, last, instr = [], 0, 0, 0, False
    while i < len(s):
        c = s[i]
        if instr:
            if c == "\\":
                i += 1
            elif c == '"':
                instr = False
        elif c == '"':
            instr = True
        elif c in "([{":
            depth += 1
        elif c in ")]}":
            depth -= 1
        elif depth == 0 and s.startswith(sep, i):
            out.append(s[last:i])
            i += len(sep)
            last = i
            continue
        i += 1
    out.append(s[last:])
    return out


def _match_arms(text):
    """(scrutinee, [(pattern text, rhs text)]) of the first `match` in `text`, or None"""
    m = re.search(r"\bmatch\s+([^{]*?)\s*\{", text)
    if not m:
        return None
    i = m.end() - 1
    depth, j = 0, i
    while True:
        c = text[j]
        depth += (c == "{") - (c == "}")
        if depth == 0:
            break
        j += 1
    body = text[i + 1:j]
    arms, k, n = [], 0, len(body)
    while True:
        while k < n and body[k] in " \t\r\n,":
            k += 1
        if k >= n:
            break
        # pattern up to the top-level `=>`
        parts = _top_split(body[k:], "=>")
        if len(parts) < 2:
            raise KeyError("match arm without =>: " + body[k:k + 60])
        pat = parts[0]
        k += len(pat) + 2
        while k < n and body[k] in " \t\r\n":
            k += 1
        if body[k] == "{":
            depth, e = 0, k
            while True:
                c = body[e]
                depth += (c == "{") - (c == "}")
                if depth == 0:
                    break
                e += 1
            rhs = body[k + 1:e]
            k = e + 1
        else:
            rhs = _top_split(body[k:], ",")[0]
            k += len(rhs)
        arms.append((_norm(pat), _norm(rhs)))
    return _norm(m.group(1)), arms, text[:m.start()], text[j + 1:]


_OBJ_GUARD = re.compile(r"^matches!\(\s*\w+\.repr\(\)\s*,\s*(ObjectRepr::\w+(?:\s*\|\s*ObjectRepr::\w+)*)\s*\)$")


def _plain_args(alt):
    """is `ValueRepr::X(args)` a pattern whose arguments only bind or ignore?"""
    m = re.match(r"^(?:&)?ValueRepr::\w+\s*(?:\((.*)\))?$", alt.strip(), re.S)
    if not m:
        return False
    if m.group(1) is None:
        return True
    return all(re.match(r"^(?:(?:ref\s+)?(?:mut\s+)?\w+|_|\.\.)$", a.strip()) and not re.match(r"^\d", a.strip())
               for a in m.group(1).split(","))


def _selectors(pat):
    """normalised selectors of one arm pattern: repr:X, obj:X, obj:*, kind:X, some, absent, * - anything else starts with `?`"""
    pg = _top_split(pat, " if ")
    pat, guard = pg[0].strip(), (" if ".join(pg[1:]).strip() if len(pg) > 1 else None)
    objs = None
    if guard is not None:
        g = _OBJ_GUARD.match(guard)
        if g:
            objs = re.findall(r"ObjectRepr::(\w+)", g.group(1))
    sels = []
    for alt in _top_split(pat, "|"):
        alt = alt.strip()
        vr = re.findall(r"ValueRepr::(\w+)", alt)
        vk = re.findall(r"ValueKind::(\w+)", alt)
        orp = re.findall(r"ObjectRepr::(\w+)", alt)
        if alt == "_":
            sels.append("*")
        elif alt == "None":
            sels.append("absent")
        elif len(vr) == 1 and not vk and not orp and not _plain_args(alt):
            # a payload pattern that selects among the values of one representation (`String(_, StringType::Safe)`,
            # `U64(0)`, …): the arm is not keyed on the representation alone
            sels.append("?" + alt[:40])
        elif len(vr) == 1 and not vk and not orp:
            if vr[0] == "Object" and objs is not None:
                sels += ["obj:" + o for o in objs]
                guard = None
            elif vr[0] == "Object":
                sels.append("obj:*")
            else:
                sels.append("repr:" + vr[0])
        elif len(vk) == 1 and not vr and not orp:
            sels.append("kind:" + vk[0])
        elif len(orp) == 1 and not vr and not vk:
            sels.append("obj:" + orp[0])
        elif re.match(r"^Some\(\s*(ref\s+)?\w+\s*\)$", alt):
            if objs is not None:
                sels += ["obj:" + o for o in objs]
                guard = None
            else:
                sels.append("some")
        else:
            sels.append("?" + alt[:40])
    if guard is not None:
        sels = ["?guard " + guard[:60]]
    return sels


def _action(rhs):
    """what an arm does, as far as the dispatch is concerned"""
    r = rhs.strip()
    m = re.match(r"^visitor\.(visit_\w+)\(", r)
    if m:
        return m.group(1)
    if re.match(r"^(return\s+)?Err\(", r):
        return "err"
    if r.startswith("Deserializer::deserialize_any( SeqDeserializer::new(") or r.startswith("Deserializer::deserialize_any(SeqDeserializer::new("):
        return "seq_any"
    if r.startswith("Deserializer::deserialize_any( MapDeserializer::new(") or r.startswith("Deserializer::deserialize_any(MapDeserializer::new("):
        return "map_any"
    if re.match(r"^seed\.deserialize\(\w+\)$", r):
        return "seed"
    if re.match(r"^Deserialize::deserialize\(\w+\)$", r):
        return "unit_from_value"
    m = re.match(r"^self\.(deserialize_\w+)\(visitor\)$", r)
    if m:
        return "fwd:" + m.group(1)
    if r == "Ok(())":
        return "ok_unit"
    if r == "(self, None)":
        return "variant_is_self"
    if "get_item_opt(&variant)" in r and r.endswith("(variant, val)") and r.count("map with a single key") == 2:
        return "variant_is_single_key"
    return "?" + r[:60]


@item("SERDE_DE_DISPATCH")
def _serde_de_dispatch(repo):
    """every `match` on the source value in deserialize.rs (the owned deserializer and the variant access), arm by
    arm: which representations / kinds an arm selects and what it does; plus `Value::kind()` (representation → kind)"""
    d = _strip_comments(read(repo, "minijinja/src/value/deserialize.rs"))
    mod = _strip_comments(read(repo, "minijinja/src/value/mod.rs"))
    own = fn_body(d, r"impl<'de> Deserializer<'de> for Value\s*\{")
    var = fn_body(d, r"impl<'de> VariantAccess<'de> for VariantDeserializer\s*\{")

    def fns(body):
        out = []
        for m in re.finditer(r"\n    (?:#\[[^\]]*\]\s*)*fn (\w+)", "\n" + body):
            out.append((m.group(1), fn_body(body[m.start() - 1:], r"fn %s\b[^{]*?\{" % m.group(1))))
        return out

    def table(prefix, body):
        rows = []
        for name, fb in fns(body):
            ma = _match_arms(fb)
            if ma is None:
                rows.append((prefix + name, "-", [(["*"], _action(_norm(fb)))]))
                continue
            scrut, arms, before, after = ma
            flat = []
            for pat, rhs in arms:
                sels = _selectors(pat)
                sub = _match_arms(rhs) if re.match(r"^match\s+\w+\.repr\(\)\s*\{", rhs) else None
                if sub is not None and sels == ["obj:*"]:
                    for spat, srhs in sub[1]:
                        ss = _selectors(spat)
                        flat.append((["obj:*" if s == "*" else s for s in ss], _action(srhs)))
                else:
                    flat.append((sels, _action(rhs)))
            # what surrounds the match: `let (variant, value) = match … ; visitor.visit_enum(…)` or nothing
            around = _norm(before) + " # " + _norm(after)
            rows.append((prefix + name, scrut + (" @ " + around if around != " # " else ""), flat))
        return rows

    rows = table("Value::", own) + table("Variant::", var)
    if not any(r[0] == "Value::deserialize_any" for r in rows):
        raise KeyError("deserialize_any")
    kb = fn_body(mod, r"pub fn kind\(&self\) -> ValueKind\s*\{")
    km = _match_arms(kb)
    if km is None or km[0] != "self.0" or _norm(km[2]) or _norm(km[3]):
        raise KeyError("Value::kind is not a single match on self.0")
    kinds = []
    for pat, rhs in km[1]:
        sels = _selectors(pat)
        sub = _match_arms(rhs) if re.match(r"^match\s+\w+\.repr\(\)\s*\{", rhs) else None
        if sub is not None and sels == ["obj:*"]:
            for spat, srhs in sub[1]:
                for s in _selectors(spat):
                    kinds.append(("obj:*" if s == "*" else s, srhs.replace("ValueKind::", "")))
        else:
            for s in sels:
                kinds.append((s, rhs.replace("ValueKind::", "")))
    # the variants of both enums
    vr = re.findall(r"\n    (\w+)", "\n" + re.sub(r"\([^)]*\)", "", fn_body(mod, r"pub\(crate\) enum ValueRepr\s*\{")))
    obj_src = _strip_comments(read(repo, "minijinja/src/value/object.rs"))
    orp = re.findall(r"\n    (\w+)\s*,", "\n" + re.sub(r"#\[[^\]]*\]", "", fn_body(obj_src, r"pub enum ObjectRepr\s*\{")))
    val = {"dispatch": rows, "kind_of": kinds, "value_repr": vr, "object_repr": orp}

    def lst(xs):
        return "[" + ", ".join(lean_str(x) for x in xs) + "]"
    lean = ("-- (function, scrutinee, arms: (selectors, action))\n"
            "def serdeDeDispatch : List (String × String × List (List String × String)) := [\n  "
            + ",\n  ".join(f"({lean_str(n)}, {lean_str(s)}, [" + ", ".join(f"({lst(a)}, {lean_str(b)})" for a, b in arms) + "])" for n, s, arms in rows)
            + "]\n"
            "def valueKindOfRepr : List (String × String) := [" + ", ".join(f"({lean_str(a)}, {lean_str(b)})" for a, b in kinds) + "]\n"
            f"def valueReprVariants : List String := {lst(vr)}\n"
            f"def objectReprVariants : List String := {lst(orp)}")
    return val, lean
