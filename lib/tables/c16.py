"""C16 table items: the HTML-safe replacement table of `tojson`, the separators of
`JinjaJsonFormatter`, the value-handle marker, and the string escape table of the *locked*
serde_json (the JSON writer the engine delegates to)."""
import glob, os, re
from extract_tables import item, read, fn_body, lean_str, lean_char


def lean_chars(s):
    """explicit `List Char` literal (kernel-friendly: no String.toList to reduce)"""
    return "[" + ", ".join(lean_char(c) for c in s) + "]"


def _rust_unescape(s):
    out, i = [], 0
    while i < len(s):
        c = s[i]
        if c == "\\":
            n = s[i + 1]
            if n == "u" and s[i + 2] == "{":
                j = s.index("}", i)
                out.append(chr(int(s[i + 3:j], 16)))
                i = j + 1
                continue
            if n == "x":
                out.append(chr(int(s[i + 2:i + 4], 16)))
                i += 4
                continue
            out.append({"n": "\n", "t": "\t", "r": "\r", "0": "\0", "\\": "\\", '"': '"', "'": "'"}[n])
            i += 2
            continue
        out.append(c)
        i += 1
    return "".join(out)


@item("TOJSON_REPLACEMENTS")
def _tojson_replacements(repo):
    src = read(repo, "minijinja/src/filters.rs")
    body = fn_body(src, r"pub fn tojson\(value: &Value, indent: Option<Value>, args: Kwargs\) -> Result<Value, Error>\s*\{")
    m = re.search(r"for c in s\.chars\(\)\s*\{\s*match c\s*\{(.*?)_\s*=>\s*rv\.push\(c\)", body, re.S)
    if not m:
        raise KeyError("tojson post-processing loop")
    rows = re.findall(r"'((?:\\.|[^'\\]))'\s*=>\s*rv\.push_str\(\"((?:[^\"\\]|\\.)*)\"\)", m.group(1))
    arms = len(re.findall(r"=>", m.group(1)))
    if not rows or arms != len(rows):
        raise KeyError("tojson replacement arms not understood")
    tbl = [(_rust_unescape(c), _rust_unescape(r)) for c, r in rows]
    if "Value::from_safe_string(rv)" not in body:
        raise KeyError("tojson no longer returns the post-processed text as a safe string")
    lean = ("def tojsonReplacements : List (Char × List Char) := ["
            + ", ".join(f"({lean_char(c)}, {lean_chars(r)})" for c, r in tbl) + "]")
    return tbl, lean


@item("TOJSON_TRUE_INDENT")
def _tojson_true_indent(repo):
    src = read(repo, "minijinja/src/filters.rs")
    body = fn_body(src, r"pub fn tojson\(value: &Value, indent: Option<Value>, args: Kwargs\) -> Result<Value, Error>\s*\{")
    m = re.search(r"Some\(true\)\s*=>\s*Some\((\d+)\)", body)
    if not m or not re.search(r"Some\(false\)\s*=>\s*None", body):
        raise KeyError("tojson(true) / tojson(false) indent rule")
    if '" ".repeat(indent)' not in body or "PrettyFormatter::with_indent" not in body:
        raise KeyError("tojson indentation is no longer `indent` spaces through PrettyFormatter")
    v = int(m.group(1))
    return v, f"def tojsonTrueIndent : Nat := {v}"


@item("JINJA_JSON_SEPARATORS")
def _jinja_separators(repo):
    src = read(repo, "minijinja/src/filters.rs")
    body = fn_body(src, r"impl serde_json::ser::Formatter for JinjaJsonFormatter\s*\{")
    out = {}
    for fn in ("begin_array_value", "begin_object_key", "begin_object_value"):
        b = fn_body(body, r"fn %s<W>\(" % fn)
        lits = re.findall(r'write_all\(b"((?:[^"\\]|\\.)*)"\)', b)
        if len(lits) != 1:
            raise KeyError(f"JinjaJsonFormatter::{fn}")
        out[fn] = _rust_unescape(lits[0])
        if fn != "begin_object_value" and not re.search(r"if first\s*\{\s*Ok\(\(\)\)\s*\}\s*else", b):
            raise KeyError(f"JinjaJsonFormatter::{fn} first-element rule")
    overridden = re.findall(r"fn (\w+)<", body)
    if sorted(overridden) != sorted(out):
        raise KeyError(f"JinjaJsonFormatter overrides {overridden}")
    lean = (f"def jinjaArraySep : List Char := {lean_chars(out['begin_array_value'])}\n"
            f"def jinjaMemberSep : List Char := {lean_chars(out['begin_object_key'])}\n"
            f"def jinjaKeySep : List Char := {lean_chars(out['begin_object_value'])}")
    return out, lean


@item("VALUE_HANDLE_MARKER")
def _marker(repo):
    src = read(repo, "minijinja/src/value/mod.rs")
    m = re.search(r'const VALUE_HANDLE_MARKER: &str = "((?:[^"\\]|\\.)*)";', src)
    if not m:
        raise KeyError("VALUE_HANDLE_MARKER")
    v = _rust_unescape(m.group(1))
    lean = "def valueHandleMarker : List Nat := [" + ", ".join(str(ord(c)) for c in v) + "]"
    return v, lean


def _serde_json_src(repo):
    lock = read(repo, "Cargo.lock")
    m = re.search(r'name = "serde_json"\nversion = "([^"]+)"', lock)
    if not m:
        raise KeyError("serde_json in Cargo.lock")
    ver = m.group(1)
    home = os.environ.get("CARGO_HOME", os.path.expanduser("~/.cargo"))
    cands = glob.glob(os.path.join(home, "registry", "src", "*", f"serde_json-{ver}", "src", "ser.rs"))
    if not cands:
        raise KeyError(f"serde_json-{ver} sources")
    with open(cands[0], encoding="utf-8") as fh:
        return ver, fh.read()


@item("SERDE_JSON_ESCAPE")
def _serde_json_escape(repo):
    ver, src = _serde_json_src(repo)
    consts = dict(re.findall(r"const (\w\w): u8 = (b'(?:\\.|[^'\\])'|0);", src))
    m = re.search(r"static ESCAPE: \[u8; 256\] = \[(.*?)\];", src, re.S)
    if not m:
        raise KeyError("serde_json ESCAPE table")
    body = re.sub(r"//.*", "", m.group(1))
    names = re.findall(r"\b(\w\w)\b", body)
    if len(names) != 256:
        raise KeyError(f"serde_json ESCAPE table has {len(names)} entries")

    def val(n):
        lit = consts[n]
        if lit == "0":
            return 0
        return ord(_rust_unescape(lit[2:-1]))
    tbl = [val(n) for n in names]
    # the escape writer: \uXXXX with lower-case hex digits, other escapes are backslash + code
    if not re.search(r"static HEX_DIGITS: \[u8; 16\] = \*b\"0123456789abcdef\";", src):
        raise KeyError("serde_json hex digits")
    if not re.search(r"b'\\\\',\s*b'u',\s*b'0',\s*b'0',\s*HEX_DIGITS\[\(byte >> 4\) as usize\],\s*HEX_DIGITS\[\(byte & 0xF\) as usize\]", src):
        raise KeyError("serde_json \\u00XX writer")
    lean = (f"-- serde_json {ver}\n"
            "def jsonEscapeTable : List Nat := [" + ", ".join(map(str, tbl)) + "]")
    return {"version": ver, "table": tbl}, lean


@item("VALUE_SERIALIZE_LENGTHS")
def _value_serialize_lengths(repo):
    """what `impl Serialize for Value` announces to an external serializer"""
    src = read(repo, "minijinja/src/value/mod.rs")
    body = fn_body(src, r"impl serde::Serialize for Value\s*\{")
    m = re.search(r"ObjectRepr::Seq \| ObjectRepr::Iterable => \{(.*?)seq\.end\(\)", body, re.S)
    if not m:
        raise KeyError("Seq/Iterable branch of Value::serialize")
    seq = m.group(1)
    ms = re.search(r"serializer\.serialize_seq\(([^;]*?)\)\)?;", seq)
    if not ms:
        raise KeyError("serialize_seq call")
    seq_len = re.sub(r"\s+", "", ms.group(1))
    if not re.search(r"if let Some\(iter\) = o\.try_iter\(\)\s*\{\s*for item in iter\s*\{\s*ok!\(seq\.serialize_element\(&item\)\);", seq):
        raise KeyError("elements of the sequence are no longer exactly the items of o.try_iter()")
    m = re.search(r"ObjectRepr::Map => \{(.*?)map\.end\(\)", body, re.S)
    if not m:
        raise KeyError("Map branch of Value::serialize")
    mm = re.search(r"serializer\.serialize_map\(([^;]*?)\)\)?;", m.group(1))
    if not mm:
        raise KeyError("serialize_map call")
    map_len = re.sub(r"\s+", "", mm.group(1))
    lean = (f"def valueSerSeqLen : String := {lean_str(seq_len)}\n"
            f"def valueSerMapLen : String := {lean_str(map_len)}")
    return {"seq": seq_len, "map": map_len}, lean


@item("ENUMERATOR_QUERY_LEN")
def _enumerator_query_len(repo):
    src = read(repo, "minijinja/src/value/object.rs")
    body = fn_body(src, r"fn query_len\(&self\) -> Option<usize>\s*\{")
    rules = []
    for var, rhs in re.findall(r"Enumerator::(\w+)(?:\([^)]*\))?\s*=>\s*(.*?)(?=,\s*Enumerator::|\s*\}\)\s*$)", body, re.S):
        rhs = re.sub(r"\s+", " ", rhs.strip())
        if rhs == "0":
            rule = "zero"
        elif rhs in ("v.len()",):
            rule = "len"
        elif rhs == "*v":
            rule = "n"
        elif rhs.startswith("return None"):
            rule = "none"
        elif re.fullmatch(r"match i\.size_hint\(\) \{ \(a, Some\(b\)\) if a == b => a, _ => return None, \}", rhs):
            rule = "exact_hint"
        else:
            raise KeyError(f"query_len arm {var} => {rhs}")
        rules.append((var, rule))
    if len(rules) < 9:
        raise KeyError(f"query_len arms: {rules}")
    d = fn_body(src, r"fn enumerator_len\(self: &Arc<Self>\) -> Option<usize>\s*\{")
    if re.sub(r"\s+", "", d) != "self.enumerate().query_len()":
        raise KeyError("default Object::enumerator_len")
    lean = ("def enumeratorQueryLen : List (String × String) := ["
            + ", ".join(f"({lean_str(a)}, {lean_str(b)})" for a, b in sorted(rules)) + "]")
    return sorted(rules), lean


@item("SERDE_JSON_COMPOUND")
def _serde_json_compound(repo):
    """the parts of serde_json's serializer the length contract matters for"""
    ver, src = _serde_json_src(repo)
    seq = fn_body(src, r"fn serialize_seq\(self, len: Option<usize>\) -> Result<Self::SerializeSeq>\s*\{")
    mp = fn_body(src, r"fn serialize_map\(self, len: Option<usize>\) -> Result<Self::SerializeMap>\s*\{")
    shortcut = all(re.search(r"if len == Some\(0\)\s*\{[^}]*end_" + k + r"\(&mut self\.writer\)", b, re.S) and "State::Empty" in b
                   for k, b in (("array", seq), ("object", mp)))
    end = re.search(r"impl<'a, W, F> ser::SerializeSeq for Compound<'a, W, F>.*?fn end\(self\) -> Result<\(\)>\s*\{(.*?)\n    \}", src, re.S)
    if not end or not re.search(r"State::Empty => Ok\(\(\)\),\s*_ => ser\.formatter\.end_array", end.group(1)):
        raise KeyError("serde_json SerializeSeq::end")
    if not re.search(r"begin_array_value\(&mut ser\.writer, \*state == State::First\)", src):
        raise KeyError("serde_json serialize_element")
    pretty = re.search(r"impl<'a> Formatter for PrettyFormatter<'a>\s*\{(.*?)\n\}", src, re.S)
    if not pretty:
        raise KeyError("PrettyFormatter")
    p = pretty.group(1)
    counter = bool(re.search(r"fn end_array<W>.*?self\.current_indent -= 1;.*?if self\.has_value \{", p, re.S)
                   and re.search(r"fn begin_array<W>.*?self\.current_indent \+= 1;\s*self\.has_value = false;", p, re.S)
                   and re.search(r"fn end_array_value<W>.*?self\.has_value = true;", p, re.S))
    lean = (f"def serdeJsonEmptyShortcut : Bool := {'true' if shortcut else 'false'}\n"
            f"def serdeJsonPrettyCounter : Bool := {'true' if counter else 'false'}")
    return {"version": ver, "empty_shortcut": shortcut, "pretty_counter": counter}, lean


@item("SERIALIZATION_FLAG_GUARD")
def _serialization_flag_guard(repo):
    src = read(repo, "minijinja/src/value/mod.rs")
    m = re.search(r"static LAST_VALUE_HANDLE: Cell<u(\d+)>", src)
    if not m:
        raise KeyError("LAST_VALUE_HANDLE")
    bits = int(m.group(1))
    if "x.get().wrapping_add(1)" not in src:
        raise KeyError("value handle counter increment")
    conv = fn_body(src, r"impl<T: serde::Serialize> From<Serde<T>> for Value\s*\{")
    drop = fn_body(src, r"impl Drop for InternalSerializationGuard<'_>\s*\{")
    restores = bool(re.search(r"let old = flag\.replace\(true\);", conv)
                    and re.search(r"reset_on_drop:\s*!old", conv)
                    and re.search(r"if self\.reset_on_drop\s*\{\s*self\.flag\.set\(false\);\s*\}", drop))
    lean = (f"def valueHandleBits : Nat := {bits}\n"
            f"def serializationGuardRestores : Bool := {'true' if restores else 'false'}")
    return {"handle_bits": bits, "guard_restores": restores}, lean


def _rust_cond_to_lean(cond):
    """translate the registry's fast-path condition into a Lean Bool expression over
    `singleNone` / `overflowEmpty`"""
    c = re.sub(r"\s+", " ", cond.strip())
    c = c.replace("self.single.is_none()", "singleNone").replace("self.single.is_some()", "(!singleNone)")
    c = c.replace("self.overflow.is_empty()", "overflowEmpty")
    if not re.fullmatch(r"[()!&| ]*(?:(?:singleNone|overflowEmpty)[()!&| ]*)+", c):
        raise KeyError(f"registry fast-path condition not understood: {cond!r}")
    return c


@item("VALUE_HANDLE_REGISTRY")
def _value_handle_registry(repo):
    src = read(repo, "minijinja/src/value/mod.rs")
    imp = fn_body(src, r"impl ValueHandleRegistry\s*\{")
    ins = fn_body(imp, r"pub\(crate\) fn insert\(&mut self, handle: u32, value: Value\)\s*\{")
    m = re.match(r"\s*if (.*?)\s*\{\s*self\.single = Some\(\(handle, value\)\);\s*return;\s*\}\s*(.*)$", ins, re.S)
    if not m:
        raise KeyError("ValueHandleRegistry::insert fast path")
    cond = _rust_cond_to_lean(m.group(1))
    spill = re.sub(r"\s+", " ", m.group(2).strip())
    want_spill = ("if let Some((other_handle, other_value)) = self.single.take() { self.overflow.insert(other_handle, other_value); } "
                  "self.overflow.insert(handle, value);")
    if spill != want_spill:
        raise KeyError("ValueHandleRegistry::insert spill path changed")
    rem = re.sub(r"\s+", " ", fn_body(imp, r"pub\(crate\) fn remove\(&mut self, handle: u32\) -> Option<Value>\s*\{").strip())
    want_rem = ("if let Some((single_handle, _)) = self.single { if single_handle == handle { "
                "return self.single.take().map(|(_, value)| value); } } self.overflow.remove(&handle)")
    if rem != want_rem:
        raise KeyError("ValueHandleRegistry::remove changed")
    st = re.search(r"pub\(crate\) struct ValueHandleRegistry \{\s*single: Option<\(u32, Value\)>,\s*overflow: BTreeMap<u32, Value>,\s*\}", src)
    if not st:
        raise KeyError("ValueHandleRegistry fields")
    lean = ("/-- `ValueHandleRegistry::insert`: the condition of the inline-slot fast path -/\n"
            f"def registryInsertFastPath (singleNone overflowEmpty : Bool) : Bool := {cond}")
    return {"fast_path": cond}, lean
