"""C07 table items.

`cmpKindAlias : List (String × String)` — the explicit arms `ValueKind::A => ValueKind::B` of
`cmp_kind` in value/mod.rs (which kinds share a slot in the value ordering; the default arm keeps
the kind).  `valueMapStrScanMax : Nat` — the entry count up to which `get_value_by_str` of the
Value-keyed maps (`impl_value_map!` in value/object.rs) scans linearly instead of calling `get`.
`hashSharedZeroKinds` — the `ValueRepr` variants that `impl Hash for Value` feeds as `0u8`.
"""
import re
from extract_tables import item, read, fn_body, lean_str


@item("C07_CMP_KIND_ALIAS")
def _cmp_kind_alias(repo):
    src = read(repo, "minijinja/src/value/mod.rs")
    body = fn_body(src, r"fn cmp_kind\(\s*\w+\s*:\s*ValueKind\s*\)\s*->\s*ValueKind\s*\{")
    inner = fn_body(body, r"match\s+\w+\s*\{")
    inner = re.sub(r"//.*", "", inner)
    rows = []
    rest = inner
    for m in re.finditer(r"((?:ValueKind::\w+\s*\|?\s*)+)=>\s*ValueKind::(\w+)\s*,", inner):
        for a in re.findall(r"ValueKind::(\w+)", m.group(1)):
            rows.append((a, m.group(2)))
        rest = rest.replace(m.group(0), "")
    # what is left must be the identity default arm `name => name,`
    dm = re.fullmatch(r"\s*(\w+)\s*=>\s*(\w+)\s*,?\s*", rest)
    if not dm or dm.group(1) != dm.group(2):
        raise KeyError(f"cmp_kind has arms other than `ValueKind::A => ValueKind::B` and an identity default: `{rest.strip()[:80]}`")
    lean = "def cmpKindAlias : List (String × String) := [" + ", ".join(f"({lean_str(a)}, {lean_str(b)})" for a, b in rows) + "]"
    return rows, lean


@item("C07_VALUE_MAP_STR_SCAN_MAX")
def _scan_max(repo):
    src = read(repo, "minijinja/src/value/object.rs")
    body = fn_body(src, r"macro_rules!\s+impl_value_map\s*\{")
    fb = fn_body(body, r"fn get_value_by_str\([^)]*\)\s*->\s*Option<Value>\s*\{")
    m = re.search(r"if\s+self\.len\(\)\s*<=\s*(\d+)\s*\{", fb)
    if not m:
        raise KeyError("impl_value_map!::get_value_by_str: no `if self.len() <= N` fast-path test")
    n = int(m.group(1))
    return n, f"def valueMapStrScanMax : Nat := {n}"


@item("C07_HASH_ZERO_KINDS")
def _hash_zero(repo):
    src = read(repo, "minijinja/src/value/mod.rs")
    body = fn_body(src, r"impl Hash for Value\s*\{")
    m = re.search(r"((?:ValueRepr::\w+(?:\([^)]*\))?\s*\|?\s*)+)=>\s*0u8\.hash\(state\)", body)
    if not m:
        raise KeyError("impl Hash for Value: no arm feeding 0u8")
    names = re.findall(r"ValueRepr::(\w+)", m.group(1))
    return names, "def hashSharedZeroKinds : List String := [" + ", ".join(lean_str(n) for n in names) + "]"


@item("C07_QUERY_LEN_ARMS")
def _query_len_arms(repo):
    """`Enumerator::query_len` (the default body of `Object::enumerator_len`): per variant either a
    direct length (`direct`), `none`, or a size-hint test `(a, Some(b)) if a OP b => a` (the OP)."""
    src = read(repo, "minijinja/src/value/object.rs")
    body = fn_body(src, r"fn query_len\(&self\)\s*->\s*Option<usize>\s*\{")
    inner = fn_body(body, r"match\s+self\s*\{")
    inner = re.sub(r"//.*", "", inner)
    rows = {}
    rest = inner
    # size-hint arms
    for m in re.finditer(r"Enumerator::(\w+)\(\s*(\w+)\s*\)\s*=>\s*match\s+\2\.size_hint\(\)\s*\{\s*"
                         r"\(\s*(\w+)\s*,\s*Some\(\s*(\w+)\s*\)\s*\)\s*if\s+(\w+)\s*(==|<=|>=|<|>|!=)\s*(\w+)\s*=>\s*(\w+)\s*,\s*"
                         r"_\s*=>\s*return\s+None\s*,\s*\}\s*,", inner):
        name, _, a, b, l, op, rr, ret = m.groups()
        if (l, rr) != (a, b) or ret != a:
            raise KeyError(f"query_len arm {name}: guard/result not of the form `(a, Some(b)) if a OP b => a`")
        rows[name] = op
        rest = rest.replace(m.group(0), "")
    for m in re.finditer(r"Enumerator::(\w+)(?:\(\s*(\w+)\s*\))?\s*=>\s*(return\s+None|0|\*?\w+(?:\.len\(\))?)\s*,", rest):
        name, var, expr = m.groups()
        if expr.startswith("return"):
            rows[name] = "none"
        elif expr == "0" or (var and expr in (f"*{var}", f"{var}.len()")):
            rows[name] = "direct"
        else:
            raise KeyError(f"query_len arm {name}: unexpected result `{expr}`")
        rest = rest.replace(m.group(0), "")
    if rest.strip():
        raise KeyError(f"unparsed rest of query_len: `{rest.strip()[:80]}`")
    order = ["Empty", "Values", "Str", "Iter", "KeyValueIter", "RevIter", "RevKeyValueIter", "Seq", "NonEnumerable"]
    missing = [n for n in order if n not in rows]
    if missing:
        raise KeyError(f"query_len: no arm for {missing}")
    lst = [(n, rows[n]) for n in order] + [(n, v) for n, v in sorted(rows.items()) if n not in order]
    lean = "def queryLenArms : List (String × String) := [" + ", ".join(f"({lean_str(a)}, {lean_str(b)})" for a, b in lst) + "]"
    return lst, lean
