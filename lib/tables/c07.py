"""C07 table items.

`cmpKindAlias : List (String × String)` — the explicit arms `ValueKind::A => ValueKind::B` of
`cmp_kind` in value/mod.rs (which kinds share a slot in the value ordering; the default arm keeps
the kind).  `valueMapStrScanMax : Nat` — the entry count up to which `get_value_by_str` of the
Value-keyed maps (`impl_value_map!` in value/object.rs) scans linearly instead of calling `get`.
`hashSharedZeroKinds` — the `ValueRepr` variants that `impl Hash for Value` feeds as `0u8`.
"""
import re
from extract_tables import item, read, fn_body, lean_str


@item("C07_CMP_KIND_ALIAS")
def _cmp_kind_alias(repo):
    src = read(repo, "minijinja/src/value/mod.rs")
    body = fn_body(src, r"fn cmp_kind\(\s*\w+\s*:\s*ValueKind\s*\)\s*->\s*ValueKind\s*\{")
    inner = fn_body(body, r"match\s+\w+\s*\{")
    inner = re.sub(r"//.*", "", inner)
    rows = []
    rest = inner
    for m in re.finditer(r"((?:ValueKind::\w+\s*\|?\s*)+)=>\s*ValueKind::(\w+)\s*,", inner):
        for a in re.findall(r"ValueKind::(\w+)", m.group(1)):
            rows.append((a, m.group(2)))
        rest = rest.replace(m.group(0), "")
    # what is left must be the identity default arm `name => name,`
    dm = re.fullmatch(r"\s*(\w+)\s*=>\s*(\w+)\s*,?\s*", rest)
    if not dm or dm.group(1) != dm.group(2):
        raise KeyError(f"cmp_kind has arms other than `ValueKind::A => ValueKind::B` and an identity default: `{rest.strip()[:80]}`")
    lean = "def cmpKindAlias : List (String × String) := [" + ", ".join(f"({lean_str(a)}, {lean_str(b)})" for a, b in rows) + "]"
    return rows, lean


@item("C07_VALUE_MAP_STR_SCAN_MAX")
def _scan_max(repo):
    src = read(repo, "minijinja/src/value/object.rs")
    body = fn_body(src, r"macro_rules!\s+impl_value_map\s*\{")
    fb = fn_body(body, r"fn get_value_by_str\([^)]*\)\s*->\s*Option<Value>\s*\{")
    m = re.search(r"if\s+self\.len\(\)\s*<=\s*(\d+)\s*\{", fb)
    if not m:
        raise KeyError("impl_value_map!::get_value_by_str: no `if self.len() <= N` fast-path test")
    n = int(m.group(1))
    return n, f"def valueMapStrScanMax : Nat := {n}"


@item("C07_HASH_ZERO_KINDS")
def _hash_zero(repo):
    src = read(repo, "minijinja/src/value/mod.rs")
    body = fn_body(src, r"impl Hash for Value\s*\{")
    m = re.search(r"((?:ValueRepr::\w+(?:\([^)]*\))?\s*\|?\s*)+)=>\s*0u8\.hash\(state\)", body)
    if not m:
        raise KeyError("impl Hash for Value: no arm feeding 0u8")
    names = re.findall(r"ValueRepr::(\w+)", m.group(1))
    return names, "def hashSharedZeroKinds : List String := [" + ", ".join(lean_str(n) for n in names) + "]"
