"""C07 table items.

`cmpKindAlias : List (String × String)` — the explicit arms `ValueKind::A => ValueKind::B` of
`cmp_kind` in value/mod.rs (which kinds share a slot in the value ordering; the default arm keeps
the kind).  `valueMapStrScanMax : Nat` — the entry count up to which `get_value_by_str` of the
Value-keyed maps (`impl_value_map!` in value/object.rs) scans linearly instead of calling `get`.
`hashSharedZeroKinds` — the `ValueRepr` variants that `impl Hash for Value` feeds as `0u8`.
"""
import re
from extract_tables import item, read, fn_body, lean_str


@item("C07_CMP_KIND_ALIAS")
def _cmp_kind_alias(repo):
    src = read(repo, "minijinja/src/value/mod.rs")
    body = fn_body(src, r"fn cmp_kind\(\s*\w+\s*:\s*ValueKind\s*\)\s*->\s*ValueKind\s*\{")
    inner = fn_body(body, r"match\s+\w+\s*\{")
    inner = re.sub(r"//.*", "", inner)
    rows = []
    rest = inner
    for m in re.finditer(r"((?:ValueKind::\w+\s*\|?\s*)+)=>\s*ValueKind::(\w+)\s*,", inner):
        for a in re.findall(r"ValueKind::(\w+)", m.group(1)):
            rows.append((a, m.group(2)))
        rest = rest.replace(m.group(0), "")
    # what is left must be the identity default arm `name => name,`
    dm = re.fullmatch(r"\s*(\w+)\s*=>\s*(\w+)\s*,?\s*", rest)
    if not dm or dm.group(1) != dm.group(2):
        raise KeyError(f"cmp_kind has arms other than `ValueKind::A => ValueKind::B` and an identity default: `{rest.strip()[:80]}`")
    lean = "def cmpKindAlias : List (String × String) := [" + ", ".join(f"({lean_str(a)}, {lean_str(b)})" for a, b in rows) + "]"
    return rows, lean


@item("C07_VALUE_MAP_STR_SCAN_MAX")
def _scan_max(repo):
    src = read(repo, "minijinja/src/value/object.rs")
    body = fn_body(src, r"macro_rules!\s+impl_value_map\s*\{")
    fb = fn_body(body, r"fn get_value_by_str\([^)]*\)\s*->\s*Option<Value>\s*\{")
    m = re.search(r"if\s+self\.len\(\)\s*<=\s*(\d+)\s*\{", fb)
    if not m:
        raise KeyError("impl_value_map!::get_value_by_str: no `if self.len() <= N` fast-path test")
    n = int(m.group(1))
    return n, f"def valueMapStrScanMax : Nat := {n}"


@item("C07_HASH_ZERO_KINDS")
def _hash_zero(repo):
    src = read(repo, "minijinja/src/value/mod.rs")
    body = fn_body(src, r"impl Hash for Value\s*\{")
    m = re.search(r"((?:ValueRepr::\w+(?:\([^)]*\))?\s*\|?\s*)+)=>\s*0u8\.hash\(state\)", body)
    if not m:
        raise KeyError("impl Hash for Value: no arm feeding 0u8")
    names = re.findall(r"ValueRepr::(\w+)", m.group(1))
    return names, "def hashSharedZeroKinds : List String := [" + ", ".join(lean_str(n) for n in names) + "]"


@item("C07_QUERY_LEN_ARMS")
def _query_len_arms(repo):
    """`Enumerator::query_len` (the default body of `Object::enumerator_len`): per variant either a
    direct length (`direct`), `none`, or a size-hint test `(a, Some(b)) if a OP b => a` (the OP)."""
    src = read(repo, "minijinja/src/value/object.rs")
    body = fn_body(src, r"fn query_len\(&self\)\s*->\s*Option<usize>\s*\{")
    inner = fn_body(body, r"match\s+self\s*\{")
    inner = re.sub(r"//.*", "", inner)
    rows = {}
    rest = inner
    # size-hint arms
    for m in re.finditer(r"Enumerator::(\w+)\(\s*(\w+)\s*\)\s*=>\s*match\s+\2\.size_hint\(\)\s*\{\s*"
                         r"\(\s*(\w+)\s*,\s*Some\(\s*(\w+)\s*\)\s*\)\s*if\s+(\w+)\s*(==|<=|>=|<|>|!=)\s*(\w+)\s*=>\s*(\w+)\s*,\s*"
                         r"_\s*=>\s*return\s+None\s*,\s*\}\s*,", inner):
        name, _, a, b, l, op, rr, ret = m.groups()
        if (l, rr) != (a, b) or ret != a:
            raise KeyError(f"query_len arm {name}: guard/result not of the form `(a, Some(b)) if a OP b => a`")
        rows[name] = op
        rest = rest.replace(m.group(0), "")
    for m in re.finditer(r"Enumerator::(\w+)(?:\(\s*(\w+)\s*\))?\s*=>\s*(return\s+None|0|\*?\w+(?:\.len\(\))?)\s*,", rest):
        name, var, expr = m.groups()
        if expr.startswith("return"):
            rows[name] = "none"
        elif expr == "0" or (var and expr in (f"*{var}", f"{var}.len()")):
            rows[name] = "direct"
        else:
            raise KeyError(f"query_len arm {name}: unexpected result `{expr}`")
        rest = rest.replace(m.group(0), "")
    if rest.strip():
        raise KeyError(f"unparsed rest of query_len: `{rest.strip()[:80]}`")
    order = ["Empty", "Values", "Str", "Iter", "KeyValueIter", "RevIter", "RevKeyValueIter", "Seq", "NonEnumerable"]
    missing = [n for n in order if n not in rows]
    if missing:
        raise KeyError(f"query_len: no arm for {missing}")
    lst = [(n, rows[n]) for n in order] + [(n, v) for n, v in sorted(rows.items()) if n not in order]
    lean = "def queryLenArms : List (String × String) := [" + ", ".join(f"({lean_str(a)}, {lean_str(b)})" for a, b in lst) + "]"
    return lst, lean


def _split_top_args(text):
    """split `a, f(b, c), d` at top-level commas"""
    out, depth, cur = [], 0, ""
    for ch in text:
        if ch in "([{":
            depth += 1
        elif ch in ")]}":
            depth -= 1
        if ch == "," and depth == 0:
            out.append(cur.strip())
            cur = ""
        else:
            cur += ch
    if cur.strip():
        out.append(cur.strip())
    return out


def _match_arms(inner):
    """top-level arms `PATTERN => BODY` of a match body: list of (pattern, body text)"""
    arms, i, n = [], 0, len(inner)
    while i < n:
        j = inner.find("=>", i)
        if j < 0:
            break
        pat = inner[i:j].strip()
        k = j + 2
        while k < n and inner[k].isspace():
            k += 1
        if k < n and inner[k] == "{":
            depth, e = 0, k
            while e < n:
                if inner[e] == "{":
                    depth += 1
                elif inner[e] == "}":
                    depth -= 1
                    if depth == 0:
                        break
                e += 1
            body = inner[k:e + 1]
            i = e + 1
            while i < n and inner[i] in ", \n\t":
                i += 1
        else:
            depth, e = 0, k
            while e < n and not (inner[e] == "," and depth == 0):
                if inner[e] in "([{":
                    depth += 1
                elif inner[e] in ")]}":
                    depth -= 1
                e += 1
            body = inner[k:e]
            i = e + 1
        arms.append((pat, body))
    return arms


@item("C07_REVERSE_ARMS")
def _reverse_arms(repo):
    """`Value::reverse`, the `match o.enumerate()`: per `Enumerator` variant whether the FIRST walk of the
    result runs backwards (`reversed`: `.rev()` / `v.reverse()`), hands the enumerator's iterator on as it is
    (`forward`), yields nothing (`empty`) or fails (`error`: `None`).  For the arms that keep the boxed iterator
    for the first walk (`iter.lock().unwrap().take()`), only the branch that uses it is classified."""
    src = read(repo, "minijinja/src/value/mod.rs")
    body = fn_body(src, r"pub fn reverse\(&self\)\s*->\s*Result<Value,\s*Error>\s*\{")
    body = re.sub(r"//.*", "", body)
    inner = fn_body(body, r"match\s+o\.enumerate\(\)\s*\{")
    rows = {}
    for pat, arm in _match_arms(inner):
        m = re.fullmatch(r"Enumerator::(\w+)(?:\(.*\))?", pat.strip(), re.S)
        if not m:
            raise KeyError(f"Value::reverse: unexpected arm pattern `{pat.strip()[:60]}`")
        name = m.group(1)
        text = arm
        if ".take()" in arm:
            t = re.search(r"if let Some\(\w+\)\s*=\s*\w+\.lock\(\)\.unwrap\(\)\.take\(\)\s*\{", arm)
            if not t:
                raise KeyError(f"Value::reverse arm {name}: unexpected use of take()")
            text = fn_body(arm[t.start():], r"\{")
        if re.fullmatch(r"\s*None\s*", arm):
            rows[name] = "error"
        elif re.search(r"None::<Value>\.into_iter\(\)", text):
            rows[name] = "empty"
        elif re.search(r"\.rev\(\)|\b\w+\.reverse\(\)\s*;", text):
            rows[name] = "reversed"
        else:
            rows[name] = "forward"
    order = ["NonEnumerable", "Empty", "Seq", "Iter", "KeyValueIter", "RevIter", "RevKeyValueIter", "Str", "Values"]
    missing = [n for n in order if n not in rows]
    if missing:
        raise KeyError(f"Value::reverse: no arm for {missing}")
    lst = [(n, rows[n]) for n in order] + [(n, v) for n, v in sorted(rows.items()) if n not in order]
    lean = "def reverseArms : List (String × String) := [" + ", ".join(f"({lean_str(a)}, {lean_str(b)})" for a, b in lst) + "]"
    return lst, lean


@item("C07_FILTER_CMP_CALLS")
def _filter_cmp_calls(repo):
    """which comparison each collection filter of filters.rs is built on, in source order:
    `(filter, helper, case flag, reverse flag)` for every call of `cmp_helper` (the last two arguments as
    written), `(unique, BTreeSet, <key-string accessor>, <lower-casing method>)`, `(min|max, Iterator::min|max, "", "")`,
    plus the sorting routine each `safe_sort` ends in."""
    src = read(repo, "minijinja/src/filters.rs")
    rows = []
    for fname in ("dictsort", "sort", "groupby"):
        body = re.sub(r"//.*", "", fn_body(src, r"pub fn %s\([^{]*\{" % fname))
        calls = []
        for m in re.finditer(r"\bcmp_helper\(", body):
            depth, e = 0, m.end() - 1
            while e < len(body):
                if body[e] == "(":
                    depth += 1
                elif body[e] == ")":
                    depth -= 1
                    if depth == 0:
                        break
                e += 1
            args = _split_top_args(body[m.end():e])
            if len(args) != 4:
                raise KeyError(f"{fname}: cmp_helper call with {len(args)} arguments")
            calls.append((fname, "cmp_helper", args[2], args[3]))
        if not calls:
            raise KeyError(f"{fname}: no cmp_helper call")
        if "safe_sort(" not in body:
            raise KeyError(f"{fname}: does not sort through safe_sort")
        rows += calls
    ub = re.sub(r"//.*", "", fn_body(src, r"pub fn unique\([^{]*\{"))
    acc = re.search(r"value_to_compare\.(\w+)\(\)\s*\{", ub)
    low = re.search(r"Value::from\(s\.(\w+)\(\)\)", ub)
    if "BTreeSet::new()" not in ub or not acc or not low or "seen.contains(&memorized_value)" not in ub:
        raise KeyError("unique: not a BTreeSet of memorised keys")
    rows.append(("unique", "BTreeSet", acc.group(1), low.group(1)))
    for fname in ("min", "max"):
        body = re.sub(r"//.*", "", fn_body(src, r"pub fn %s\([^{]*\{" % fname))
        m = re.search(r"Ok\(iter\s*\.\s*(\w+)\(([^)]*)\)\s*\.unwrap_or\(Value::UNDEFINED\)\)", body)
        if not m:
            raise KeyError(f"{fname}: unexpected body")
        rows.append((fname, "Iterator::" + m.group(1), m.group(2).strip(), ""))
    # cmp_helper itself: what it case-folds with and that it reverses last
    hb = re.sub(r"//.*", "", fn_body(src, r"fn cmp_helper\([^{]*\{"))
    acc = re.search(r"\(a\.(\w+)\(\),\s*b\.(\w+)\(\)\)", hb)
    if not acc or acc.group(1) != acc.group(2) or not re.search(r"if reverse\s*\{\s*ordering\.reverse\(\)", hb):
        raise KeyError("cmp_helper: unexpected shape")
    rows.append(("cmp_helper", "Value::cmp", acc.group(1), "ordering.reverse()"))
    ss = read(repo, "minijinja/src/utils.rs")
    sb = re.sub(r"//.*", "", fn_body(ss, r"pub fn safe_sort<[^{]*\{"))
    sorts = sorted(set(re.findall(r"seq\.(sort\w*)\(", sb)))
    if not sorts:
        raise KeyError("safe_sort: no sort call")
    rows.append(("safe_sort", ",".join(sorts), "", ""))
    lean = ("def filterCmpCalls : List (String × String × String × String) := [" +
            ", ".join(f"({lean_str(a)}, {lean_str(b)}, {lean_str(c)}, {lean_str(d)})" for a, b, c, d in rows) + "]")
    return rows, lean


@item("C07_DERIVED_MAPS")
def _derived_maps(repo):
    """how the dictionaries derived from other dictionaries are built and looked up, read off the source:
    `(mechanism, shape)` for `dict(m)` (functions.rs: the entries inserted one by one, or collected),
    `MergeDict::enumerate` (value/merge_object.rs: the keys inserted one by one into a `BTreeSet`, or collected),
    `MergeDict::get_value` (a key whose entries all hold undefined values is found as undefined, or not found),
    `namespace(m)` (functions.rs: which accessor decides that a key is an attribute name) and the Map arm of
    `ops::contains` (what `k in m` asks the object)."""
    rows = []
    fsrc = re.sub(r"//.*", "", read(repo, "minijinja/src/functions.rs"))
    db = fn_body(fsrc, r"pub fn dict\([^{]*\{")
    arm = re.search(r"obj\.repr\(\)\s*==\s*ObjectRepr::Map\s*=>\s*\{", db)
    if arm:
        ab = fn_body(db[arm.start():], r"=>\s*\{")
        if re.search(r"for\s*\(\s*key\s*,\s*value\s*\)\s*in\s*obj\.try_iter_pairs\(\)\.into_iter\(\)\.flatten\(\)\s*\{\s*rv\.insert\(key,\s*value\);\s*\}", ab):
            rows.append(("dict", "insert-loop"))
        else:
            rows.append(("dict", "other:" + re.sub(r"\s+", " ", ab.strip())[:120]))
    elif re.search(r"try_iter_pairs\(\)\.into_iter\(\)\.flatten\(\)\.collect\(\)", db):
        rows.append(("dict", "collect"))
    else:
        raise KeyError("dict: no arm for map objects")
    msrc = re.sub(r"//.*", "", read(repo, "minijinja/src/value/merge_object.rs"))
    mb = fn_body(msrc, r"impl Object for MergeDict\s*\{")
    eb = fn_body(mb, r"fn enumerate\([^{]*\{")
    if re.search(r"BTreeSet::new\(\)", eb) and re.search(r"\{\s*keys\.insert\(key\);\s*\}", eb) and ".collect" not in eb:
        rows.append(("MergeDict::enumerate", "insert-loop"))
    else:
        rows.append(("MergeDict::enumerate", "other:" + re.sub(r"\s+", " ", eb.strip())[:120]))
    gb = fn_body(mb, r"fn get_value\([^{]*\{")
    if (re.search(r"for value in self\.values\.iter\(\)\.rev\(\)", gb) and re.search(r"present\s*=\s*true;", gb)
            and re.search(r"if present\s*\{\s*Some\(Value::UNDEFINED\)\s*\}\s*else\s*\{\s*None\s*\}", gb)
            and re.search(r"if !v\.is_undefined\(\)\s*\{\s*return Some\(v\);\s*\}", gb)):
        rows.append(("MergeDict::get_value", "last-defined-wins,undefined-entries-found"))
    else:
        rows.append(("MergeDict::get_value", "other:" + re.sub(r"\s+", " ", gb.strip())[:120]))
    nb = fn_body(fsrc, r"pub fn namespace\([^{]*\{")
    acc = re.search(r"if let Some\(key\)\s*=\s*key\.(\w+)\(\)\s*\{\s*ns\.set_value\(key,\s*value\);\s*\}", nb)
    rows.append(("namespace", acc.group(1) if acc else "other:" + re.sub(r"\s+", " ", nb.strip())[:120]))
    osrc = re.sub(r"//.*", "", read(repo, "minijinja/src/value/ops.rs"))
    cb = fn_body(osrc, r"pub fn contains\([^{]*\{")
    cm = re.search(r"ObjectRepr::Map\s*=>\s*([^,]+),", cb)
    if not cm:
        raise KeyError("ops::contains: no Map arm")
    rows.append(("contains-map", re.sub(r"\s+", "", cm.group(1))))
    lean = "def derivedMaps : List (String × String) := [" + ", ".join(f"({lean_str(a)}, {lean_str(b)})" for a, b in rows) + "]"
    return rows, lean


@item("C07_STR_ARMS")
def _str_arms(repo):
    """the string arms of `impl Ord` / `impl PartialEq` / `impl Hash for Value` and the slicing of `SmallStr::as_str`
    (value/mod.rs), as written (blanks and a block's braces removed): `(impl, representation, expression)`"""
    src = re.sub(r"//.*", "", read(repo, "minijinja/src/value/mod.rs"))
    rows = []
    def norm(e):
        e = re.sub(r"\s+", "", e)
        while e.startswith("{") and e.endswith("}"):
            e = e[1:-1]
        return e.rstrip(",")
    def arm(body, pat, what):
        m = re.search(pat + r"\s*=>\s*", body)
        if not m:
            raise KeyError(what)
        rest = body[m.end():]
        if rest.lstrip().startswith("{"):
            return norm(fn_body(rest, r"\{"))
        return norm(rest.split(",\n", 1)[0])
    ob = fn_body(src, r"impl Ord for Value\s*\{")
    rows.append(("Ord", "SmallStr", arm(ob, r"\(&ValueRepr::SmallStr\(ref a\),\s*&ValueRepr::SmallStr\(ref b\)\)", "Ord: no SmallStr/SmallStr arm")))
    rows.append(("Ord", "String", arm(ob, r"\(&ValueRepr::String\(ref a,\s*_\),\s*&ValueRepr::String\(ref b,\s*_\)\)", "Ord: no String/String arm")))
    eb = fn_body(src, r"impl PartialEq for Value\s*\{")
    rows.append(("PartialEq", "SmallStr", arm(eb, r"\(&ValueRepr::SmallStr\(ref a\),\s*&ValueRepr::SmallStr\(ref b\)\)", "PartialEq: no SmallStr/SmallStr arm")))
    rows.append(("PartialEq", "String", arm(eb, r"\(&ValueRepr::String\(ref a,\s*_\),\s*&ValueRepr::String\(ref b,\s*_\)\)", "PartialEq: no String/String arm")))
    hb = fn_body(src, r"impl Hash for Value\s*\{")
    rows.append(("Hash", "SmallStr", arm(hb, r"ValueRepr::SmallStr\(ref s\)", "Hash: no SmallStr arm")))
    rows.append(("Hash", "String", arm(hb, r"ValueRepr::String\(ref s,\s*_\)", "Hash: no String arm")))
    sb = fn_body(src, r"impl SmallStr\s*\{")
    ab = fn_body(sb, r"pub fn as_str\(&self\)\s*->\s*&str\s*\{")
    m = re.search(r"from_utf8_unchecked\(([^)]*)\)", ab)
    if not m:
        raise KeyError("SmallStr::as_str: unexpected body")
    rows.append(("SmallStr::as_str", "slice", norm(m.group(1))))
    cap = re.search(r"const SMALL_STR_CAP:\s*usize\s*=\s*(\d+);", src)
    if not cap:
        raise KeyError("SMALL_STR_CAP")
    lean = ("def strArms : List (String × String × String) := [" +
            ", ".join(f"({lean_str(a)}, {lean_str(b)}, {lean_str(c)})" for a, b, c in rows) + "]")
    return rows + [("SMALL_STR_CAP", "", cap.group(1))], lean
