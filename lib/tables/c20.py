"""C20 table item: every access to shared state in minijinja-autoreload/src/lib.rs, per function, in
source order.  The Lean model's steps assume exactly these accesses (one critical section per step);
`MJ.C20.accesses_as_modelled` proves (by evaluation) that the extracted table equals the table the
model was written against.  A new read/write of the reload flag, a new lock acquisition, a moved
creator call … anywhere in the file changes the table and breaks the tie, whether or not a yield
hook sits at that place.

Tokens (in the order they occur in the function body, comments / strings / verif-hook statements removed):
  lockCached.<m>        `cached_env.lock().<m>(`            <m> = how the LockResult is consumed; `unwrap`
  lockHandle.<m>        any other `.lock().<m>(`            means a poisoned mutex panics (notifier mutex)
  upgrade               `self.handle()` / `.upgrade()`     (weak -> strong; None = dead notifier)
  flag=true|false       `should_reload = <literal>`
  flag=<expr>           any other assignment / `mem::take`/`replace`/`swap` on `should_reload`
  readFlag              any other mention of the field `should_reload`
  fast=…, readFast      field `fast_reload`
  setCb, pollCb         field `should_reload_callback` (assignment / other mention)
  setOnCb, callOnCb     field `on_should_reload_callback`
  readEnv               `mutex_guard.is_none()`
  env=new               `*mutex_guard = Some(`
  derefEnv              `mutex_guard.as_ref()` / `.as_mut()`
  creator               `(self.env_creator)(`
  clear                 `.clear_templates()`
  call:<fn>             call of one of the private Notifier helpers (should_reload, fast_reload,
                        prepare_and_mark_reload, keep_reload_pending, weak, with_fs_watcher) or
                        `request_reload`
  handout               `EnvironmentGuard {` expression
  try                   `?`                                 (early error return)
  returnErr             `return Err`
"""
import re
from extract_tables import item, read, lean_str

SRC = "minijinja-autoreload/src/lib.rs"

TOKENS = [
    ("lockCached", r"cached_env\s*\.\s*lock\s*\(\)(?:\s*\.\s*(\w+))?"),
    ("lockHandle", r"\.\s*lock\s*\(\)(?:\s*\.\s*(\w+))?"),
    ("upgrade", r"self\s*\.\s*handle\s*\(\)|\.\s*upgrade\s*\(\)"),
    ("flagTake", r"(?:take|replace|swap)\s*\(\s*&mut\s+[^;]*?\bshould_reload\b(?!_)"),
    ("flagAssign", r"\.\s*should_reload\s*=(?!=)\s*(true\b|false\b)?"),
    ("readFlag", r"\.\s*should_reload\b(?![_(])"),
    ("fastAssign", r"\.\s*fast_reload\s*=(?!=)\s*(\w+)?"),
    ("readFast", r"\.\s*fast_reload\b(?![_(])"),
    ("setCb", r"\bshould_reload_callback\s*=(?!=)"),
    ("pollCb", r"(?<!on_)\bshould_reload_callback\b"),
    ("setOnCb", r"\bon_should_reload_callback\s*=(?!=)"),
    ("callOnCb", r"\bon_should_reload_callback\b"),
    ("readEnv", r"mutex_guard\s*\.\s*is_none\s*\(\)"),
    ("env=new", r"\*\s*mutex_guard\s*=\s*Some\s*\("),
    ("derefEnv", r"mutex_guard\s*\.\s*as_(?:ref|mut)\s*\(\)"),
    ("creator", r"\(\s*self\s*\.\s*env_creator\s*\)\s*\("),
    ("clear", r"\.\s*clear_templates\s*\(\)"),
    ("call", r"\.\s*(should_reload|fast_reload|prepare_and_mark_reload|keep_reload_pending|weak|with_fs_watcher|request_reload)\s*\("),
    ("handout", r"\bEnvironmentGuard\s*\{"),
    ("returnErr", r"\breturn\s+Err\b"),
    ("try", r"\?\s*[;)]"),
]


def _strip_hooks(src):
    """remove `#[cfg(feature = "verif_hooks")]` + the item/statement it guards"""
    out, i = [], 0
    attr = re.compile(r'#\[cfg\(feature\s*=\s*"verif_hooks"\)\]\s*')
    while True:
        m = attr.search(src, i)
        if not m:
            out.append(src[i:])
            break
        out.append(src[i:m.start()])
        j = m.end()
        # the guarded thing: a `{ … }` block, a `pub mod … { … }`, an `if … { … }`, or a statement up to `;`
        k = j
        depth = 0
        while k < len(src):
            c = src[k]
            if c == "{":
                depth += 1
            elif c == "}":
                depth -= 1
                if depth == 0:
                    k += 1
                    break
            elif c == ";" and depth == 0:
                k += 1
                break
            k += 1
        i = k
    return "".join(out)


def _functions(src):
    """(name, body) of every fn, in source order (bodies of nested closures stay inside their fn)"""
    res = []
    for m in re.finditer(r"\bfn\s+(\w+)\s*", src):
        i = m.end()
        if i < len(src) and src[i] == "<":
            # generic parameters: balanced <...>, `->` inside (Fn() -> T) is not a bracket
            d = 0
            while i < len(src):
                if src[i] == "<":
                    d += 1
                elif src[i] == ">" and src[i - 1] != "-":
                    d -= 1
                    if d == 0:
                        i += 1
                        break
                i += 1
        while i < len(src) and src[i].isspace():
            i += 1
        if i >= len(src) or src[i] != "(":
            continue
        # find the body's opening brace: the first `{` after the signature at paren depth 0
        depth = 0
        while i < len(src):
            c = src[i]
            if c == "(":
                depth += 1
            elif c == ")":
                depth -= 1
            elif c == "{" and depth == 0:
                break
            elif c == ";" and depth == 0:
                i = -1
                break
            i += 1
        if i < 0 or i >= len(src):
            continue
        j, d = i, 0
        while j < len(src):
            if src[j] == "{":
                d += 1
            elif src[j] == "}":
                d -= 1
                if d == 0:
                    break
            j += 1
        res.append((m.group(1), src[i + 1:j]))
    return res


def _tokens(body):
    found = []
    taken = [False] * len(body)
    for name, pat in TOKENS:
        for m in re.finditer(pat, body, re.S):
            if any(taken[m.start():m.end()]):
                # part of a longer token already recognised (e.g. cached_env.lock() vs .lock())
                if name in ("lockHandle", "readFlag", "readFast", "pollCb", "callOnCb", "upgrade", "try"):
                    continue
            if name == "flagAssign":
                tok = "flag=" + (m.group(1) or "<expr>")
            elif name == "flagTake":
                tok = "flag=<expr>"
            elif name == "fastAssign":
                tok = "fast=" + (m.group(1) if m.group(1) in ("true", "false", "yes") else "<expr>")
            elif name in ("lockCached", "lockHandle"):
                # how the LockResult is consumed: `.unwrap()` = a poisoned mutex panics
                tok = name + "." + (m.group(1) or "<unconsumed>")
            elif name == "call":
                tok = "call:" + m.group(1)
            else:
                tok = name
            found.append((m.start(), tok))
            for k in range(m.start(), m.end()):
                taken[k] = True
    found.sort()
    return [t for _, t in found]


def accesses(repo):
    src = read(repo, SRC)
    src = re.sub(r"//[^\n]*", "", src)
    src = _strip_hooks(src)
    src = re.sub(r'"(?:[^"\\]|\\.)*"', '""', src)
    table = []
    for name, body in _functions(src):
        toks = _tokens(body)
        if toks:
            table.append((name, toks))
    return table


@item("RELOADER_ACCESSES")
def _reloader_accesses(repo):
    table = accesses(repo)
    if not any(n == "acquire_env" for n, _ in table) or not any(n == "request_reload" for n, _ in table):
        raise KeyError("acquire_env / request_reload not found in " + SRC)
    rows = ",\n  ".join("(" + lean_str(n) + ", [" + ", ".join(lean_str(t) for t in toks) + "])" for n, toks in table)
    return table, "def reloaderAccesses : List (String × List String) := [\n  " + rows + "]"


if __name__ == "__main__":
    import sys
    for n, toks in accesses(sys.argv[1] if len(sys.argv) > 1 else "/repo"):
        print(n, toks)
