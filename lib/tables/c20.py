"""C20 table item: every access to shared state in minijinja-autoreload/src/lib.rs, per function, in
source order.  The Lean model's steps assume exactly these accesses (one critical section per step);
`MJ.C20.accesses_as_modelled` proves (by evaluation) that the extracted table equals the table the
model was written against.  A new read/write of the reload flag, a new lock acquisition, a moved
creator call … anywhere in the file changes the table and breaks the tie, whether or not a yield
hook sits at that place.

Tokens (in the order they occur in the function body, comments / strings / verif-hook statements removed):
  lockCached.<m>        `cached_env.lock().<m>(`            <m> = how the LockResult is consumed; `unwrap`
  lockWatcher.<m>       `watcher.lock().<m>(`               the fs watcher's own mutex (taken AFTER the notifier
                                                            mutex was released: calls into the watcher wait for
                                                            its thread, which takes the notifier mutex)
  lockHandle.<m>        any other `.lock().<m>(`            means a poisoned mutex panics (notifier mutex)
  upgrade               `self.handle()` / `.upgrade()`     (weak -> strong; None = dead notifier)
  flag=true|false       `should_reload = <literal>`
  flag=<expr>           any other assignment / `mem::take`/`replace`/`swap` on `should_reload`
  readFlag              any other mention of the field `should_reload`
  fast=…, readFast      field `fast_reload`
  setCb, pollCb         field `should_reload_callback` (assignment / other mention)
  setOnCb, callOnCb     field `on_should_reload_callback`
  readEnv               `mutex_guard.is_none()`
  env=new               `*mutex_guard = Some(`
  derefEnv              `mutex_guard.as_ref()` / `.as_mut()`
  creator               `(self.env_creator)(`
  clear                 `.clear_templates()`
  call:<fn>             call of one of the private Notifier helpers (should_reload, fast_reload,
                        prepare_and_mark_reload, keep_reload_pending, weak, with_fs_watcher) or
                        `request_reload`
  handout               `EnvironmentGuard {` expression
  try                   `?`                                 (early error return)
  returnErr             `return Err`
"""
import re
from extract_tables import item, read, lean_str

SRC = "minijinja-autoreload/src/lib.rs"

TOKENS = [
    ("lockCached", r"cached_env\s*\.\s*lock\s*\(\)(?:\s*\.\s*(\w+))?"),
    ("lockWatcher", r"\bwatcher\s*\.\s*lock\s*\(\)(?:\s*\.\s*(\w+))?"),
    ("lockHandle", r"\.\s*lock\s*\(\)(?:\s*\.\s*(\w+))?"),
    ("upgrade", r"self\s*\.\s*handle\s*\(\)|\.\s*upgrade\s*\(\)"),
    ("flagTake", r"(?:take|replace|swap)\s*\(\s*&mut\s+[^;]*?\bshould_reload\b(?!_)"),
    ("flagAssign", r"\.\s*should_reload\s*=(?!=)\s*(true\b|false\b)?"),
    ("readFlag", r"\.\s*should_reload\b(?![_(])"),
    ("fastAssign", r"\.\s*fast_reload\s*=(?!=)\s*(\w+)?"),
    ("readFast", r"\.\s*fast_reload\b(?![_(])"),
    ("setCb", r"\bshould_reload_callback\s*=(?!=)"),
    ("pollCb", r"(?<!on_)\bshould_reload_callback\b"),
    ("setOnCb", r"\bon_should_reload_callback\s*=(?!=)"),
    ("callOnCb", r"\bon_should_reload_callback\b"),
    ("readEnv", r"mutex_guard\s*\.\s*is_none\s*\(\)"),
    ("env=new", r"\*\s*mutex_guard\s*=\s*Some\s*\("),
    ("derefEnv", r"mutex_guard\s*\.\s*as_(?:ref|mut)\s*\(\)"),
    ("creator", r"\(\s*self\s*\.\s*env_creator\s*\)\s*\("),
    ("clear", r"\.\s*clear_templates\s*\(\)"),
    ("call", r"\.\s*(should_reload|fast_reload|prepare_and_mark_reload|keep_reload_pending|weak|with_fs_watcher|request_reload)\s*\("),
    ("handout", r"\bEnvironmentGuard\s*\{"),
    ("returnErr", r"\breturn\s+Err\b"),
    ("try", r"\?\s*[;)]"),
]


def _strip_hooks(src):
    """remove `#[cfg(feature = "verif_hooks")]` + the item/statement it guards"""
    out, i = [], 0
    attr = re.compile(r'#\[cfg\(feature\s*=\s*"verif_hooks"\)\]\s*')
    while True:
        m = attr.search(src, i)
        if not m:
            out.append(src[i:])
            break
        out.append(src[i:m.start()])
        j = m.end()
        # the guarded thing: a `{ … }` block, a `pub mod … { … }`, an `if … { … }`, or a statement up to `;`
        k = j
        depth = 0
        while k < len(src):
            c = src[k]
            if c == "{":
                depth += 1
            elif c == "}":
                depth -= 1
                if depth == 0:
                    k += 1
                    break
            elif c == ";" and depth == 0:
                k += 1
                break
            k += 1
        i = k
    return "".join(out)


def _functions(src):
    """(name, body) of every fn, in source order (bodies of nested closures stay inside their fn)"""
    res = []
    for m in re.finditer(r"\bfn\s+(\w+)\s*", src):
        i = m.end()
        if i < len(src) and src[i] == "<":
            # generic parameters: balanced <...>, `->` inside (Fn() -> T) is not a bracket
            d = 0
            while i < len(src):
                if src[i] == "<":
                    d += 1
                elif src[i] == ">" and src[i - 1] != "-":
                    d -= 1
                    if d == 0:
                        i += 1
                        break
                i += 1
        while i < len(src) and src[i].isspace():
            i += 1
        if i >= len(src) or src[i] != "(":
            continue
        # find the body's opening brace: the first `{` after the signature at paren depth 0
        depth = 0
        while i < len(src):
            c = src[i]
            if c == "(":
                depth += 1
            elif c == ")":
                depth -= 1
            elif c == "{" and depth == 0:
                break
            elif c == ";" and depth == 0:
                i = -1
                break
            i += 1
        if i < 0 or i >= len(src):
            continue
        j, d = i, 0
        while j < len(src):
            if src[j] == "{":
                d += 1
            elif src[j] == "}":
                d -= 1
                if d == 0:
                    break
            j += 1
        res.append((m.group(1), src[i + 1:j]))
    return res


def _tokens(body):
    found = []
    taken = [False] * len(body)
    for name, pat in TOKENS:
        for m in re.finditer(pat, body, re.S):
            if any(taken[m.start():m.end()]):
                # part of a longer token already recognised (e.g. cached_env.lock() vs .lock())
                if name in ("lockHandle", "readFlag", "readFast", "pollCb", "callOnCb", "upgrade", "try"):
                    continue
            if name == "flagAssign":
                tok = "flag=" + (m.group(1) or "<expr>")
            elif name == "flagTake":
                tok = "flag=<expr>"
            elif name == "fastAssign":
                tok = "fast=" + (m.group(1) if m.group(1) in ("true", "false", "yes") else "<expr>")
            elif name in ("lockCached", "lockHandle", "lockWatcher"):
                # how the LockResult is consumed: `.unwrap()` = a poisoned mutex panics
                tok = name + "." + (m.group(1) or "<unconsumed>")
            elif name == "call":
                tok = "call:" + m.group(1)
            else:
                tok = name
            found.append((m.start(), tok))
            for k in range(m.start(), m.end()):
                taken[k] = True
    found.sort()
    return [t for _, t in found]


def accesses(repo):
    src = read(repo, SRC)
    src = re.sub(r"//[^\n]*", "", src)
    src = _strip_hooks(src)
    src = re.sub(r'"(?:[^"\\]|\\.)*"', '""', src)
    table = []
    for name, body in _functions(src):
        toks = _tokens(body)
        if toks:
            table.append((name, toks))
    return table


@item("RELOADER_ACCESSES")
def _reloader_accesses(repo):
    table = accesses(repo)
    if not any(n == "acquire_env" for n, _ in table) or not any(n == "request_reload" for n, _ in table):
        raise KeyError("acquire_env / request_reload not found in " + SRC)
    rows = ",\n  ".join("(" + lean_str(n) + ", [" + ", ".join(lean_str(t) for t in toks) + "])" for n, toks in table)
    return table, "def reloaderAccesses : List (String × List String) := [\n  " + rows + "]"


if __name__ == "__main__":
    import sys
    for n, toks in accesses(sys.argv[1] if len(sys.argv) > 1 else "/repo"):
        print(n, toks)


# --------------------------------------------------------------------------------------------------
# C20_FS_EVENT_FILTER: which notify event kinds make the fs-watcher closure request a reload.
# The `matches!(kind, <pattern>)` of `with_fs_watcher` is parsed and evaluated on EVERY concrete
# event kind of the vendored `notify-types` crate (variant lists regenerated from its event.rs, the
# version pinned in /repo/Cargo.lock), so a narrowed pattern (e.g. only some RenameMode variants)
# shows up as rejected kinds and the coverage theorem `MJ.C20.every_namespace_change_event_requests`
# fails.

def _notify_types_src(repo):
    import glob, os
    lock = read(repo, "Cargo.lock")
    m = re.search(r'name = "notify-types"\s*\nversion = "([^"]+)"', lock)
    if not m:
        raise KeyError("notify-types not in Cargo.lock")
    home = os.environ.get("CARGO_HOME", os.path.expanduser("~/.cargo"))
    hits = sorted(glob.glob(os.path.join(home, "registry", "src", "*", "notify-types-" + m.group(1), "src", "event.rs")))
    if not hits:
        raise KeyError("vendored notify-types-%s source not found" % m.group(1))
    with open(hits[0], encoding="utf-8") as fh:
        return fh.read(), m.group(1)


def _enums(src):
    """{enum name: [(variant, payload type or None)]}"""
    src = re.sub(r"//[^\n]*", "", src)
    res = {}
    for m in re.finditer(r"pub\s+enum\s+(\w+)\s*\{", src):
        i = m.end()
        d, j = 1, i
        while d:
            d += {"{": 1, "}": -1}.get(src[j], 0)
            j += 1
        body = re.sub(r"#\[[^\]]*\]", "", src[i:j - 1])
        res[m.group(1)] = [(v, t) for v, t in re.findall(r"\b([A-Z]\w*)\s*(?:\(\s*(\w+)\s*\))?\s*,", body)]
    return res


def _values(enums, name):
    """every concrete value of enum `name` as a path of variant names"""
    out = []
    for v, t in enums[name]:
        if t and t in enums:
            out += [[v] + rest for rest in _values(enums, t)]
        elif t:
            raise KeyError("payload type %s of %s::%s is not an enum of event.rs" % (t, name, v))
        else:
            out.append([v])
    return out


def _parse_pattern(text):
    toks = re.findall(r"[A-Za-z_][A-Za-z0-9_]*(?:\s*::\s*[A-Za-z_][A-Za-z0-9_]*)*|[|()]", text)
    pos = [0]

    def alt():
        t = toks[pos[0]]
        pos[0] += 1
        if t == "_":
            return ("_",)
        if t in "|()":
            raise KeyError("unexpected %r in event pattern" % t)
        name = re.split(r"\s*::\s*", t)[-1]
        sub = None
        if pos[0] < len(toks) and toks[pos[0]] == "(":
            pos[0] += 1
            sub = pat()
            if toks[pos[0]] != ")":
                raise KeyError("unbalanced event pattern")
            pos[0] += 1
        return ("v", name, sub)

    def pat():
        if pos[0] < len(toks) and toks[pos[0]] == "|":
            pos[0] += 1
        alts = [alt()]
        while pos[0] < len(toks) and toks[pos[0]] == "|":
            pos[0] += 1
            alts.append(alt())
        return alts

    p = pat()
    if pos[0] != len(toks):
        raise KeyError("trailing tokens in event pattern")
    return p


def _matches(alts, value):
    for a in alts:
        if a[0] == "_":
            return True
        _, name, sub = a
        if value and value[0] == name:
            if sub is None and len(value) == 1:
                return True
            if sub is not None and len(value) > 1 and _matches(sub, value[1:]):
                return True
    return False


def fs_event_filter(repo):
    src = re.sub(r"//[^\n]*", "", read(repo, SRC))
    m = re.search(r"fn\s+with_fs_watcher\b", src)
    if not m:
        raise KeyError("with_fs_watcher")
    mm = re.search(r"matches!\s*\(\s*kind\s*,", src[m.end():])
    if not mm:
        raise KeyError("matches!(kind, …) in with_fs_watcher")
    i = m.end() + mm.end()
    d, j = 1, i
    while d:
        d += {"(": 1, ")": -1}.get(src[j], 0)
        j += 1
    pattern_text = src[i:j - 1]
    if re.search(r"\bif\b", pattern_text):
        raise KeyError("event pattern has a guard; not supported by the extractor")
    alts = _parse_pattern(pattern_text)
    nsrc, version = _notify_types_src(repo)
    enums = _enums(nsrc)
    for need in ("EventKind", "ModifyKind", "RenameMode", "CreateKind", "RemoveKind", "DataChange", "MetadataKind", "AccessKind"):
        if need not in enums:
            raise KeyError("enum %s not found in notify-types" % need)
    table = [(v, _matches(alts, v)) for v in _values(enums, "EventKind")]
    return table, enums, version


@item("C20_FS_EVENT_FILTER")
def _fs_event_filter(repo):
    table, enums, version = fs_event_filter(repo)
    lst = lambda xs: "[" + ", ".join(lean_str(x) for x in xs) + "]"
    rows = ",\n  ".join("(" + lst(v) + ", " + ("true" if ok else "false") + ")" for v, ok in table)
    lean = ("/-- every concrete `notify::EventKind` (notify-types " + version + ") and whether the fs-watcher closure requests a reload for it -/\n"
            "def fsEventFilter : List (List String × Bool) := [\n  " + rows + "]\n"
            + "\n".join("def notify%s : List String := %s" % (n, lst([v for v, _ in enums[n]]))
                        for n in ("EventKind", "ModifyKind", "RenameMode", "CreateKind", "RemoveKind", "DataChange", "MetadataKind")))
    return {"version": version, "accepted": [v for v, ok in table if ok], "rejected": [v for v, ok in table if not ok]}, lean


# --------------------------------------------------------------------------------------------------
# C20_WATCHER_DROP_COND: when does prepare_and_mark_reload throw the fs watcher away?  The condition
# of the `if` that guards `fs_watcher.take()` is parsed as a boolean expression over the two fields
# `persistent_fs_watcher` and `fast_reload` and evaluated on all four assignments.

@item("C20_WATCHER_DROP_COND")
def _watcher_drop_cond(repo):
    src = re.sub(r"//[^\n]*", "", read(repo, SRC))
    body = None
    for name, b in _functions(src):
        if name == "prepare_and_mark_reload":
            body = b
    if body is None:
        raise KeyError("prepare_and_mark_reload")
    takes = [m.start() for m in re.finditer(r"fs_watcher\s*\.\s*take\s*\(\)", body)]
    if len(takes) != 1:
        raise KeyError("expected exactly one fs_watcher.take() in prepare_and_mark_reload, found %d" % len(takes))
    ifs = [m for m in re.finditer(r"\bif\b(.*?)\{", body[:takes[0]], re.S)]
    if not ifs:
        raise KeyError("fs_watcher.take() is not guarded by an if")
    cond = ifs[-1].group(1).strip()
    # nothing but the guarded take() between the `{` and the take
    if body[ifs[-1].end():takes[0]].strip() not in ("locked_handle.", "") and not re.fullmatch(r"\s*\w+\s*\.\s*", body[ifs[-1].end():takes[0]]):
        raise KeyError("unexpected statements between the if and fs_watcher.take()")
    expr = re.sub(r"\b\w+\s*\.\s*persistent_fs_watcher\b", " P ", cond)
    expr = re.sub(r"\b\w+\s*\.\s*fast_reload\b", " F ", expr)
    if not re.fullmatch(r"[\sPF!&|()]*", expr):
        raise KeyError("drop condition is not a boolean expression over persistent_fs_watcher / fast_reload: " + cond)
    py = expr.replace("&&", " and ").replace("||", " or ").replace("!", " not ")
    rows = []
    for p in (False, True):
        for f in (False, True):
            try:
                v = bool(eval(py, {"__builtins__": {}}, {"P": p, "F": f}))
            except Exception as e:
                raise KeyError("cannot evaluate drop condition %r: %s" % (cond, e))
            rows.append(((p, f), v))
    b = lambda x: "true" if x else "false"
    lean = ("/-- (persistent_watch, fast_reload) ↦ does prepare_and_mark_reload drop the fs watcher -/\n"
            "def watcherDropCond : List ((Bool × Bool) × Bool) := ["
            + ", ".join(f"(({b(p)}, {b(f)}), {b(v)})" for (p, f), v in rows) + "]")
    return {"cond": re.sub(r"\s+", " ", cond), "rows": rows}, lean


# --------------------------------------------------------------------------------------------------
# C20_LOADER_STORE: what fast reload's `clear_templates()` empties.  Regenerated from
# minijinja/src/loader.rs + environment.rs:
#   * the FIELDS of `struct LoaderStore` (name, head of the type),
#   * per method of `impl LoaderStore`: every use of a field through `self`, in source order, as
#     (field, how): how = the method called on it (`self.f.m(` -> m), `=` for an assignment, `use` for any
#     other mention (`&self.f`, `match self.f`),
#   * the body of `Environment::clear_templates` as the calls it makes on fields of the environment, and
#     the type of the field `templates`.
# `MJ.C20.clear_empties_every_lookup_cache` demands that EVERY field on which any method of the store calls a
# method (= a container the lookup consults or fills: a template cache, a negative cache, an index …) is
# `.clear()`ed by `LoaderStore::clear`, and that the field list is the one the Lean model of the store has.

LOADER_SRC = "minijinja/src/loader.rs"
ENV_SRC = "minijinja/src/environment.rs"


def _strip(src):
    src = re.sub(r"//[^\n]*", "", src)
    src = re.sub(r'"(?:[^"\\]|\\.)*"', '""', src)
    return src


def _block_after(src, m_end):
    i = src.index("{", m_end - 1)
    d, j = 0, i
    while j < len(src):
        if src[j] == "{":
            d += 1
        elif src[j] == "}":
            d -= 1
            if d == 0:
                return src[i + 1:j]
        j += 1
    raise KeyError("unbalanced block")


def _struct_fields(src, name):
    m = re.search(r"\bstruct\s+%s\b[^{;]*\{" % name, src)
    if not m:
        raise KeyError("struct " + name)
    body = _block_after(src, m.end())
    body = re.sub(r"#\[[^\]]*\]", "", body)
    fields = []
    # split at top-level commas
    d, cur = 0, ""
    for c in body:
        if c in "<([{":
            d += 1
        elif c in ">)]}":
            d -= 1
        if c == "," and d == 0:
            fields.append(cur)
            cur = ""
        else:
            cur += c
    fields.append(cur)
    res = []
    for f in fields:
        mm = re.match(r"\s*(?:pub(?:\s*\([^)]*\))?\s+)?(\w+)\s*:\s*(.+?)\s*$", f, re.S)
        if mm:
            res.append((mm.group(1), re.match(r"[&'\w\s]*?(\w+)\s*(?:<|$)", mm.group(2).strip()).group(1)))
    return res


def loader_store(repo):
    src = _strip(read(repo, LOADER_SRC))
    fields = _struct_fields(src, "LoaderStore")
    if not fields:
        raise KeyError("no fields of LoaderStore found")
    names = [f for f, _ in fields]
    uses = []
    for m in re.finditer(r"\bimpl\b[^{;]*\bLoaderStore\b[^{;]*\{", src):
        if re.search(r"\bfor\s+LoaderStore\b", m.group(0)):
            body = _block_after(src, m.end())       # trait impls (Debug): reads only, listed too
        else:
            body = _block_after(src, m.end())
        for fname, fbody in _functions(body):
            toks = []
            for u in re.finditer(r"\bself\s*\.\s*(\w+)\b(\s*\.\s*(\w+)\s*(?:::\s*<[^>]*>\s*)?\(|\s*=(?!=))?", fbody):
                if u.group(1) not in names:
                    continue
                how = u.group(3) if u.group(3) else ("=" if u.group(2) and u.group(2).strip().startswith("=") else "use")
                toks.append((u.group(1), how))
            uses.append((fname, toks))
    if not any(n == "clear" for n, _ in uses) or not any(n == "get" for n, _ in uses):
        raise KeyError("LoaderStore::clear / LoaderStore::get not found")
    esrc = _strip(read(repo, ENV_SRC))
    efields = dict(_struct_fields(esrc, "Environment"))
    if "templates" not in efields:
        raise KeyError("Environment.templates")
    m = re.search(r"\bfn\s+clear_templates\s*\(", esrc)
    if not m:
        raise KeyError("Environment::clear_templates")
    cbody = _block_after(esrc, esrc.index(")", m.end()) + 1)
    calls = [re.sub(r"\s+", "", x) for x in re.findall(r"\bself\s*\.\s*(\w+\s*\.\s*\w+)\s*\(", cbody)]
    other = re.sub(r"\bself\s*\.\s*\w+\s*\.\s*\w+\s*\(\s*\)\s*;", "", cbody).strip()
    if other:
        calls.append("other:" + re.sub(r"\s+", " ", other)[:60])
    ttype = efields["templates"]
    al = re.search(r"\buse\s+crate\s*::\s*loader\s*::\s*(\w+)\s+as\s+%s\s*;" % re.escape(ttype), esrc)
    if al:
        ttype = al.group(1)      # `use crate::loader::LoaderStore as TemplateStore;`
    return fields, uses, calls, ttype


@item("C20_LOADER_STORE")
def _loader_store(repo):
    fields, uses, calls, ttype = loader_store(repo)
    pair = lambda a, b: "(" + lean_str(a) + ", " + lean_str(b) + ")"
    lean = ("/-- fields of `struct LoaderStore` (minijinja/src/loader.rs): (name, head of its type) -/\n"
            "def loaderStoreFields : List (String × String) := [" + ", ".join(pair(a, b) for a, b in fields) + "]\n"
            "/-- per method of LoaderStore: every use of a field through `self`, in source order -/\n"
            "def loaderStoreUses : List (String × List (String × String)) := [\n  "
            + ",\n  ".join("(" + lean_str(n) + ", [" + ", ".join(pair(a, b) for a, b in toks) + "])" for n, toks in uses) + "]\n"
            "/-- the calls `Environment::clear_templates` makes on fields of the environment -/\n"
            "def envClearTemplatesCalls : List String := [" + ", ".join(lean_str(c) for c in calls) + "]\n"
            "def envTemplatesType : String := " + lean_str(ttype))
    return {"fields": fields, "uses": uses, "clear_templates": calls, "templates_type": ttype}, lean


# --------------------------------------------------------------------------------------------------
# C20_HANDLE_SITES: who can hold a STRONG handle on the notifier state, who constructs notifiers.
# Every `NotifierImplHandle::Strong(` / `::Weak(` CONSTRUCTION (not the patterns of a `match`), every
# `Notifier::new()` / `Notifier {` expression, with the impl block and function it sits in, plus the
# visibility of `Notifier::new`.  `MJ.C20.one_strong_handle_per_reloader` proves from it: the only strong
# handle is made in the private `Notifier::new`, which only `AutoReloader::new` calls (one NotifierImpl per
# reloader: two reloaders never share a flag), and every notifier that leaves the reloader (`notifier()`,
# the creator's argument) is weak (so dropping the reloader kills them all).

def handle_sites(repo):
    src = _strip(_strip_hooks(read(repo, SRC)))
    sites = []
    for m in re.finditer(r"\bimpl\b([^{;]*)\{", src):
        head = re.sub(r"\s+", " ", m.group(1)).strip()
        tname = re.findall(r"\b([A-Z]\w*)\b", head)
        tname = tname[-1] if tname else "?"
        body = _block_after(src, m.end())
        for mf in re.finditer(r"((?:pub(?:\s*\([^)]*\))?\s+)?)fn\s+(\w+)\b", body):
            pass
        for fname, fbody in _functions(body):
            vis = "pub" if re.search(r"\bpub\s+fn\s+%s\b" % fname, body) else "priv"
            # constructions: `Strong(`/`Weak(` not followed (after the balanced parens) by `=>`
            for k in re.finditer(r"NotifierImplHandle\s*::\s*(Strong|Weak)\s*\(", fbody):
                d, j = 1, k.end()
                while d and j < len(fbody):
                    d += {"(": 1, ")": -1}.get(fbody[j], 0)
                    j += 1
                if re.match(r"\s*=>", fbody[j:]):
                    continue
                sites.append((tname + "::" + fname, vis, "make" + k.group(1)))
            for k in re.finditer(r"\bNotifier\s*::\s*new\s*\(", fbody):
                sites.append((tname + "::" + fname, vis, "call:Notifier::new"))
            for k in re.finditer(r"\bself\s*\.\s*notifier\s*\.\s*(\w+)\s*\(", fbody):
                if tname == "AutoReloader" and fname == "notifier":
                    sites.append((tname + "::" + fname, vis, "returns:self.notifier." + k.group(1)))
            if re.search(r"\bself\s*\.\s*notifier\s*\.\s*clone\s*\(", fbody) or re.search(r"\bself\s*\.\s*notifier\s*[,)]", fbody):
                sites.append((tname + "::" + fname, vis, "leaks:self.notifier"))
    if not any(s[2] == "makeStrong" for s in sites):
        raise KeyError("no construction of NotifierImplHandle::Strong found")
    return sites


@item("C20_HANDLE_SITES")
def _handle_sites(repo):
    sites = handle_sites(repo)
    lean = ("/-- (function, visibility, what): constructions of strong / weak notifier handles and of notifiers -/\n"
            "def notifierHandleSites : List (String × String × String) := [\n  "
            + ",\n  ".join("(" + lean_str(a) + ", " + lean_str(b) + ", " + lean_str(c) + ")" for a, b, c in sites) + "]")
    return sites, lean
