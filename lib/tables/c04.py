"""C04 table items: the operator tables of the constant folder (`eval_binop`, `eval_compare`), of the
code generator (`compile_bin_op`, `emit_compare`, `compare_op`, `sc_bool`) and of the VM (`func_binop!`/
`op_binop!` instructions, `CompareAndPreserve` arms), as (name, tag) rows.  `MJ/Proofs/FoldTables.lean`
interprets the tags and proves that the model's `evalBinop`/`evalCompare`/`binInstr`/`finalCompare`/
`compareAndPreserve` are exactly these tables, so a changed arm in the source breaks the build."""
import re
from extract_tables import item, read, fn_body, lean_str

AST = "minijinja/src/compiler/ast.rs"
CG = "minijinja/src/compiler/codegen.rs"
VM = "minijinja/src/vm/mod.rs"


def _norm(s):
    s = re.sub(r"//.*", "", s)
    return re.sub(r"\s+", " ", s).strip().rstrip(",").strip()


def _arms(body, prefix):
    """[(variant, normalised right-hand side)] of a `match` whose arms all start with `<prefix>::Variant =>`"""
    pat = re.compile(r"(?:%s::(\w+)\s*(?:\|\s*)?)+=>" % re.escape(prefix))
    ms = list(pat.finditer(body))
    if not ms:
        raise KeyError(f"no {prefix} arms")
    out = []
    for i, m in enumerate(ms):
        names = re.findall(r"%s::(\w+)" % re.escape(prefix), m.group(0))
        rhs = body[m.end(): ms[i + 1].start() if i + 1 < len(ms) else len(body)]
        for n in names:
            out.append((n, _norm(rhs)))
    return out


def _rows(name, rows, sep=":"):
    """rows (variant, tag) -> `List (String × List String)`, the tag split at `sep`"""
    return "def %s : List (String × List String) := [%s]" % (
        name, ", ".join("(%s, [%s])" % (lean_str(a), ", ".join(lean_str(x) for x in b.split(sep))) for a, b in rows))


def _variants(src, enum):
    body = fn_body(src, r"pub enum %s\s*\{" % enum)
    body = re.sub(r"//.*", "", body)
    names = re.findall(r"^\s*([A-Z]\w*)\s*,", body, re.M)
    if not names:
        raise KeyError(enum)
    return names


FOLD_SHAPES = [
    (r"^ops::(\w+)\(left, right\)\.ok\(\)$", lambda m: f"ops:{m.group(1)}:lr"),
    (r"^ops::(\w+)\(right, left\)\.ok\(\)$", lambda m: f"ops:{m.group(1)}:rl"),
    (r"^Some\(ops::string_concat\(left\.clone\(\), right\)\)$", lambda m: "concat:lr"),
    (r"^Some\(Value::from\(left (==|!=|<=|>=|<|>) right\)\)$", lambda m: f"cmp:{m.group(1)}"),
    (r"^Some\(if left\.is_true\(\) \{ right\.clone\(\) \} else \{ left\.clone\(\) \}\)$", lambda m: "sel:l?r:l"),
    (r"^Some\(if left\.is_true\(\) \{ left\.clone\(\) \} else \{ right\.clone\(\) \}\)$", lambda m: "sel:l?l:r"),
    (r"^ops::contains\(right, left\) \.ok\(\) \.map\(\|value\| Value::from\(!value\.is_true\(\)\)\)$", lambda m: "notcontains:rl"),
]


def _fold_tag(rhs):
    for pat, f in FOLD_SHAPES:
        m = re.match(pat, rhs)
        if m:
            return f(m)
    raise KeyError(f"unrecognised folder arm `{rhs}`")


@item("C04_BINOP_KINDS")
def _kinds(repo):
    src = read(repo, AST)
    b, c, u = _variants(src, "BinOpKind"), _variants(src, "CompareOpKind"), _variants(src, "UnaryOpKind")
    lean = ("def binOpKinds : List String := [" + ", ".join(map(lean_str, b)) + "]\n"
            "def compareOpKinds : List String := [" + ", ".join(map(lean_str, c)) + "]\n"
            "def unaryOpKinds : List String := [" + ", ".join(map(lean_str, u)) + "]")
    return {"bin": b, "cmp": c, "un": u}, lean


@item("C04_FOLD_BINOP")
def _fold_binop(repo):
    body = fn_body(read(repo, AST), r"fn eval_binop\(op: BinOpKind, left: &Value, right: &Value\) -> Option<Value>\s*\{")
    rows = [(n, _fold_tag(r)) for n, r in _arms(fn_body(body, r"match op\s*\{"), "BinOpKind")]
    return rows, _rows("foldBinopTable", rows)


@item("C04_FOLD_COMPARE")
def _fold_compare(repo):
    body = fn_body(read(repo, AST), r"fn eval_compare\(op: CompareOpKind, left: &Value, right: &Value\) -> Option<Value>\s*\{")
    rows = [(n, _fold_tag(r)) for n, r in _arms(fn_body(body, r"match op\s*\{"), "CompareOpKind")]
    return rows, _rows("foldCompareTable", rows)


@item("C04_FOLD_UNARY")
def _fold_unary(repo):
    """the `UnaryOp` arm of `Expr::as_const`"""
    body = fn_body(read(repo, AST), r"pub fn as_const\(&self\) -> Option<Value>\s*\{\s*match self")
    inner = fn_body(body, r"Expr::UnaryOp\(c\) => match c\.op\s*\{")
    shapes = {
        "c.expr.as_const().map(|value| Value::from(!value.is_true()))": "not:is_true",
        "c.expr.as_const().and_then(|v| ops::neg(&v).ok())": "ops:neg",
    }
    rows = []
    for n, r in _arms(inner, "UnaryOpKind"):
        if r not in shapes:
            raise KeyError(f"unrecognised unary folder arm `{r}`")
        rows.append((n, shapes[r]))
    return rows, _rows("foldUnaryTable", rows)


@item("C04_CODEGEN_BINOP")
def _codegen_binop(repo):
    src = read(repo, CG)
    body = fn_body(src, r"fn compile_bin_op\(&mut self, c: &ast::Spanned<ast::BinOp<'source>>\)\s*\{")
    inner = fn_body(body, r"let instr = match c\.op\s*\{")
    sc = fn_body(src, r"pub fn sc_bool\(&mut self, and: bool\)\s*\{")
    if not re.search(r"if and \{\s*Instruction::JumpIfFalseOrPop\(!0\)\s*\} else \{\s*Instruction::JumpIfTrueOrPop\(!0\)\s*\}", sc):
        raise KeyError("sc_bool shape")
    rows = []
    for n, r in _arms(inner, "ast::BinOpKind"):
        m = re.match(r"^Instruction::(\w+)$", r)
        if m:
            rows.append((n, m.group(1)))
        elif n in ("ScAnd", "ScOr"):
            want = ("{ self.start_sc_bool(); self.compile_expr(&c.left); self.sc_bool(matches!(c.op, ast::BinOpKind::ScAnd)); "
                    "self.compile_expr(&c.right); self.end_sc_bool(); self.pop_span(); return; }")
            if r != want:
                raise KeyError(f"short-circuit arm changed: `{r}`")
            rows.append((n, "JumpIfFalseOrPop" if n == "ScAnd" else "JumpIfTrueOrPop"))
        else:
            raise KeyError(f"unrecognised compile_bin_op arm `{n} => {r}`")
    # operands are compiled left then right, then the instruction
    if not re.search(r"self\.compile_expr\(&c\.left\);\s*self\.compile_expr\(&c\.right\);\s*self\.add\(instr\);", body):
        raise KeyError("compile_bin_op operand order")
    return rows, _rows("codegenBinopTable", rows)


@item("C04_CODEGEN_COMPARE")
def _codegen_compare(repo):
    src = read(repo, CG)
    body = fn_body(src, r"fn emit_compare\(&mut self, op: ast::CompareOpKind\)\s*\{")
    inner = fn_body(body, r"self\.add\(match op\s*\{")
    rows = []
    for n, r in _arms(inner, "ast::CompareOpKind"):
        m = re.match(r"^Instruction::(\w+)$", r)
        if not m:
            raise KeyError(f"emit_compare arm `{r}`")
        rows.append((n, m.group(1)))
    if not re.search(r"if matches!\(op, ast::CompareOpKind::NotIn\) \{\s*self\.add\(Instruction::Not\);\s*\}", body):
        raise KeyError("emit_compare NotIn negation")
    rows = [(n, i + ("+Not" if n == "NotIn" else "")) for n, i in rows]
    cbody = fn_body(src, r"fn compare_op\(op: ast::CompareOpKind\) -> CompareOp\s*\{")
    crow = []
    for n, r in _arms(fn_body(cbody, r"match op\s*\{"), "ast::CompareOpKind"):
        m = re.match(r"^CompareOp::(\w+)$", r)
        if not m:
            raise KeyError(f"compare_op arm `{r}`")
        crow.append((n, m.group(1)))
    return {"emit": rows, "cap": crow}, _rows("emitCompareTable", rows, "+") + "\n" + _rows("compareOpTable", crow)


@item("C04_VM_BINOP")
def _vm_binop(repo):
    src = read(repo, VM)
    rows = [(a, ("func:" if k == "func_binop" else "op:") + b.strip())
            for a, k, b in re.findall(r"Instruction::(\w+)\s*=>\s*(func_binop|op_binop)!\(([^)]+)\)", src)]
    if not rows:
        raise KeyError("func_binop!/op_binop! instructions")
    f = _norm(fn_body(src, r"macro_rules! func_binop\s*\{"))
    o = _norm(fn_body(src, r"macro_rules! op_binop\s*\{"))
    if f != "($method:ident) => {{ b = stack.pop(); a = stack.pop(); stack.push(ctx_ok!(ops::$method(&a, &b))); }};":
        raise KeyError("func_binop! body changed: " + f)
    if o != ("($op:tt) => {{ b = stack.pop(); a = stack.pop(); ctx_ok!(undefined_behavior.assert_value_not_undefined(&a)); "
             "ctx_ok!(undefined_behavior.assert_value_not_undefined(&b)); stack.push(Value::from(a $op b)); }};"):
        raise KeyError("op_binop! body changed: " + o)
    # CompareAndPreserve arms
    cap = fn_body(src, r"Instruction::CompareAndPreserve\(op\) =>\s*\{")
    inner = fn_body(cap, r"let result = match op\s*\{")
    crow = []
    for n, r in _arms(inner, "CompareOp"):
        m = re.match(r"^\{ ctx_ok!\(undefined_behavior\.assert_value_not_undefined\(&a\)\); "
                     r"ctx_ok!\(undefined_behavior\.assert_value_not_undefined\(&b\)\); a (==|!=|<=|>=|<|>) b \}$", r)
        if m:
            crow.append((n, "op:" + m.group(1)))
        elif n in ("In", "NotIn"):
            want = ("{ ctx_ok!(undefined_behavior.assert_iterable(&b)); ctx_ok!(undefined_behavior.assert_value_not_undefined(&a)); "
                    "let contains = ctx_ok!(ops::contains(&b, &a)).is_true(); if matches!(op, CompareOp::NotIn) { !contains } else { contains } }")
            if r != want:
                raise KeyError(f"CompareAndPreserve In/NotIn arm changed: `{r}`")
            crow.append((n, "contains:ba" + (":not" if n == "NotIn" else "")))
        else:
            raise KeyError(f"CompareAndPreserve arm `{n}`: `{r}`")
    if not re.search(r"stack\.push\(b\);\s*stack\.push\(Value::from\(result\)\);", cap):
        raise KeyError("CompareAndPreserve pushes")
    return {"binop": rows, "cap": crow}, _rows("vmBinopTable", rows) + "\n" + _rows("vmCompareAndPreserveTable", crow)


@item("C04_TRAVERSAL")
def _traversal(repo):
    """which `Expr` variants `Expr::as_const` handles (everything else: `_ => None`), and the
    special cases of the code generator that evaluate at compile time"""
    src = read(repo, AST)
    ebody = re.sub(r"//.*", "", fn_body(src, r"pub enum Expr<'a>\s*\{"))
    variants = re.findall(r"^\s*([A-Z]\w*)\(", ebody, re.M)
    if not variants:
        raise KeyError("enum Expr variants")
    body = fn_body(src, r"pub fn as_const\(&self\) -> Option<Value>\s*\{")
    inner = fn_body(body, r"match self\s*\{")
    arms = []
    for n in re.findall(r"Expr::(\w+)\(\w+\)\s*=>", inner):
        if n not in arms:
            arms.append(n)
    if not arms:
        raise KeyError("as_const arms")
    if not re.search(r"_\s*=>\s*None\s*,?\s*$", inner.strip()):
        raise KeyError("as_const: the catch-all arm `_ => None` is gone")
    # code generator
    cg = read(repo, CG)
    ce = fn_body(cg, r"pub fn compile_expr\(&mut self, expr: &ast::Expr<'source>\)\s*\{")
    specials = []
    if re.search(r"^\s*(?://[^\n]*\n\s*)*if let Some\(v\) = expr\.as_const\(\) \{\s*self\.set_line_from_span\(expr\.span\(\)\);\s*"
                 r"self\.add\(Instruction::LoadConst\(v\.clone\(\)\)\);\s*return;\s*\}", ce):
        specials.append("fold-first")
    if re.search(r"if let ast::Expr::Const\(ref c\) = c\.expr \{\s*if let Ok\(negated\) = neg\(&c\.value\) \{\s*"
                 r"self\.add\(Instruction::LoadConst\(negated\)\);\s*return;\s*\}\s*\}", ce):
        specials.append("neg-const-shortcut")
    ca = fn_body(cg, r"fn compile_call_args\(")
    if (re.search(r"if !matches!\(expr, ast::Expr::Const\(_\)\) \{\s*static_kwargs = false;\s*\}", ca)
            and re.search(r"collected_kwargs\.insert\(Value::from\(\*key\), c\.value\.clone\(\)\);", ca)
            and re.search(r"self\.add\(Instruction::LoadConst\(Kwargs::wrap\(collected_kwargs\)\)\);", ca)):
        specials.append("static-kwargs")
    # the interaction of the static keyword arguments with the `caller` of a `{% call %}` block
    init = re.search(r"let mut static_kwargs = ([^;]+);", ca)
    if init and _norm(init.group(1)) == "caller.is_none()":
        specials.append("static-kwargs-off-for-caller")
    hk = re.search(r"let mut has_kwargs = ([^;]+);", ca)
    if hk and _norm(hk.group(1)) == "caller.is_some()":
        specials.append("caller-forces-kwargs")
    if re.search(r"if let Some\(caller\) = caller \{\s*self\.add\(Instruction::LoadConst\(Value::from\(\"caller\"\)\)\);\s*"
                 r"self\.compile_macro_expression\(caller\);\s*pending_kwargs \+= 1;?\s*\}", ca):
        specials.append("caller-appended-last")
    # every other compile-time evaluation in the code generator would go through one of these
    others = len(re.findall(r"as_const\(\)", cg))
    # who calls the const-sensitive helpers, and with which `extra_args` / `caller`
    def sites(pattern):
        rows = []
        for m in re.finditer(pattern, cg):
            fns = re.findall(r"fn (\w+)\s*[(<]", cg[:m.start()])
            rows.append((fns[-1] if fns else "?", ":".join(_norm(g) for g in m.groups())))
        return rows
    args_sites = sites(r"self\.compile_call_args\(\s*[^,]+,\s*(\w+),\s*(\w+)\s*,?\s*\)")
    call_sites = sites(r"self\.compile_call\(\s*[^,]+,\s*((?:Some\([^)]*\))|\w+)\s*,?\s*\)")
    call_sites = [(f, "Some" if a.startswith("Some(") else a) for f, a in call_sites]
    if not args_sites or not call_sites:
        raise KeyError("call sites of compile_call_args / compile_call")
    lean = (_rows("callArgsSites", sorted(set(args_sites))) + "\n" + _rows("callSites", sorted(set(call_sites))) + "\n" +
            "def exprVariants : List String := [" + ", ".join(map(lean_str, variants)) + "]\n"
            "def asConstArms : List String := [" + ", ".join(map(lean_str, arms)) + "]\n"
            "def codegenSpecials : List String := [" + ", ".join(map(lean_str, specials)) + "]\n"
            f"def codegenAsConstUses : Nat := {others}")
    return {"variants": variants, "arms": arms, "specials": specials, "as_const_uses": others,
            "call_args_sites": sorted(set(args_sites)), "call_sites": sorted(set(call_sites))}, lean


@item("C04_CONST_SITES")
def _const_sites(repo):
    """Where the code generator can put a value into the instruction stream or look at the literal-ness of
    an operand: every `Instruction::LoadConst(..)` site (function, normalised argument) and every place
    where `codegen.rs` pattern-matches a literal or container variant of `ast::Expr`.  A new precomputed
    constant (a lookup table, a pre-joined string, a cached comparison …) needs a new row."""
    cg = read(repo, CG)
    def owner(pos):
        fns = re.findall(r"fn (\w+)\s*[(<]", cg[:pos])
        return fns[-1] if fns else "?"
    loads = []
    for m in re.finditer(r"Instruction::LoadConst\(", cg):
        depth, j = 1, m.end()
        while depth and j < len(cg):
            depth += {"(": 1, ")": -1}.get(cg[j], 0)
            j += 1
        arg = _norm(cg[m.end():j - 1])
        arg = re.sub(r"\s+", " ", arg)
        if len(arg) > 60:
            arg = arg[:60]
        loads.append((owner(m.start()), arg))
    if not loads:
        raise KeyError("LoadConst sites")
    looks = []
    for m in re.finditer(r"ast::Expr::(Const|List|Tuple|Map)\b", cg):
        looks.append((owner(m.start()), m.group(1)))
    rows1 = sorted(set(loads))
    counts = {}
    for x in looks:
        counts[x] = counts.get(x, 0) + 1
    rows2 = sorted((f, v + ":" + str(n)) for (f, v), n in counts.items())
    lean = ("def loadConstSites : List (String × String) := [" + ", ".join("(%s, %s)" % (lean_str(a), lean_str(b)) for a, b in rows1) + "]\n"
            "def literalMatchSites : List (String × String) := [" + ", ".join("(%s, %s)" % (lean_str(a), lean_str(b)) for a, b in rows2) + "]")
    return {"loads": rows1, "literal_matches": rows2}, lean


@item("C04_STMT_TRAVERSAL")
def _stmt_traversal(repo):
    """Statement lists of the AST and the loops of `codegen.rs` that compile them: every
    `Vec<Stmt>` field of `ast.rs` (struct, field), every call of `compile_stmt` in `codegen.rs` as
    (function, `<var>.<field>` of the canonical loop `for node in &var.field { self.compile_stmt(node); }`,
    or `?…` for any other shape), and the conditions of the `if`s of the functions that contain such loops.
    A statement list compiled under a condition on a constant (branch elimination) or skipped shows here."""
    ast = read(repo, AST)
    fields = []
    for m in re.finditer(r"pub struct (\w+)<'a>\s*\{(.*?)\n\}", ast, re.S):
        for f in re.findall(r"pub (\w+): Vec<Stmt<'a>>", m.group(2)):
            fields.append((m.group(1), f))
    if not fields:
        raise KeyError("Vec<Stmt> fields")
    cg = read(repo, CG)
    def owner(pos):
        fns = re.findall(r"fn (\w+)\s*[(<]", cg[:pos])
        return fns[-1] if fns else "?"
    loops = []
    canon = re.compile(r"for node in &(\w+)\.(\w+) \{\s*(?:self|sub)\.compile_stmt\(node\);\s*\}")
    covered = set()
    for m in canon.finditer(cg):
        loops.append((owner(m.start()), m.group(1) + "." + m.group(2)))
        covered.add(cg.index("compile_stmt(node)", m.start()))
    for m in re.finditer(r"compile_stmt\(", cg):
        if m.start() in covered or cg[max(0, m.start() - 7):m.start()] == "pub fn ":
            continue
        line = cg[cg.rfind("\n", 0, m.start()) + 1:cg.find("\n", m.start())]
        loops.append((owner(m.start()), "?" + _norm(line)[:50]))
    conds = []
    for fn in sorted(set(f for f, _ in loops)):
        if fn == "compile_stmt":
            body = fn_body(cg, r"pub fn compile_stmt\(&mut self, stmt: &ast::Stmt<'source>\)\s*\{")
        else:
            body = fn_body(cg, r"fn %s\(" % fn)
        for c in re.findall(r"\bif ([^{]+)\{", body):
            conds.append((fn, _norm(c)[:70]))
    loops = sorted(set(loops))
    conds = sorted(set(conds))
    pair = lambda rows: "[" + ", ".join("(%s, %s)" % (lean_str(a), lean_str(b)) for a, b in rows) + "]"
    lean = ("def stmtListFields : List (String × String) := " + pair(fields) + "\n"
            "def stmtCompileLoops : List (String × String) := " + pair(loops) + "\n"
            "def stmtCompileConds : List (String × String) := " + pair(conds))
    return {"fields": fields, "loops": loops, "conds": conds}, lean
