"""C11 table items: where the interpreter loop is re-entered natively and which depth bookkeeping
surrounds each re-entry (vm/mod.rs), the depth check itself (vm/context.rs) and the clamp of
`set_recursion_limit` (environment.rs).  Anchored regular expressions; an item that no longer
matches is reported missing and `MJ.Props.C11` stops building (= broken tie)."""
import re
from extract_tables import item, read, fn_body, lean_str

VM = "minijinja/src/vm/mod.rs"
CTX = "minijinja/src/vm/context.rs"
ENVRS = "minijinja/src/environment.rs"


def _strip(src):
    # comments and every item / statement / block under a `verif_hooks` cfg attribute (also
    # `cfg(all(feature = "verif_hooks", …))`; brace aware) are not part of the logic
    return _strip_hooks(src)


def _norm(s):
    return re.sub(r"\s+", " ", s).strip()


def _balanced(src, i):
    """src[i] == '(' -> index just after the matching ')'"""
    depth = 0
    j = i
    while j < len(src):
        if src[j] == "(":
            depth += 1
        elif src[j] == ")":
            depth -= 1
            if depth == 0:
                return j + 1
        j += 1
    raise KeyError("unbalanced parentheses")


def _functions(src):
    """(name, body_text) of every `fn` in the file, in order"""
    out = []
    for m in re.finditer(r"\bfn\s+(\w+)\s*(?:<[^>{}()]*>)?\s*\(", src):
        # body = first brace block after the parameter list
        close = _balanced(src, m.end() - 1)
        k = src.find("{", close)
        semi = src.find(";", close)
        if k < 0 or (0 <= semi < k):
            continue  # declaration without a body
        depth, j = 0, k
        while j < len(src):
            if src[j] == "{":
                depth += 1
            elif src[j] == "}":
                depth -= 1
                if depth == 0:
                    break
            j += 1
        out.append((m.group(1), src[k + 1:j]))
    return out


_DEPTH_CALL = re.compile(r"((?:\w+\.)*\w+)\.(push_frame|incr_depth|decr_depth|pop_frame)\(")
_REENTRY = re.compile(r"\bSelf::(eval_state|do_eval|eval_impl)\(")


def _depth_calls(body):
    """[(pos, text)] of the depth bookkeeping calls in a function body; the text says how the
    result is consumed (`ok!`, `if let Err`, plain statement)"""
    res = []
    for m in _DEPTH_CALL.finditer(body):
        end = _balanced(body, m.end() - 1)
        call = _norm(body[m.start():end])
        before = _norm(body[max(0, m.start() - 40):m.start()])
        if before.endswith("ok!("):
            how = "ok!"
        elif re.search(r"if let Err\(\w+\) =$", before):
            how = "iflet"
        elif before.endswith(";") or before.endswith("{") or before.endswith("}") or before.endswith(")"):
            how = "stmt"
        else:
            how = "other"
        res.append((m.start(), f"{how}:{call}"))
    return res


@item("C11_REENTRY_SITES")
def _sites(repo):
    src = _strip(read(repo, VM))
    rows = []
    for name, body in _functions(src):
        # nested fn bodies are reported on their own; only look at sites whose innermost fn is this one
        calls = _depth_calls(body)
        for m in _REENTRY.finditer(body):
            before = ";".join(t for p, t in calls if p < m.start() and "decr_depth" not in t and "pop_frame" not in t)
            after = ";".join(t for p, t in calls if p > m.start() and ("decr_depth" in t or "pop_frame(" in t))
            rows.append((name, m.group(1), before, after))
    if not rows:
        raise KeyError("no re-entry sites of eval_state/do_eval/eval_impl found")
    lean = ("def reentrySites : List (String × String × String × String) := [\n  "
            + ",\n  ".join("(%s, %s, %s, %s)" % tuple(lean_str(x) for x in r) for r in rows) + "]")
    return rows, lean


@item("C11_DEPTH_CHECK")
def _depth_check(repo):
    src = _strip(read(repo, CTX))
    body = fn_body(src, r"fn check_depth\(&self\) -> Result<\(\), Error>\s*\{")
    m = re.search(r"if\s+(.*?)\s*\{\s*return Err\(Error::new\(\s*ErrorKind::(\w+),\s*\"([^\"]*)\"", body, re.S)
    if not m:
        raise KeyError("check_depth condition")
    cond, kind, msg = _norm(m.group(1)), m.group(2), m.group(3)
    depths = re.findall(r"pub fn depth\(&self\) -> usize\s*\{\s*([^}]*?)\s*\}", src)
    if not depths:
        raise KeyError("Context::depth")
    push = _norm(fn_body(src, r"pub fn push_frame\(&mut self, layer: Frame<'env>\) -> Result<\(\), Error>\s*\{"))
    incr = _norm(fn_body(src, r"pub fn incr_depth\(&mut self, delta: usize\) -> Result<\(\), Error>\s*\{"))
    push_ok = bool(re.match(r"self\.stack\.push\(layer\); if let Err\(err\) = self\.check_depth\(\) \{ self\.stack\.pop\(\); return Err\(err\); \} Ok\(\(\)\)$", push))
    incr_ok = bool(re.match(r"self\.outer_stack_depth \+= delta; if let Err\(err\) = self\.check_depth\(\) \{ self\.outer_stack_depth -= delta; return Err\(err\); \} Ok\(\(\)\)$", incr))
    val = {"cond": cond, "kind": kind, "msg": msg, "depth": [_norm(d) for d in depths], "push_frame_checked": push_ok, "incr_depth_checked": incr_ok}
    lean = (f"def depthCheckCond : String := {lean_str(cond)}\n"
            f"def depthCheckError : String × String := ({lean_str(kind)}, {lean_str(msg)})\n"
            "def depthExprs : List String := [" + ", ".join(lean_str(_norm(d)) for d in depths) + "]\n"
            f"def pushFrameChecked : Bool := {'true' if push_ok else 'false'}\n"
            f"def incrDepthChecked : Bool := {'true' if incr_ok else 'false'}")
    return val, lean


@item("C11_LIMIT_CLAMP")
def _clamp(repo):
    src = _strip(read(repo, ENVRS))
    body = _norm(fn_body(src, r"pub fn set_recursion_limit\(&mut self, level: usize\)\s*\{"))
    m = re.search(r"#\[cfg\(not\(feature = \"stacker\"\)\)\] \{ self\.recursion_limit = (.*?); \}", body)
    if not m:
        raise KeyError("set_recursion_limit without stacker")
    expr = m.group(1)
    clamped = expr == "level.min(MAX_RECURSION)"
    defaults = re.findall(r"recursion_limit:\s*([A-Z_0-9]+),", src)
    if not defaults:
        raise KeyError("default recursion_limit")
    default_is_max = all(d == "MAX_RECURSION" for d in defaults)
    lean = (f"def recursionLimitExpr : String := {lean_str(expr)}\n"
            f"def recursionLimitClampedToMax : Bool := {'true' if clamped else 'false'}\n"
            f"def recursionLimitDefaultIsMax : Bool := {'true' if default_is_max else 'false'}")
    return {"expr": expr, "clamped": clamped, "defaults": defaults}, lean


_EXIT = re.compile(r"\breturn\b|\bok!\(|\bbreak\b|\bcontinue\b|\?\s*;")


def _brace_depth(body, pos):
    d = 0
    for ch in body[:pos]:
        if ch == "{":
            d += 1
        elif ch == "}":
            d -= 1
    return d


@item("C11_INCLUDE_EXITS")
def _include_exits(repo):
    """exit paths of `perform_include` relative to the depth charge: every `return`/`ok!`/`?`/
    `break`/`continue` before the charge is taken, while it is held, and after it was released;
    and the block nesting of the charge and of its release (a release moved out of the candidate
    loop, or an exit while the charge is held, changes this table)"""
    src = _strip(read(repo, VM))
    body = None
    for name, b in _functions(src):
        if name == "perform_include":
            body = b
    if body is None:
        raise KeyError("fn perform_include")
    incr = [m for m in re.finditer(r"\.incr_depth\(", body)]
    decr = [m for m in re.finditer(r"\.decr_depth\(", body)]
    if len(incr) != 1 or len(decr) != 1:
        raise KeyError(f"perform_include: {len(incr)} incr_depth / {len(decr)} decr_depth calls (expected 1/1)")
    i0, i1 = incr[0].start(), _balanced(body, incr[0].end() - 1)
    d0, d1 = decr[0].start(), _balanced(body, decr[0].end() - 1)
    rows = []
    for m in _EXIT.finditer(body):
        p = m.start()
        tok = "?" if m.group(0).startswith("?") else m.group(0).rstrip("(")
        if p < i0 and body[p:i0].strip().startswith("ok!(") and "ok!(" == m.group(0) and not _EXIT.search(body, m.end(), i0):
            region = "charge"      # the `ok!(` wrapping the incr_depth call itself
        elif p < i0:
            region = "before"
        elif p < d0:
            region = "held"
        else:
            region = "released"
        rows.append((region, tok))
    scope = (_brace_depth(body, i0), _brace_depth(body, d0))
    args = (_norm(body[incr[0].end():i1 - 1]), _norm(body[decr[0].end():d1 - 1]))
    lean = ("def includeExits : List (String × String) := ["
            + ", ".join(f"({lean_str(a)}, {lean_str(b)})" for a, b in rows) + "]\n"
            + f"def includeChargeScope : Nat × Nat := ({scope[0]}, {scope[1]})\n"
            + f"def includeChargeArgs : String × String := ({lean_str(args[0])}, {lean_str(args[1])})")
    return {"exits": rows, "scope": scope, "args": args}, lean


@item("C11_DECR_DEPTH")
def _decr(repo):
    src = _strip(read(repo, CTX))
    body = _norm(fn_body(src, r"pub fn decr_depth\(&mut self, delta: usize\)\s*\{"))
    return body, f"def decrDepthBody : String := {lean_str(body)}"


_CTX_CALL = re.compile(r"\b(Context::new_with_frame|Context::new|State::new_for_env|State::new|vm::eval|crate::vm::eval|Executor::eval)\(|\.(incr_depth|with_execution_state|reset_with_frame)\(|\bContext\s*\{")


@item("C11_CONTEXT_SITES")
def _context_sites(repo):
    """every place in the crate that creates a `Context`/`State`, starts a top-level evaluation,
    raises the depth or switches the execution state: (file, function, call), in source order"""
    import glob, os
    base = os.path.join(repo, "minijinja", "src")
    rows = []
    for path in sorted(glob.glob(os.path.join(base, "**", "*.rs"), recursive=True)):
        rel = os.path.relpath(path, base)
        if rel == "verif_hooks.rs":
            continue
        src = _strip(open(path, encoding="utf-8").read())
        src = re.sub(r"#\[cfg\(feature = \"verif_hooks\"\)\]\s*(?:pub(?:\([a-z]+\))? )?fn \w+[^{]*\{[^}]*\}", "", src)
        if not _CTX_CALL.search(src):
            continue
        fns = _functions(src)
        # innermost function wins: drop matches that lie in a nested fn reported separately
        for name, body in fns:
            for m in _CTX_CALL.finditer(body):
                call = m.group(1) or m.group(2) or "Context{}"
                if call == "Context{}" and name != "new":
                    continue
                rows.append((rel, name, call.replace("crate::vm::eval", "vm::eval")))
    # a function nested in another (impl blocks are not functions) would be listed twice
    seen, out = set(), []
    for r in rows:
        out.append(r)
    if not out:
        raise KeyError("no context sites")
    lean = ("def contextSites : List (String × String × String) := [\n  "
            + ",\n  ".join("(%s, %s, %s)" % tuple(lean_str(x) for x in r) for r in out) + "]")
    return out, lean


@item("C11_LIMIT_SOURCE")
def _limit_source(repo):
    """where a `Context` takes its limit from, and the parser's own guard"""
    src = _strip(read(repo, CTX))
    m = re.search(r"recursion_limit:\s*([^,]+),", fn_body(src, r"pub fn new\(env: &'env Environment<'env>\) -> Context<'env>\s*\{"))
    if not m:
        raise KeyError("Context::new recursion_limit")
    psrc = _strip(read(repo, "minijinja/src/compiler/parser.rs"))
    g = re.search(r"\$parser\.depth \+= 1;\s*if (\$parser\.depth > MAX_RECURSION)", psrc)
    if not g:
        raise KeyError("parser recursion guard")
    lean = (f"def contextLimitSource : String := {lean_str(_norm(m.group(1)))}\n"
            f"def parserGuardCond : String := {lean_str(g.group(1))}")
    return {"limit": _norm(m.group(1)), "parser_guard": g.group(1)}, lean


@item("C11_CONTEXT_HELPERS")
def _context_helpers(repo):
    """the helpers that put frames into a (fresh or pooled) context: their whole bodies — a macro
    context always has its base frame and the closure frame, whatever the base value is"""
    src = _strip(read(repo, CTX))
    rows = [
        ("reset_with_frame", _norm(fn_body(src, r"pub fn reset_with_frame\(&mut self, frame: Frame<'env>\)\s*\{"))),
        ("clear", _norm(fn_body(src, r"pub fn clear\(&mut self\)\s*\{"))),
        ("new_with_frame", _norm(fn_body(src, r"pub fn new_with_frame\(env: &'env Environment<'env>, frame: Frame<'env>\) -> Context<'env>\s*\{"))),
        ("pop_frame", _norm(fn_body(src, r"pub fn pop_frame\(&mut self\) -> Frame<'env>\s*\{"))),
    ]
    lean = ("def contextHelpers : List (String × String) := [\n  "
            + ",\n  ".join(f"({lean_str(a)}, {lean_str(b)})" for a, b in rows) + "]")
    return rows, lean


# ------------------------------------------------------------------------------------------------
# the re-entry graph of the whole crate: every function from which the interpreter loop can be
# reached by static calls, with the depth bookkeeping it performs (C11_CHARGES), and the
# frame-size relevant declarations of `eval_impl` (C11_FRAME)

def _skip_balanced(src, i, open_ch, close_ch):
    depth = 0
    while i < len(src):
        if src[i] == open_ch:
            depth += 1
        elif src[i] == close_ch:
            depth -= 1
            if depth == 0:
                return i + 1
        i += 1
    return len(src)


def _strip_hooks(src):
    """remove comments and every item / statement / block under `#[cfg(feature = "verif_hooks")]`
    (brace aware: hook functions contain closures)"""
    src = re.sub(r"//[^\n]*", "", src)
    out, i = [], 0
    pat = re.compile(r"#\[cfg\((?:all\(\s*)?feature = \"verif_hooks\"[^\]]*\)\]\s*")
    while True:
        m = pat.search(src, i)
        if not m:
            out.append(src[i:])
            break
        out.append(src[i:m.start()])
        j = m.end()
        # further attributes
        while src.startswith("#[", j):
            j = _skip_balanced(src, j + 1, "[", "]")
            while j < len(src) and src[j].isspace():
                j += 1
        if src.startswith("{", j):
            j = _skip_balanced(src, j, "{", "}")
        else:
            # up to the first `;` or the end of the first brace block at nesting depth 0
            depth = 0
            while j < len(src):
                c = src[j]
                if c in "([{":
                    depth += 1
                elif c in ")]}":
                    depth -= 1
                    if depth == 0 and c == "}":
                        j += 1
                        break
                    if depth < 0:
                        break      # a hook expression that is the tail of a block
                elif c == ";" and depth == 0:
                    j += 1
                    break
                elif c == "," and depth == 0:
                    j += 1       # a struct field / argument under the attribute
                    break
                j += 1
        i = j
    return "".join(out)


def _qualified_functions(src):
    """(owner, name, attrs, body) of every `fn` with a body; owner = the type of the enclosing
    `impl` block (`impl<..> Trait for Type<..>` -> `Type`), '' for free functions"""
    # positions of impl blocks
    impls = []
    for m in re.finditer(r"\bimpl\b(?:\s*<[^{;]*?>)?\s+([^{;]+?)\s*\{", src):
        head = m.group(1)
        ty = head.split(" for ")[-1].strip()
        ty = re.sub(r"<.*", "", ty).strip()
        ty = ty.split("::")[-1]
        start = m.end() - 1
        depth, j = 0, start
        while j < len(src):
            if src[j] == "{":
                depth += 1
            elif src[j] == "}":
                depth -= 1
                if depth == 0:
                    break
            j += 1
        impls.append((start, j, ty))
    out = []
    for m in re.finditer(r"\bfn\s+(\w+)\s*", src):
        p = m.end()
        if src.startswith("<", p):
            # generic parameters, nested (`<V: Into<Value>>`)
            d = 0
            while p < len(src):
                if src[p] == "<":
                    d += 1
                elif src[p] == ">" and src[p - 1] != "-":
                    d -= 1
                    if d == 0:
                        p += 1
                        break
                p += 1
            while p < len(src) and src[p].isspace():
                p += 1
        if not src.startswith("(", p):
            continue
        close = _balanced(src, p)
        k = src.find("{", close)
        semi = src.find(";", close)
        if k < 0 or (0 <= semi < k):
            continue
        j = _skip_balanced(src, k, "{", "}") - 1
        owner = ""
        for a, b, ty in impls:
            if a < m.start() < b:
                owner = ty      # innermost wins: impls are not nested, the last match is fine
        # attributes directly above the fn (back to the previous `}` or `;` or `{`)
        pre = src[max(0, m.start() - 400):m.start()]
        cut = max(pre.rfind("}"), pre.rfind(";"), pre.rfind("{"))
        attrs = re.findall(r"#\[(inline[^\]]*)\]", pre[cut + 1:])
        out.append((owner, m.group(1), attrs, src[k + 1:j], m.start()))
    return out


# names that are too generic to follow through a method call without a type (`x.call(`, `x.eval(`)
_GENERIC = {"call", "eval", "new", "render", "get", "next", "fmt", "from", "clone", "drop", "call_method"}


def _crate_functions(repo):
    import glob, os
    base = os.path.join(repo, "minijinja", "src")
    fns = []
    for path in sorted(glob.glob(os.path.join(base, "**", "*.rs"), recursive=True)):
        rel = os.path.relpath(path, base)
        if rel == "verif_hooks.rs":
            continue
        src = _strip_hooks(open(path, encoding="utf-8").read())
        # doc tests and examples inside doc comments are gone with `_strip`; test modules are not
        # part of the library
        src = re.sub(r"#\[cfg\(test\)\]\s*mod \w+\s*\{.*\Z", "", src, flags=re.S)
        for owner, name, attrs, body, pos in _qualified_functions(src):
            fns.append({"file": rel, "owner": owner, "name": name, "attrs": attrs, "body": body})
    return fns


def _calls_in(body, targets, cur_owner=None):
    """calls in `body` to one of `targets` = {(owner, name)}: `Self::n(`, `Type::n(`, `vm::n(`,
    `crate::vm::n(`, `.n(` (method, not for generic names), `n(` (free function)"""
    found = []
    for m in re.finditer(r"(?:(\w+)::)?(\.)?\b(\w+)\s*(?:::<[^>()]*>)?\(", body):
        qual, dot, name = m.group(1), m.group(2), m.group(3)
        # `a::b::name(`: take the last path segment before the name
        pre = body[max(0, m.start() - 1):m.start()]
        if pre == ":" and not qual:
            continue
        for (o, n) in sorted(targets):     # deterministic order (a set of tuples iterates by string hash)
            if n != name:
                continue
            if qual in ("Self",):
                if cur_owner is None or o == cur_owner:
                    found.append((m.start(), (o, n), "Self"))
            elif qual in ("vm",) and o == "":
                found.append((m.start(), (o, n), "vm"))
            elif qual and qual == o:
                found.append((m.start(), (o, n), qual))
            elif dot and name not in _GENERIC:
                found.append((m.start(), (o, n), "."))
            elif not qual and not dot and o == "" and name not in _GENERIC:
                found.append((m.start(), (o, n), ""))
    return found


_CTX_MUT = None


def _ctx_mutators(repo):
    """the names of all `&mut self` methods of `Context` (whatever is added later is included)"""
    src = _strip_hooks(read(repo, CTX))
    names = []
    for owner, name, attrs, body, pos in _qualified_functions(src):
        if owner != "Context":
            continue
        head = src[pos:pos + 200]
        if re.search(r"fn\s+%s\s*(?:<[^>]*>)?\s*\(\s*&mut self" % name, head):
            names.append(name)
    return sorted(set(names))


# mutators that do not touch the depth (they change what a frame holds, not how many there are)
_DEPTH_NEUTRAL_MUT = {"store", "reset_closure", "take_closure", "current_locals_mut", "next_loop_item"}


def _ctx_ops(body, mutators):
    ops = []
    for m in re.finditer(r"\b(?:ctx|macro_ctx|old_ctx)\s*\.\s*(\w+)\(", body):
        if m.group(1) in mutators and m.group(1) not in _DEPTH_NEUTRAL_MUT:
            ops.append(m.group(1))
    if re.search(r"mem::replace\(\s*&mut\s+(?:self|state)\.ctx", body):
        ops.append("replace-ctx")
    if re.search(r"\b(?:self|state)\.ctx\s*=[^=]", body):
        ops.append("assign-ctx")
    if re.search(r"mem::(?:take|swap)\(\s*&mut\s+(?:self|state)\.ctx", body):
        ops.append("take-ctx")
    return ops


@item("C11_CHARGES")
def _charges(repo):
    """every function of the crate from which `eval_impl` is reachable by static calls (fixpoint
    from `Executor::eval_impl`; method calls by name, except for generic names, which need a type):
    (file, owner, fn, reached callees, depth operations of its body).  The dynamic boundary
    (`Object::call` implementations: only `Macro::call` re-enters) is listed with owner `Macro`."""
    fns = _crate_functions(repo)
    mut = _ctx_mutators(repo)
    reach = {("Executor", "eval_impl")}
    rows = {}
    changed = True
    while changed:
        changed = False
        for f in fns:
            key = (f["file"], f["owner"], f["name"])
            calls = _calls_in(f["body"], reach, f["owner"])
            # a function does not "reach" through a call to itself only
            callees = []
            for pos, t, how in calls:
                if t == (f["owner"], f["name"]) and f["name"] != "eval_impl":
                    continue
                callees.append(t)
            if not callees:
                continue
            names = []
            for o, n in callees:
                q = f"{o}::{n}" if o else n
                if q not in names:
                    names.append(q)
            row = (f["file"], f["owner"], f["name"], ",".join(names), ",".join(_ctx_ops(f["body"], mut)))
            if rows.get(key) != row:
                rows[key] = row
                changed = True
            if (f["owner"], f["name"]) not in reach:
                reach.add((f["owner"], f["name"]))
                changed = True
    out = [rows[k] for k in sorted(rows)]
    if not any(r[2] == "eval_macro" for r in out) or not any(r[2] == "perform_include" for r in out):
        raise KeyError("re-entry graph: eval_macro / perform_include not reached")
    # the cost each charged function adds to the caller's depth, from the source expressions
    src = _strip_hooks(read(repo, VM))
    vmfns = {name: body for name, body in _functions(src)}

    def cval(name):
        m = re.search(r"const\s+%s\s*:\s*usize\s*=\s*([0-9_]+)\s*;" % name, src)
        if not m:
            raise KeyError(f"const {name}")
        return int(m.group(1).replace("_", ""))

    def charge_of(fn):
        body = vmfns[fn]
        frames = len(re.findall(r"\.push_frame\(", body)) + len(re.findall(r"\.reset_with_frame\(", body))
        add, inherits = 0, False
        for m in re.finditer(r"\.incr_depth\(", body):
            arg = _norm(body[m.end():_balanced(body, m.end() - 1) - 1])
            mm = re.fullmatch(r"state\.ctx\.depth\(\) \+ ([A-Z_]+)", arg)
            if mm:
                inherits = True
                add += cval(mm.group(1))
            elif re.fullmatch(r"[A-Z_]+", arg):
                add += cval(arg)
            else:
                raise KeyError(f"{fn}: incr_depth argument not understood: {arg}")
        return frames + add, inherits
    costs = []
    for fn in ("eval_macro", "perform_include", "perform_super", "call_block"):
        if fn not in vmfns:
            raise KeyError(f"fn {fn}")
        c, inh = charge_of(fn)
        costs.append((fn, c, inh))
    # the dynamic boundary: every function that hands the `State` to a callback (filter, test,
    # function, object or method call); what the callback does with it is outside this crate, the
    # function around the call must leave the depth alone
    cb = []
    for f in fns:
        n = len(re.findall(r"\.call(?:_method)?\(\s*(?:self|state|_state)\b", f["body"]))
        if n:
            cb.append((f["file"], f["owner"], f["name"], n, ",".join(_ctx_ops(f["body"], mut))))
    cb.sort()
    lean_cb = ("def callbackSites : List (String × String × String × Nat × String) := [\n  "
               + ",\n  ".join("(%s, %s, %s, %d, %s)" % (lean_str(a), lean_str(b), lean_str(c), d, lean_str(e)) for a, b, c, d, e in cb) + "]\n")
    # every function of the crate that adjusts the depth of a context it does not own the
    # implementation of (receiver `…ctx.`), with the operations in source order
    ops = []
    for f in fns:
        o = _ctx_ops(f["body"], mut)
        if o:
            ops.append((f["file"], f["owner"], f["name"], ",".join(o)))
    ops.sort()
    lean_cb += ("def depthOpSites : List (String × String × String × String) := [\n  "
                + ",\n  ".join("(%s, %s, %s, %s)" % tuple(lean_str(x) for x in r) for r in ops) + "]\n")
    lean = (lean_cb + "def reentryGraph : List (String × String × String × List String × String) := [\n  "
            + ",\n  ".join("(%s, %s, %s, [%s], %s)" % (lean_str(r[0]), lean_str(r[1]), lean_str(r[2]),
                                                      ", ".join(lean_str(x) for x in r[3].split(",")), lean_str(r[4])) for r in out) + "]\n"
            + "def reentryChargeCosts : List (String × Nat × Bool) := ["
            + ", ".join(f"({lean_str(a)}, {b}, {'true' if c else 'false'})" for a, b, c in costs) + "]\n"
            + "def contextMutators : List String := [" + ", ".join(lean_str(x) for x in mut) + "]")
    return {"graph": out, "costs": costs, "mutators": mut, "callbacks": cb, "depth_ops": ops}, lean


@item("C11_FRAME")
def _frame(repo):
    """what sits in `eval_impl`'s native frame: its parameters, the locals declared before the
    interpreter loop, the fixed-size arrays among them with their lengths (resolved constants),
    the macros that expand into it, and the inline attributes of the functions of vm/mod.rs"""
    src = _strip_hooks(read(repo, VM))
    m = re.search(r"fn eval_impl\s*\(", src)
    if not m:
        raise KeyError("fn eval_impl")
    close = _balanced(src, m.end() - 1)
    params = [_norm(p) for p in src[m.end():close - 1].split(",") if _norm(p)]
    body = None
    for name, b in _functions(src):
        if name == "eval_impl":
            body = b
    k = re.search(r"\n\s*loop\s*\{", body)
    if not k:
        raise KeyError("eval_impl: interpreter loop")
    head = body[:k.start()]
    # drop macro_rules definitions (their bodies are not declarations of the frame)
    head_nom = re.sub(r"macro_rules!\s*\w+\s*\{.*?\n        \}\n", "", head, flags=re.S)
    locals_ = re.findall(r"\blet\s+(?:mut\s+)?(\(?[\w, ]+\)?)\s*(?::[^=;]+)?=", head_nom)
    locals_ = [_norm(x) for x in locals_]
    arrays = []
    inst = read(repo, "minijinja/src/compiler/instructions.rs")
    for a in re.finditer(r"\blet\s+(?:mut\s+)?(\w+)\s*(?::\s*[^=;]+)?=\s*\[\s*([^;\]]+?)\s*;\s*(\w+)\s*\]\s*;", head_nom):
        name, init, ln = a.group(1), _norm(a.group(2)), a.group(3)
        if ln.isdigit():
            n = int(ln)
        else:
            mm = re.search(r"const\s+%s\s*:\s*usize\s*=\s*([^;]+);" % ln, inst) or re.search(r"const\s+%s\s*:\s*usize\s*=\s*([^;]+);" % ln, src)
            if not mm:
                raise KeyError(f"array length constant {ln}")
            v = mm.group(1).strip().replace("_", "")
            if v.isdigit():
                n = int(v)
            elif re.fullmatch(r"LocalId::MAX as usize", v):
                n = 255
            else:
                raise KeyError(f"array length constant {ln} = {v} not understood")
        arrays.append((name, init, n))
    # every element kind used so far is pointer sized (Option<&Value>, usize)
    array_bytes = sum(n * 8 for _, _, n in arrays)
    attrs = []
    for owner, name, at, b, pos in _qualified_functions(src):
        for x in at:
            attrs.append((name, x))
    lean = ("def evalImplParams : List String := [" + ", ".join(lean_str(p) for p in params) + "]\n"
            + "def evalImplLocals : List String := [" + ", ".join(lean_str(p) for p in locals_) + "]\n"
            + "def evalImplArrays : List (String × String × Nat) := ["
            + ", ".join(f"({lean_str(a)}, {lean_str(b)}, {c})" for a, b, c in arrays) + "]\n"
            + f"def evalImplArrayBytes : Nat := {array_bytes}\n"
            + "def vmInlineAttrs : List (String × String) := ["
            + ", ".join(f"({lean_str(a)}, {lean_str(b)})" for a, b in attrs) + "]")
    return {"params": params, "locals": locals_, "arrays": arrays, "array_bytes": array_bytes, "inline": attrs}, lean


@item("C11_ENV_LIMITS")
def _env_limits(repo):
    """the recursion limit every constructor of `Environment` starts with"""
    src = _strip_hooks(read(repo, ENVRS))
    rows = []
    for owner, name, at, body, pos in _qualified_functions(src):
        if owner != "Environment":
            continue
        m = re.search(r"\brecursion_limit:\s*([^,}]+),", body)
        if m:
            rows.append((name, _norm(m.group(1))))
    if not rows:
        raise KeyError("Environment constructors")
    lean = ("def envLimitDefaults : List (String × String) := ["
            + ", ".join(f"({lean_str(a)}, {lean_str(b)})" for a, b in rows) + "]")
    return rows, lean


# ------------------------------------------------------------------------------------------------
# the ARGUMENTS of every depth charge of the crate (session 4): what each `push_frame` /
# `incr_depth` / `decr_depth` call outside `Context` itself is given, term by term, and the
# conditions (`if` / `match` / `while` headers, match arms) that enclose the call inside its
# function.  `edge_cost_state_independent` needs: every term a constant, a frame or the caller's
# depth; no enclosing condition that reads the output, auto-escape, undefined mode or fuel.

_CHARGE_CALL = re.compile(r"((?:\w+\s*\.\s*)*\w+)\s*\.\s*(push_frame|incr_depth|decr_depth)\(")
_COND_HEAD = re.compile(r"^(?:\}?\s*else\s+)?(if|match|while)\b")


def _split_plus(arg):
    parts, depth, cur = [], 0, ""
    for ch in arg:
        if ch in "([{":
            depth += 1
        elif ch in ")]}":
            depth -= 1
        if ch == "+" and depth == 0:
            parts.append(cur)
            cur = ""
        else:
            cur += ch
    parts.append(cur)
    return [_norm(p) for p in parts if _norm(p)]


def _enclosing_conditions(body, pos):
    """headers of the brace blocks that are open at `pos` and are conditions: `if …`, `else`,
    `match …`, `while …` and match arms (`pat =>`); loops (`for`, `loop`), closures and plain blocks
    do not decide WHETHER the call runs for a given entry, they are listed with a `loop:` /
    `closure:` prefix only so that moving the call in or out of them changes the table"""
    stack = []
    last = 0
    i = 0
    while i < pos:
        c = body[i]
        if c == "{":
            head = _norm(re.sub(r"#\[[^\]]*\]", "", body[last:i]))
            stack.append(head)
            last = i + 1
        elif c == "}":
            if stack:
                stack.pop()
            last = i + 1
        elif c == ";":
            last = i + 1
        i += 1
    out = []
    for h in stack:
        # a statement prefix such as `let rv = state.with_execution_state(…, |state|` belongs to a closure
        if _COND_HEAD.match(h) or h == "else":
            out.append(h)
        elif h.endswith("=>"):
            out.append("arm:" + h[:-2].strip())
        elif re.match(r"^(for|loop)\b", h):
            out.append("loop:" + h)
        elif re.search(r"\|[\w\s,&:']*\|$", h):
            out.append("closure")
        elif h:
            out.append("block:" + h[-60:])
    return out


@item("C11_COST_ARGS")
def _cost_args(repo):
    fns = _crate_functions(repo)
    vm = _strip_hooks(read(repo, VM))
    rows = []
    for f in fns:
        if f["file"] == "vm/context.rs":
            continue
        body = f["body"]
        for m in _CHARGE_CALL.finditer(body):
            recv, op = _norm(m.group(1)).replace(" ", ""), m.group(2)
            if not re.search(r"(?:^|\.)(?:ctx|macro_ctx|old_ctx)$", recv):
                continue
            end = _balanced(body, m.end() - 1)
            arg = body[m.end():end - 1]
            terms = []
            if op == "push_frame":
                # a frame is one unit whatever it holds
                terms.append(("frame", "1", 1))
            else:
                for t in _split_plus(arg):
                    if re.fullmatch(r"[A-Z][A-Z0-9_]*", t):
                        mm = re.search(r"const\s+%s\s*:\s*usize\s*=\s*([0-9_]+)\s*;" % t, vm)
                        if mm:
                            terms.append(("const", t, int(mm.group(1).replace("_", ""))))
                        else:
                            terms.append(("opaque", t, 0))
                    elif re.fullmatch(r"[0-9_]+", t):
                        terms.append(("const", t, int(t.replace("_", ""))))
                    elif t == "state.ctx.depth()":
                        terms.append(("caller-depth", t, 0))
                    else:
                        terms.append(("opaque", t, 0))
            conds = _enclosing_conditions(body, m.start())
            toks = []
            for h in conds:
                if h.startswith(("loop:", "closure", "block:")):
                    continue
                for tok in re.findall(r"[A-Za-z_]\w*", h):
                    if tok not in toks and tok not in ("if", "let", "match", "while", "else", "arm", "Some", "None", "Ok", "Err", "mut", "ref"):
                        toks.append(tok)
            rows.append((f["file"], f["owner"], f["name"], op, terms, conds, toks))
    if not any(r[3] == "incr_depth" for r in rows) or not any(r[3] == "push_frame" for r in rows):
        raise KeyError("no depth charges found")

    def lt(t):
        return "(%s, %s, %d)" % (lean_str(t[0]), lean_str(t[1]), t[2])

    def ls(xs):
        return "[" + ", ".join(lean_str(x) for x in xs) + "]"
    lean = ("def costSites : List (String × String × String × String × List (String × String × Nat) × List String × List String) := [\n  "
            + ",\n  ".join("(%s, %s, %s, %s, [%s], %s, %s)" % (lean_str(r[0]), lean_str(r[1]), lean_str(r[2]), lean_str(r[3]),
                                                            ", ".join(lt(t) for t in r[4]), ls(r[5]), ls(r[6])) for r in rows) + "]")
    return [list(r) for r in rows], lean


@item("C11_STACKER")
def _stacker(repo):
    """the `stacker` configuration: the limit expression of `set_recursion_limit` with the feature,
    and the arguments of `stacker::maybe_grow` around the interpreter loop (red zone, segment size)"""
    src = _strip(read(repo, ENVRS))
    body = _norm(fn_body(src, r"pub fn set_recursion_limit\(&mut self, level: usize\)\s*\{"))
    m = re.search(r"#\[cfg\(feature = \"stacker\"\)\] \{ self\.recursion_limit = (.*?); \}", body)
    if not m:
        raise KeyError("set_recursion_limit with stacker")
    vm = _strip(read(repo, VM))
    g = re.search(r"#\[cfg\(feature = \"stacker\"\)\]\s*\{\s*stacker::maybe_grow\(\s*([^,]+),\s*([^,]+),\s*\|\|\s*\{\s*Self::(\w+)\(", vm)
    if not g:
        raise KeyError("stacker::maybe_grow around the interpreter loop")

    def val(e):
        e = _norm(e)
        if not re.fullmatch(r"[0-9_ *]+", e):
            raise KeyError(f"stacker argument not a constant product: {e}")
        n = 1
        for p in e.split("*"):
            n *= int(p.strip().replace("_", ""))
        return n
    red, seg, callee = val(g.group(1)), val(g.group(2)), g.group(3)
    n_grow = len(re.findall(r"stacker::maybe_grow\(", vm))
    lean = (f"def stackerLimitExpr : String := {lean_str(m.group(1))}\n"
            f"def stackerRedZone : Nat := {red}\n"
            f"def stackerSegment : Nat := {seg}\n"
            f"def stackerGrowCallee : String := {lean_str(callee)}\n"
            f"def stackerGrowSites : Nat := {n_grow}")
    return {"limit_expr": m.group(1), "red_zone": red, "segment": seg, "callee": callee, "sites": n_grow}, lean


@item("C11_BUILTINS")
def _builtins(repo):
    """the names of the builtin filters, tests and functions (`defaults.rs`): what the leaf
    measurement of the stack budget applies to a probing object"""
    src = _strip_hooks(read(repo, "minijinja/src/defaults.rs"))
    rows = []
    for kind, fn in (("filter", "build_builtin_filters"), ("test", "build_builtin_tests"), ("function", "build_globals")):
        m = re.search(r"fn %s\(\)[^{]*\{" % fn, src)
        if not m:
            raise KeyError(f"defaults.rs: fn {fn}")
        body = src[m.end():_skip_balanced(src, m.end() - 1, "{", "}")]
        names = re.findall(r"rv\.insert\(\s*\"(\w+)\"\.into\(\)", body)
        names += re.findall(r"rv\.insert\(\s*Cow::Borrowed\(\"(\w+)\"\)", body)
        if not names:
            raise KeyError(f"defaults.rs: no names in {fn}")
        for n in names:
            if (kind, n) not in rows:
                rows.append((kind, n))
    lean = ("def builtinNames : List (String × String) := ["
            + ", ".join(f"({lean_str(a)}, {lean_str(b)})" for a, b in rows) + "]")
    return [list(r) for r in rows], lean
