"""C11 table items: where the interpreter loop is re-entered natively and which depth bookkeeping
surrounds each re-entry (vm/mod.rs), the depth check itself (vm/context.rs) and the clamp of
`set_recursion_limit` (environment.rs).  Anchored regular expressions; an item that no longer
matches is reported missing and `MJ.Props.C11` stops building (= broken tie)."""
import re
from extract_tables import item, read, fn_body, lean_str

VM = "minijinja/src/vm/mod.rs"
CTX = "minijinja/src/vm/context.rs"
ENVRS = "minijinja/src/environment.rs"


def _strip(src):
    src = re.sub(r"//[^\n]*", "", src)
    # hook statements (feature verif_hooks) are not part of the logic
    src = re.sub(r"#\[cfg\(feature = \"verif_hooks\"\)\]\s*[^;]*;", "", src)
    return src


def _norm(s):
    return re.sub(r"\s+", " ", s).strip()


def _balanced(src, i):
    """src[i] == '(' -> index just after the matching ')'"""
    depth = 0
    j = i
    while j < len(src):
        if src[j] == "(":
            depth += 1
        elif src[j] == ")":
            depth -= 1
            if depth == 0:
                return j + 1
        j += 1
    raise KeyError("unbalanced parentheses")


def _functions(src):
    """(name, body_text) of every `fn` in the file, in order"""
    out = []
    for m in re.finditer(r"\bfn\s+(\w+)\s*(?:<[^>{}()]*>)?\s*\(", src):
        # body = first brace block after the parameter list
        close = _balanced(src, m.end() - 1)
        k = src.find("{", close)
        semi = src.find(";", close)
        if k < 0 or (0 <= semi < k):
            continue  # declaration without a body
        depth, j = 0, k
        while j < len(src):
            if src[j] == "{":
                depth += 1
            elif src[j] == "}":
                depth -= 1
                if depth == 0:
                    break
            j += 1
        out.append((m.group(1), src[k + 1:j]))
    return out


_DEPTH_CALL = re.compile(r"((?:\w+\.)*\w+)\.(push_frame|incr_depth|decr_depth|pop_frame)\(")
_REENTRY = re.compile(r"\bSelf::(eval_state|do_eval|eval_impl)\(")


def _depth_calls(body):
    """[(pos, text)] of the depth bookkeeping calls in a function body; the text says how the
    result is consumed (`ok!`, `if let Err`, plain statement)"""
    res = []
    for m in _DEPTH_CALL.finditer(body):
        end = _balanced(body, m.end() - 1)
        call = _norm(body[m.start():end])
        before = _norm(body[max(0, m.start() - 40):m.start()])
        if before.endswith("ok!("):
            how = "ok!"
        elif re.search(r"if let Err\(\w+\) =$", before):
            how = "iflet"
        elif before.endswith(";") or before.endswith("{") or before.endswith("}") or before.endswith(")"):
            how = "stmt"
        else:
            how = "other"
        res.append((m.start(), f"{how}:{call}"))
    return res


@item("C11_REENTRY_SITES")
def _sites(repo):
    src = _strip(read(repo, VM))
    rows = []
    for name, body in _functions(src):
        # nested fn bodies are reported on their own; only look at sites whose innermost fn is this one
        calls = _depth_calls(body)
        for m in _REENTRY.finditer(body):
            before = ";".join(t for p, t in calls if p < m.start() and "decr_depth" not in t and "pop_frame" not in t)
            after = ";".join(t for p, t in calls if p > m.start() and ("decr_depth" in t or "pop_frame(" in t))
            rows.append((name, m.group(1), before, after))
    if not rows:
        raise KeyError("no re-entry sites of eval_state/do_eval/eval_impl found")
    lean = ("def reentrySites : List (String × String × String × String) := [\n  "
            + ",\n  ".join("(%s, %s, %s, %s)" % tuple(lean_str(x) for x in r) for r in rows) + "]")
    return rows, lean


@item("C11_DEPTH_CHECK")
def _depth_check(repo):
    src = _strip(read(repo, CTX))
    body = fn_body(src, r"fn check_depth\(&self\) -> Result<\(\), Error>\s*\{")
    m = re.search(r"if\s+(.*?)\s*\{\s*return Err\(Error::new\(\s*ErrorKind::(\w+),\s*\"([^\"]*)\"", body, re.S)
    if not m:
        raise KeyError("check_depth condition")
    cond, kind, msg = _norm(m.group(1)), m.group(2), m.group(3)
    depths = re.findall(r"pub fn depth\(&self\) -> usize\s*\{\s*([^}]*?)\s*\}", src)
    if not depths:
        raise KeyError("Context::depth")
    push = _norm(fn_body(src, r"pub fn push_frame\(&mut self, layer: Frame<'env>\) -> Result<\(\), Error>\s*\{"))
    incr = _norm(fn_body(src, r"pub fn incr_depth\(&mut self, delta: usize\) -> Result<\(\), Error>\s*\{"))
    push_ok = bool(re.match(r"self\.stack\.push\(layer\); if let Err\(err\) = self\.check_depth\(\) \{ self\.stack\.pop\(\); return Err\(err\); \} Ok\(\(\)\)$", push))
    incr_ok = bool(re.match(r"self\.outer_stack_depth \+= delta; if let Err\(err\) = self\.check_depth\(\) \{ self\.outer_stack_depth -= delta; return Err\(err\); \} Ok\(\(\)\)$", incr))
    val = {"cond": cond, "kind": kind, "msg": msg, "depth": [_norm(d) for d in depths], "push_frame_checked": push_ok, "incr_depth_checked": incr_ok}
    lean = (f"def depthCheckCond : String := {lean_str(cond)}\n"
            f"def depthCheckError : String × String := ({lean_str(kind)}, {lean_str(msg)})\n"
            "def depthExprs : List String := [" + ", ".join(lean_str(_norm(d)) for d in depths) + "]\n"
            f"def pushFrameChecked : Bool := {'true' if push_ok else 'false'}\n"
            f"def incrDepthChecked : Bool := {'true' if incr_ok else 'false'}")
    return val, lean


@item("C11_LIMIT_CLAMP")
def _clamp(repo):
    src = _strip(read(repo, ENVRS))
    body = _norm(fn_body(src, r"pub fn set_recursion_limit\(&mut self, level: usize\)\s*\{"))
    m = re.search(r"#\[cfg\(not\(feature = \"stacker\"\)\)\] \{ self\.recursion_limit = (.*?); \}", body)
    if not m:
        raise KeyError("set_recursion_limit without stacker")
    expr = m.group(1)
    clamped = expr == "level.min(MAX_RECURSION)"
    defaults = re.findall(r"recursion_limit:\s*([A-Z_0-9]+),", src)
    if not defaults:
        raise KeyError("default recursion_limit")
    default_is_max = all(d == "MAX_RECURSION" for d in defaults)
    lean = (f"def recursionLimitExpr : String := {lean_str(expr)}\n"
            f"def recursionLimitClampedToMax : Bool := {'true' if clamped else 'false'}\n"
            f"def recursionLimitDefaultIsMax : Bool := {'true' if default_is_max else 'false'}")
    return {"expr": expr, "clamped": clamped, "defaults": defaults}, lean


_EXIT = re.compile(r"\breturn\b|\bok!\(|\bbreak\b|\bcontinue\b|\?\s*;")


def _brace_depth(body, pos):
    d = 0
    for ch in body[:pos]:
        if ch == "{":
            d += 1
        elif ch == "}":
            d -= 1
    return d


@item("C11_INCLUDE_EXITS")
def _include_exits(repo):
    """exit paths of `perform_include` relative to the depth charge: every `return`/`ok!`/`?`/
    `break`/`continue` before the charge is taken, while it is held, and after it was released;
    and the block nesting of the charge and of its release (a release moved out of the candidate
    loop, or an exit while the charge is held, changes this table)"""
    src = _strip(read(repo, VM))
    body = None
    for name, b in _functions(src):
        if name == "perform_include":
            body = b
    if body is None:
        raise KeyError("fn perform_include")
    incr = [m for m in re.finditer(r"\.incr_depth\(", body)]
    decr = [m for m in re.finditer(r"\.decr_depth\(", body)]
    if len(incr) != 1 or len(decr) != 1:
        raise KeyError(f"perform_include: {len(incr)} incr_depth / {len(decr)} decr_depth calls (expected 1/1)")
    i0, i1 = incr[0].start(), _balanced(body, incr[0].end() - 1)
    d0, d1 = decr[0].start(), _balanced(body, decr[0].end() - 1)
    rows = []
    for m in _EXIT.finditer(body):
        p = m.start()
        tok = "?" if m.group(0).startswith("?") else m.group(0).rstrip("(")
        if p < i0 and body[p:i0].strip().startswith("ok!(") and "ok!(" == m.group(0) and not _EXIT.search(body, m.end(), i0):
            region = "charge"      # the `ok!(` wrapping the incr_depth call itself
        elif p < i0:
            region = "before"
        elif p < d0:
            region = "held"
        else:
            region = "released"
        rows.append((region, tok))
    scope = (_brace_depth(body, i0), _brace_depth(body, d0))
    args = (_norm(body[incr[0].end():i1 - 1]), _norm(body[decr[0].end():d1 - 1]))
    lean = ("def includeExits : List (String × String) := ["
            + ", ".join(f"({lean_str(a)}, {lean_str(b)})" for a, b in rows) + "]\n"
            + f"def includeChargeScope : Nat × Nat := ({scope[0]}, {scope[1]})\n"
            + f"def includeChargeArgs : String × String := ({lean_str(args[0])}, {lean_str(args[1])})")
    return {"exits": rows, "scope": scope, "args": args}, lean


@item("C11_DECR_DEPTH")
def _decr(repo):
    src = _strip(read(repo, CTX))
    body = _norm(fn_body(src, r"pub fn decr_depth\(&mut self, delta: usize\)\s*\{"))
    return body, f"def decrDepthBody : String := {lean_str(body)}"


_CTX_CALL = re.compile(r"\b(Context::new_with_frame|Context::new|State::new_for_env|State::new|vm::eval|crate::vm::eval|Executor::eval)\(|\.(incr_depth|with_execution_state|reset_with_frame)\(|\bContext\s*\{")


@item("C11_CONTEXT_SITES")
def _context_sites(repo):
    """every place in the crate that creates a `Context`/`State`, starts a top-level evaluation,
    raises the depth or switches the execution state: (file, function, call), in source order"""
    import glob, os
    base = os.path.join(repo, "minijinja", "src")
    rows = []
    for path in sorted(glob.glob(os.path.join(base, "**", "*.rs"), recursive=True)):
        rel = os.path.relpath(path, base)
        if rel == "verif_hooks.rs":
            continue
        src = _strip(open(path, encoding="utf-8").read())
        src = re.sub(r"#\[cfg\(feature = \"verif_hooks\"\)\]\s*(?:pub(?:\([a-z]+\))? )?fn \w+[^{]*\{[^}]*\}", "", src)
        if not _CTX_CALL.search(src):
            continue
        fns = _functions(src)
        # innermost function wins: drop matches that lie in a nested fn reported separately
        for name, body in fns:
            for m in _CTX_CALL.finditer(body):
                call = m.group(1) or m.group(2) or "Context{}"
                if call == "Context{}" and name != "new":
                    continue
                rows.append((rel, name, call.replace("crate::vm::eval", "vm::eval")))
    # a function nested in another (impl blocks are not functions) would be listed twice
    seen, out = set(), []
    for r in rows:
        out.append(r)
    if not out:
        raise KeyError("no context sites")
    lean = ("def contextSites : List (String × String × String) := [\n  "
            + ",\n  ".join("(%s, %s, %s)" % tuple(lean_str(x) for x in r) for r in out) + "]")
    return out, lean


@item("C11_LIMIT_SOURCE")
def _limit_source(repo):
    """where a `Context` takes its limit from, and the parser's own guard"""
    src = _strip(read(repo, CTX))
    m = re.search(r"recursion_limit:\s*([^,]+),", fn_body(src, r"pub fn new\(env: &'env Environment<'env>\) -> Context<'env>\s*\{"))
    if not m:
        raise KeyError("Context::new recursion_limit")
    psrc = _strip(read(repo, "minijinja/src/compiler/parser.rs"))
    g = re.search(r"\$parser\.depth \+= 1;\s*if (\$parser\.depth > MAX_RECURSION)", psrc)
    if not g:
        raise KeyError("parser recursion guard")
    lean = (f"def contextLimitSource : String := {lean_str(_norm(m.group(1)))}\n"
            f"def parserGuardCond : String := {lean_str(g.group(1))}")
    return {"limit": _norm(m.group(1)), "parser_guard": g.group(1)}, lean


@item("C11_CONTEXT_HELPERS")
def _context_helpers(repo):
    """the helpers that put frames into a (fresh or pooled) context: their whole bodies — a macro
    context always has its base frame and the closure frame, whatever the base value is"""
    src = _strip(read(repo, CTX))
    rows = [
        ("reset_with_frame", _norm(fn_body(src, r"pub fn reset_with_frame\(&mut self, frame: Frame<'env>\)\s*\{"))),
        ("clear", _norm(fn_body(src, r"pub fn clear\(&mut self\)\s*\{"))),
        ("new_with_frame", _norm(fn_body(src, r"pub fn new_with_frame\(env: &'env Environment<'env>, frame: Frame<'env>\) -> Context<'env>\s*\{"))),
        ("pop_frame", _norm(fn_body(src, r"pub fn pop_frame\(&mut self\) -> Frame<'env>\s*\{"))),
    ]
    lean = ("def contextHelpers : List (String × String) := [\n  "
            + ",\n  ".join(f"({lean_str(a)}, {lean_str(b)})" for a, b in rows) + "]")
    return rows, lean
