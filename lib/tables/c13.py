"""C13 table items: the per-instruction fuel cost table of vm/fuel.rs and the instruction names.

`fuelCosts : List (String × Nat)` = every explicit arm of `fuel_for_instruction` (any literal cost),
`fuelCostDefault : Nat` = the `_ =>` arm.  Independent of the function's integer return type.
"""
import re
from extract_tables import item, read, fn_body, lean_str


@item("C13_FUEL_COSTS")
def _fuel_costs(repo):
    src = read(repo, "minijinja/src/vm/fuel.rs")
    body = fn_body(src, r"fn fuel_for_instruction\(\s*\w+\s*:\s*&Instruction(?:<[^>]*>)?\s*\)\s*->\s*\w+\s*\{")
    inner = fn_body(body, r"match\s+\w+\s*\{")
    inner = re.sub(r"//.*", "", inner)
    rows = []
    # arms are `pat | pat ... => literal,` possibly preceded by #[cfg(..)] attributes
    pos = 0
    default = None
    for m in re.finditer(r"=>\s*([^,]+?)\s*,", inner):
        pat = inner[pos:m.start()]
        pos = m.end()
        val = m.group(1).strip()
        if not re.fullmatch(r"\d+", val):
            raise KeyError(f"fuel arm with a non-literal cost: `{pat.strip()[-60:]} => {val}`")
        pat_nocfg = re.sub(r"#\[cfg\([^\]]*\)\]", "", pat).strip()
        if pat_nocfg == "_":
            default = int(val)
            continue
        alts = [a.strip() for a in pat_nocfg.split("|") if a.strip()]
        for a in alts:
            mm = re.fullmatch(r"Instruction::(\w+)(?:\s*\((?:\s*(?:_|\.\.)\s*,?)*\)|\s*\{\s*\.\.\s*\})?", a)
            if not mm:
                raise KeyError(f"fuel arm pattern depends on more than the instruction kind: `{a}`")
            rows.append((mm.group(1), int(val)))
    if inner[pos:].strip():
        raise KeyError(f"unparsed rest of fuel_for_instruction: `{inner[pos:].strip()[:60]}`")
    if default is None:
        raise KeyError("fuel default arm")
    if not rows:
        raise KeyError("no explicit fuel arms")
    lean = ("def fuelCosts : List (String × Nat) := ["
            + ", ".join(f"({lean_str(n)}, {v})" for n, v in rows) + "]\n"
            + f"def fuelCostDefault : Nat := {default}")
    return {"rows": rows, "default": default}, lean
