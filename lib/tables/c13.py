"""C13 table items: the per-instruction fuel cost table of vm/fuel.rs and the instruction names.

`fuelCosts : List (String × Nat)` = every explicit arm of `fuel_for_instruction` (any literal cost),
`fuelCostDefault : Nat` = the `_ =>` arm.  Independent of the function's integer return type.
"""
import re
from extract_tables import item, read, fn_body, lean_str


@item("C13_FUEL_COSTS")
def _fuel_costs(repo):
    src = read(repo, "minijinja/src/vm/fuel.rs")
    body = fn_body(src, r"fn fuel_for_instruction\(\s*\w+\s*:\s*&Instruction(?:<[^>]*>)?\s*\)\s*->\s*\w+\s*\{")
    inner = fn_body(body, r"match\s+\w+\s*\{")
    inner = re.sub(r"//.*", "", inner)
    rows = []
    # arms are `pat | pat ... => literal,` possibly preceded by #[cfg(..)] attributes
    pos = 0
    default = None
    for m in re.finditer(r"=>\s*([^,]+?)\s*,", inner):
        pat = inner[pos:m.start()]
        pos = m.end()
        val = m.group(1).strip()
        if not re.fullmatch(r"\d+", val):
            raise KeyError(f"fuel arm with a non-literal cost: `{pat.strip()[-60:]} => {val}`")
        pat_nocfg = re.sub(r"#\[cfg\([^\]]*\)\]", "", pat).strip()
        if pat_nocfg == "_":
            default = int(val)
            continue
        alts = [a.strip() for a in pat_nocfg.split("|") if a.strip()]
        for a in alts:
            mm = re.fullmatch(r"Instruction::(\w+)(?:\s*\((?:\s*(?:_|\.\.)\s*,?)*\)|\s*\{\s*\.\.\s*\})?", a)
            if not mm:
                raise KeyError(f"fuel arm pattern depends on more than the instruction kind: `{a}`")
            rows.append((mm.group(1), int(val)))
    if inner[pos:].strip():
        raise KeyError(f"unparsed rest of fuel_for_instruction: `{inner[pos:].strip()[:60]}`")
    if default is None:
        raise KeyError("fuel default arm")
    if not rows:
        raise KeyError("no explicit fuel arms")
    lean = ("def fuelCosts : List (String × Nat) := ["
            + ", ".join(f"({lean_str(n)}, {v})" for n, v in rows) + "]\n"
            + f"def fuelCostDefault : Nat := {default}")
    return {"rows": rows, "default": default}, lean


# ------------------------------------------------------------------------------------------------
# who touches the tracker?  (hypothesis of the non-interference theorems: nothing but State::new,
# the track call in eval_impl and State::fuel_levels)
import os, glob

_TOKENS = [("fuel_tracker", r"\bfuel_tracker\b"), ("FuelTracker", r"\bFuelTracker\b"), ("fuel_levels", r"\bfuel_levels\b"),
           ("track()", r"\.track\("), ("remaining()", r"\.remaining\(\)"), ("consumed()", r"\.consumed\(\)"),
           ("env.fuel()", r"\.fuel\(\)"), ("set_fuel", r"\bset_fuel\b"), ("self.fuel", r"\bself\.fuel\b"),
           ("State::new", r"\bState::new(?:_for_env)?\(")]


def _strip_comments(src):
    out = []
    for line in src.split("\n"):
        # good enough for these files: no `//` inside string literals on the lines we look at
        i = line.find("//")
        out.append(line if i < 0 else line[:i])
    return "\n".join(out)


def _enclosing(lines, idx):
    ind = len(lines[idx]) - len(lines[idx].lstrip())
    for j in range(idx - 1, -1, -1):
        m = re.match(r"^(\s*)(?:pub(?:\([^)]*\))?\s+)?(?:const\s+|async\s+|unsafe\s+)*(fn|struct|enum|trait|impl)(?:<[^>]*>)?\s+(\w+)", lines[j])
        if m and len(m.group(1)) < ind:
            return f"{m.group(2)} {m.group(3)}"
    return "<top>"


@item("C13_FUEL_USES")
def _fuel_uses(repo):
    files = sorted(glob.glob(os.path.join(repo, "minijinja/src/**/*.rs"), recursive=True)
                   + glob.glob(os.path.join(repo, "minijinja-contrib/src/**/*.rs"), recursive=True))
    rows = []
    for path in files:
        rel = os.path.relpath(path, repo)
        if rel == "minijinja/src/vm/fuel.rs":
            continue  # the module that is modelled (MJ/Model/Fuel.lean)
        lines = _strip_comments(open(path, encoding="utf-8").read()).split("\n")
        for idx, line in enumerate(lines):
            toks = [name for name, rx in _TOKENS if re.search(rx, line)]
            if not toks or re.match(r"\s*#\[", line):
                continue
            kind = "+".join(toks)
            if re.search(r"\bfuel_tracker\s*=[^=]", line) or re.search(r"\bself\.fuel\s*=[^=]", line):
                kind += ":assign"
            if re.search(r"clone|replace|take\(|swap", line):
                kind += ":copy-or-move"
            if re.search(r"\bmut\b", line):
                kind += ":mut"
            if re.match(r"\s*(pub(\([^)]*\))?\s+)?fn\s", line):
                kind += ":def"
            if re.match(r"\s*use\s", line):
                kind += ":import"
            rows.append((rel.replace("minijinja/src/", ""), _enclosing(lines, idx), kind))
    if not rows:
        raise KeyError("no fuel tracker uses found at all")
    rows.sort()
    lean = ("def fuelUses : List (String × String × String) := [\n  "
            + ",\n  ".join(f"({lean_str(a)}, {lean_str(b)}, {lean_str(c)})" for a, b, c in rows) + "]")
    return rows, lean


@item("C13_TRACK_SITE")
def _track_site(repo):
    src = _strip_comments(read(repo, "minijinja/src/vm/mod.rs"))
    body = fn_body(src, r"fn eval_impl\s*\(")
    marks = [("loop", r"\bloop\s*\{"), ("fetch", r"state\.instructions\.get\(pc\)"),
             ("hook", r"verif_hooks::instructions::on_instruction\(instr\)"),
             ("borrow", r"if let Some\(ref mut tracker\) = state\.fuel_tracker"),
             ("track-or-abort", r"ctx_ok!\(\s*tracker\.track\(instr\)\s*\)"), ("dispatch", r"\bmatch instr\s*\{")]
    found = []
    for name, rx in marks:
        ms = list(re.finditer(rx, body))
        if len(ms) != 1:
            raise KeyError(f"eval_impl: expected exactly one `{name}` landmark, found {len(ms)}")
        found.append((ms[0].start(), name))
    if len(re.findall(r"\.track\(", src)) != 1:
        raise KeyError("vm/mod.rs: expected exactly one call of track()")
    found.sort()
    names = [n for _, n in found]
    return names, "def fuelTrackSite : List String := [" + ", ".join(lean_str(n) for n in names) + "]"


# ------------------------------------------------------------------------------------------------
# readers of the tracker, classified by whether a template can get at what they read
_OUTPUT_FILES = re.compile(r"^(minijinja/src/(functions|filters|tests|defaults|output|utils|macros|error)\.rs|minijinja/src/value/|minijinja-contrib/)")


@item("C13_FUEL_READERS")
def _fuel_readers(repo):
    files = sorted(glob.glob(os.path.join(repo, "minijinja/src/**/*.rs"), recursive=True)
                   + glob.glob(os.path.join(repo, "minijinja-contrib/src/**/*.rs"), recursive=True))
    rows = []
    for path in files:
        rel = os.path.relpath(path, repo)
        if rel == "minijinja/src/vm/fuel.rs":
            continue
        lines = _strip_comments(open(path, encoding="utf-8").read()).split("\n")
        for idx, line in enumerate(lines):
            if re.match(r"\s*#\[", line):
                continue
            what = []
            if re.search(r"\bfuel_levels\s*\(", line) and not re.search(r"\bfn\s+fuel_levels\b", line):
                what.append("calls fuel_levels()")
            if re.search(r"\bfuel_tracker\b", line) and not re.search(r"\bfuel_tracker\s*:", line):
                what.append("reads fuel_tracker")
            if re.search(r"\.remaining\(\)|\.consumed\(\)", line):
                what.append("reads levels")
            if not what:
                continue
            encl = _enclosing(lines, idx)
            # an `impl fmt::Debug/Display for X { fn fmt }` is what `{{ debug() }}`, `{:?}` of a
            # Captured and every Rust callable formatting the state put into the output
            if encl == "fn fmt" or _OUTPUT_FILES.match(rel):
                cls = "reachable from template output"
            elif encl == "fn fuel_levels":
                cls = "rust api State::fuel_levels"
            elif encl == "fn eval_impl":
                cls = "accounting"
            else:
                cls = "other engine code"
            rows.append((rel.replace("minijinja/src/", ""), encl, "+".join(what), cls))
    rows.sort()
    lean = ("def fuelReaders : List (String × String × String × String) := [\n  "
            + ",\n  ".join("(" + ", ".join(lean_str(x) for x in row) + ")" for row in rows) + "]")
    return rows, lean


# ------------------------------------------------------------------------------------------------
# entry points: every way to start an evaluation ends in State::new (which reads env.fuel())
_ENTRY_NODES = [
    ("Template::render", "minijinja/src/template.rs", r"pub fn render\s*<"),
    ("Template::render_captured", "minijinja/src/template.rs", r"pub fn render_captured\s*<"),
    ("Template::render_captured_to", "minijinja/src/template.rs", r"pub fn render_captured_to\s*<"),
    ("Template::_render", "minijinja/src/template.rs", r"fn _render\s*\("),
    ("Template::_capture_state", "minijinja/src/template.rs", r"fn _capture_state\s*\("),
    ("Template::_capture_state_with_output", "minijinja/src/template.rs", r"fn _capture_state_with_output\s*<"),
    ("Template::_eval", "minijinja/src/template.rs", r"fn _eval\s*\("),
    ("Template::new_state", "minijinja/src/template.rs", r"pub fn new_state\s*\("),
    ("Expression::eval", "minijinja/src/expression.rs", r"pub fn eval\s*<"),
    ("Expression::_eval", "minijinja/src/expression.rs", r"fn _eval\s*\("),
    ("Environment::render_str", "minijinja/src/environment.rs", r"pub fn render_str\s*<"),
    ("Environment::render_named_str", "minijinja/src/environment.rs", r"pub fn render_named_str\s*<"),
    ("Environment::empty_state", "minijinja/src/environment.rs", r"pub fn empty_state\s*\("),
    ("vm::eval", "minijinja/src/vm/mod.rs", r"pub\(crate\) fn eval\s*<'env, 'template>"),
    ("Executor::eval", "minijinja/src/vm/mod.rs", r"pub\(crate\) fn eval\s*<'template>"),
    ("State::new_for_env", "minijinja/src/vm/state.rs", r"fn new_for_env\s*\("),
]
_CALLEES = [
    (r"\._render\(", "{T}::_render"), (r"\._capture_state\(", "{T}::_capture_state"),
    (r"\._capture_state_with_output\(", "{T}::_capture_state_with_output"), (r"\._eval\(", "{T}::_eval"),
    (r"\bvm::eval\(", "vm::eval"), (r"\bExecutor::eval\(", "Executor::eval"), (r"\bState::new\(", "State::new"),
    (r"\bState::new_for_env\(", "State::new_for_env"), (r"\.render\(", "Template::render"),
]


@item("C13_ENTRY_CALLS")
def _entry_calls(repo):
    rows = []
    for node, rel, header in _ENTRY_NODES:
        src = _strip_comments(read(repo, rel))
        ms = list(re.finditer(header, src))
        if len(ms) != 1:
            raise KeyError(f"entry point {node}: expected one definition in {rel}, found {len(ms)}")
        body = fn_body(src[ms[0].start():], r"\)\s*(?:->\s*[^{;]+)?\{")
        owner = node.split("::")[0]
        callees = sorted({c.replace("{T}", owner) for rx, c in _CALLEES if re.search(rx, body)})
        rows.append((node, callees))
    lean = ("def fuelEntryCalls : List (String × List String) := [\n  "
            + ",\n  ".join(f"({lean_str(n)}, [" + ", ".join(lean_str(c) for c in cs) + "])" for n, cs in rows) + "]")
    return rows, lean


# ------------------------------------------------------------------------------------------------
# who consumes an `Error` that may come out of a nested evaluation, and what happens to it
_CONS_PAT = re.compile(r"\.map_err\(|\.ok\(\)|\.unwrap_or(?:_else|_default)?\(|\bif let Err\(|\bErr\(_\)|\.is_err\(\)"
                       r"|\bErr\((?:mut )?\w+\)\s*(?:if[^=]*?)?=>|\.or_else\(|\.map_or(?:_else)?\(|\bif let Ok\(|\.or\(|\.is_ok_and\(|\.is_err_and\(")
_ADAPT = {"map", "and_then", "ok_or_else", "ok_or", "as_ref", "as_mut", "cloned", "into_iter", "iter", "transpose", "flatten",
          "filter", "filter_map", "copied", "then", "borrow_mut", "borrow", "lock", "unwrap", "clone", "into_inner"}
# a call that receives the State (or is a method of it) can run the VM; so can the functions that start an evaluation
_STATE_ARG = re.compile(r"(?:^|[(,])\s*(?:&mut\s+)?\*?(?:state|self)\s*(?:$|[,)])")
_EVAL_CALLEES = {"_capture_state", "_capture_state_with_output", "_eval", "_render", "render", "render_captured", "render_captured_to",
                 "eval", "render_str", "render_named_str", "call_block", "eval_state", "do_eval", "eval_impl", "eval_macro", "render_block",
                 "render_block_to_write", "call_macro", "apply_filter", "perform_test", "format", "call", "call_method", "_call_method",
                 "callback", "with_execution_state", "perform_include", "perform_super", "invoke", "invoke_nested_mut"}


def _match_back(src, i):
    depth = 0
    while i >= 0:
        c = src[i]
        if c in ")]}":
            depth += 1
        elif c in "([{":
            depth -= 1
            if depth == 0:
                return i
        i -= 1
    return -1


def _match_fwd(src, i):
    depth = 0
    while i < len(src):
        c = src[i]
        if c in "([{":
            depth += 1
        elif c in ")]}":
            depth -= 1
            if depth == 0:
                return i
        i += 1
    return len(src) - 1


def _chain(src, p):
    """the method chain whose value ends right before p: [(name, args)], outermost first"""
    out, i = [], p - 1
    while True:
        while i >= 0 and src[i].isspace():
            i -= 1
        if i < 0:
            break
        if src[i] == "?":
            i -= 1
            continue
        if src[i] == ")":
            j = _match_back(src, i)
            k = j - 1
            while k >= 0 and src[k].isspace():
                k -= 1
            m = re.search(r"([A-Za-z_]\w*!?)(?:::<[^()]*>)?$", src[:k + 1])
            name = m.group(1) if m else "?"
            if name in ("ok!", "some!", "Ok", "Some"):
                i -= 1  # look inside the wrapper
                continue
            out.append((name, src[j + 1:i]))
            k2 = k - (len(m.group(0)) if m else 0)
            while k2 >= 0 and src[k2].isspace():
                k2 -= 1
            if k2 >= 0 and src[k2] == ".":
                i = k2 - 1
                continue
            break
        m = re.search(r"([A-Za-z_]\w*)$", src[:i + 1])
        if m:
            out.append(("var:" + m.group(1), ""))
            k2 = i - len(m.group(1))
            while k2 >= 0 and src[k2].isspace():
                k2 -= 1
            if k2 >= 0 and src[k2] == ".":
                i = k2 - 1
                continue
        break
    return out


def _origin(src, fn_start, ch, use_pos, depth=0):
    """(callee, origin) — origin: 'may-run-vm' if the consumed value comes from a call that gets the
    State or starts an evaluation, 'no-vm' if it provably does not, 'unknown' otherwise"""
    names = [n for n, _ in ch]
    callee = next((n for n in names if n not in _ADAPT), names[0] if names else "?")
    if any(_STATE_ARG.search(a) for _, a in ch) or any(n in _EVAL_CALLEES for n in names):
        return callee, "may-run-vm"
    if callee.startswith("var:") and callee not in ("var:self",) and depth < 3:
        var = callee[4:]
        # local binding `let [mut] var[: T] = EXPR;` in the same function, nearest before the use
        ms = list(re.finditer(r"\blet\s+(?:mut\s+)?%s\b\s*(?::[^=;]+)?=" % re.escape(var), src[fn_start:use_pos]))
        if ms:
            s0 = fn_start + ms[-1].end()
            e0 = src.find(";", s0)
            expr = src[s0:e0]
            if _STATE_ARG.search(expr) or re.search(r"\b(?:%s)\(" % "|".join(sorted(_EVAL_CALLEES)), expr):
                return callee, "may-run-vm"
            return callee, "no-vm"
        # parameter or field with an Option/number type
        if re.search(r"\b%s\s*:\s*(?:&\s*)?(?:mut\s+)?Option<" % re.escape(var), src):
            return callee, "no-vm"
        return callee, "unknown"
    if callee.startswith("var:"):
        return callee, "unknown"
    return callee, "no-vm"


@item("C13_ERR_CONSUMERS")
def _err_consumers(repo):
    base = os.path.join(repo, "minijinja/src")
    files = sorted(os.path.relpath(p, base) for p in glob.glob(os.path.join(base, "**/*.rs"), recursive=True))
    rows, n_novm = [], 0
    for f in files:
        if f.startswith(("compiler/", "vendor/")) or f in ("verif_hooks.rs", "macros.rs", "syntax.rs"):
            continue
        src = _strip_comments(open(os.path.join(base, f), encoding="utf-8").read())
        cut = src.find("#[cfg(test)]")
        for m in _CONS_PAT.finditer(src):
            if 0 <= cut < m.start() and "mod test" in src[cut:cut + 200]:
                continue
            fns = list(re.finditer(r"\bfn\s+(\w+)", src[:m.start()]))
            fn_name, fn_start = (fns[-1].group(1), fns[-1].start()) if fns else ("<top>", 0)
            pat = m.group(0)
            if pat.startswith("if let Err(") or pat.startswith("if let Ok("):
                e = src.find("{", m.end())
                ch = _chain(src, e)
                body = src[e:_match_fwd(src, e) + 1]
                how = "if let Err" if pat.startswith("if let Err(") else "if let Ok"
            elif pat.startswith("Err("):
                ms = list(re.finditer(r"\bmatch\s", src[:m.start()]))
                ch = []
                if ms:
                    e = src.find("{", ms[-1].end())
                    ch = _chain(src, e)
                depth, i = 0, m.end()
                while i < len(src):
                    c = src[i]
                    if c in "([{":
                        depth += 1
                    elif c in ")]}":
                        if depth == 0:
                            break
                        depth -= 1
                    elif c == "," and depth == 0:
                        break
                    i += 1
                body = src[m.end():i]
                how = "match arm " + ("Err(_)" if pat.startswith("Err(_") else "Err(e)")
            else:
                ch = _chain(src, m.start())
                e = _match_fwd(src, m.end() - 1) if pat.endswith("(") else m.end()
                body = src[m.end():e]
                how = pat.strip(".(")
            callee, origin = _origin(src, fn_start, ch, m.start())
            if origin == "no-vm":
                n_novm += 1
                continue
            body = " ".join(body.split())
            if "with_source(" in body:
                disp = "wraps, original kept as source"
            elif "take_err(" in body:
                disp = "io error of the writer takes precedence, else original"
            elif re.search(r"return Err\(\w+\)|bail!\(\w+\)|^\s*Err\(\w+\)\s*$|=> Err\(\w+\)|Err\(\w+\)\s*\}\s*$", body) and "Error::new" not in body:
                disp = "propagates original"
            elif "Error::new(" in body or "Error::from(" in body:
                disp = "REPLACES original"
            elif how == "if let Ok" and re.search(r"\}\s*else\s*\{[^}]*(?:return Err\(\w+\)|Err\(\w+\))", src[e:_match_fwd(src, e) + 200]):
                disp = "propagates original"
            elif how in ("ok()", "unwrap_or", "unwrap_or_else", "unwrap_or_default", "is_err()", "match arm Err(_)", "or_else", "map_or", "map_or_else",
                         "is_ok()", "if let Ok", "or", "is_ok_and", "is_err_and"):
                disp = "SWALLOWS original"
            else:
                disp = "other"
            rows.append((f, fn_name, callee, origin, how, disp))
    rows.sort()
    lean = ("def fuelErrConsumers : List (String × String × String × String × String × String) := [\n  "
            + ",\n  ".join("(" + ", ".join(lean_str(x) for x in row) + ")" for row in rows) + "]\n"
            + f"def fuelErrConsumersNoVm : Nat := {n_novm}")
    return {"rows": rows, "no_vm": n_novm}, lean


# ------------------------------------------------------------------------------------------------
# TOTAL cost table: the Instruction enum (every variant with its #[cfg]) and the arms of
# fuel_for_instruction with their #[cfg]s
def _cfg_of(attrs, where):
    """'' or the feature name of the single #[cfg(feature = "x")] among the attributes"""
    feats = []
    for a in attrs:
        if not a.startswith("cfg"):
            continue  # doc, allow, serde attributes ...
        m = re.fullmatch(r'cfg\(\s*feature\s*=\s*"(\w+)"\s*\)', a)
        if not m:
            raise KeyError(f"{where}: a #[cfg] that is not a single feature test: #[{a}]")
        feats.append(m.group(1))
    if len(feats) > 1:
        raise KeyError(f"{where}: more than one #[cfg]")
    return feats[0] if feats else ""


def _split_top(s, sep=","):
    out, depth, cur = [], 0, ""
    for c in s:
        if c in "([{<":
            depth += 1
        elif c in ")]}>":
            depth -= 1
        if c == sep and depth == 0:
            out.append(cur)
            cur = ""
        else:
            cur += c
    if cur.strip():
        out.append(cur)
    return out


@item("C13_INSTR_VARIANTS")
def _instr_variants(repo):
    src = _strip_comments(read(repo, "minijinja/src/compiler/instructions.rs"))
    body = fn_body(src, r"pub enum Instruction\s*<[^>]*>\s*\{")
    rows = []
    for part in _split_top(body):
        part = part.strip()
        if not part:
            continue
        attrs = re.findall(r"#\[((?:[^\[\]]|\[[^\]]*\])*)\]", part)
        rest = re.sub(r"#\[(?:[^\[\]]|\[[^\]]*\])*\]", "", part).strip()
        m = re.match(r"(\w+)", rest)
        if not m:
            raise KeyError(f"Instruction enum: cannot read variant `{part[:40]}`")
        rows.append((m.group(1), _cfg_of([a.strip() for a in attrs], "Instruction::" + m.group(1))))
    if len(rows) < 40:
        raise KeyError("Instruction enum: fewer than 40 variants found")
    lean = ("def instrVariants : List (String × String) := ["
            + ", ".join(f"({lean_str(n)}, {lean_str(c)})" for n, c in rows) + "]")
    return rows, lean


@item("C13_FUEL_ARMS")
def _fuel_arms(repo):
    src = read(repo, "minijinja/src/vm/fuel.rs")
    body = fn_body(src, r"fn fuel_for_instruction\(\s*\w+\s*:\s*&Instruction(?:<[^>]*>)?\s*\)\s*->\s*\w+\s*\{")
    inner = re.sub(r"//.*", "", fn_body(body, r"match\s+\w+\s*\{"))
    rows, pos = [], 0
    for m in re.finditer(r"=>\s*([^,]+?)\s*,", inner):
        pat = inner[pos:m.start()]
        pos = m.end()
        val = m.group(1).strip()
        if not re.fullmatch(r"\d+", val):
            raise KeyError(f"fuel arm with a non-literal cost: `{val}`")
        attrs = [a.strip() for a in re.findall(r"#\[((?:[^\[\]]|\[[^\]]*\])*)\]", pat)]
        cfg = _cfg_of(attrs, "fuel arm")
        pat = re.sub(r"#\[(?:[^\[\]]|\[[^\]]*\])*\]", "", pat).strip()
        if " if " in pat:
            raise KeyError("fuel arm with a guard")
        if pat == "_":
            continue
        for a in [a.strip() for a in pat.split("|") if a.strip()]:
            mm = re.fullmatch(r"Instruction::(\w+)(?:\s*\((?:\s*(?:_|\.\.)\s*,?)*\)|\s*\{\s*\.\.\s*\})?", a)
            if not mm:
                raise KeyError(f"fuel arm pattern depends on more than the instruction kind: `{a}`")
            rows.append((mm.group(1), cfg, int(val)))
    if not rows:
        raise KeyError("no explicit fuel arms")
    lean = ("def fuelCostArms : List (String × String × Nat) := ["
            + ", ".join(f"({lean_str(n)}, {lean_str(c)}, {v})" for n, c, v in rows) + "]")
    return rows, lean


# ------------------------------------------------------------------------------------------------
# every place that creates, replaces, clones or restores a FuelTracker or a whole State
_SITE_TOKENS = [
    ("State-literal", r"(?<![\w:])State\s*\{"),
    ("State::new()", r"\bState::new\("),
    ("State::new_for_env()", r"\bState::new_for_env\("),
    ("vm::eval()", r"\bvm::eval\("),
    ("Executor::eval()", r"\bExecutor::eval\("),
    ("Self::eval()", r"\bSelf::eval\("),
    ("FuelTracker-literal", r"(?<![\w:])FuelTracker\s*\{"),
    ("FuelTracker::new", r"\bFuelTracker::new\b"),
    ("fuel_tracker:assign", r"\bfuel_tracker\s*=[^=]"),
    ("fuel_tracker:field-init", r"\bfuel_tracker\s*:(?!:)"),
    ("fuel_tracker:method", r"\bfuel_tracker\s*\.\s*(\w+)\s*\("),
    ("fuel_tracker:mut-borrow", r"(?:&\s*mut\s+[\w.]*\bfuel_tracker\b|ref\s+mut\s+\w+\s*\)\s*=\s*[\w.]*\bfuel_tracker\b)"),
    ("fuel_tracker:mem", r"\bmem::(?:replace|take|swap)\s*\([^;]*\bfuel_tracker\b"),
    ("state:overwrite", r"\*\s*(?:state|self)\s*=[^=]"),
    ("state:mem", r"\bmem::(?:replace|take|swap)\s*\(\s*(?:&\s*mut\s+\*?)?(?:state|self)\s*[,)]"),
]


@item("C13_TRACKER_SITES")
def _tracker_sites(repo):
    files = sorted(glob.glob(os.path.join(repo, "minijinja/src/**/*.rs"), recursive=True)
                   + glob.glob(os.path.join(repo, "minijinja-contrib/src/**/*.rs"), recursive=True))
    rows = []
    for path in files:
        rel = os.path.relpath(path, repo).replace("minijinja/src/", "")
        src = _strip_comments(open(path, encoding="utf-8").read())
        lines = src.split("\n")
        for idx, line in enumerate(lines):
            if re.match(r"\s*#\[", line):
                continue
            for name, rx in _SITE_TOKENS:
                for m in re.finditer(rx, line):
                    if name == "State-literal" and re.search(r"\b(struct|impl|enum|trait|for|->)\s+$", line[:m.start()] + " "):
                        continue
                    if name == "FuelTracker-literal" and re.search(r"(\b(struct|impl|for)|->)\s+$", line[:m.start()] + " "):
                        continue
                    what = name + (":" + m.group(1) if name == "fuel_tracker:method" else "")
                    rows.append((rel, _enclosing(lines, idx), what))
        # the derives and manual Clone/Copy of the tracker and the state
        for ty in ("FuelTracker", "State"):
            for m in re.finditer(r"((?:\s*#\[[^\]]*\]\s*\n)*)\s*pub(?:\([^)]*\))?\s+struct\s+%s\b" % ty, src):
                ders = re.findall(r"derive\(([^)]*)\)", m.group(1))
                names = sorted(x.strip() for d in ders for x in d.split(",") if x.strip())
                rows.append((rel, "struct " + ty, "derive:" + ("+".join(names) if names else "none")))
            for m in re.finditer(r"\bimpl(?:<[^>]*>)?\s+(Clone|Copy|Default)\s+for\s+%s\b" % ty, src):
                rows.append((rel, "struct " + ty, "impl:" + m.group(1)))
    if not any(r[2] == "FuelTracker::new" for r in rows):
        raise KeyError("no FuelTracker::new site found")
    rows.sort()
    lean = ("def trackerSites : List (String × String × String) := [\n  "
            + ",\n  ".join(f"({lean_str(a)}, {lean_str(b)}, {lean_str(c)})" for a, b, c in rows) + "]")
    return rows, lean


# ------------------------------------------------------------------------------------------------
# the functions through which a nested evaluation is entered: how they get the State, whether they
# create anything, and whom they call
_NESTED = [
    ("State::render_block", "minijinja/src/vm/state.rs", r"pub fn render_block\s*\("),
    ("State::render_block_to_write", "minijinja/src/vm/state.rs", r"pub fn render_block_to_write\s*<"),
    ("State::call_macro", "minijinja/src/vm/state.rs", r"pub fn call_macro\s*\("),
    ("State::apply_filter", "minijinja/src/vm/state.rs", r"pub fn apply_filter\s*\("),
    ("State::perform_test", "minijinja/src/vm/state.rs", r"pub fn perform_test\s*\("),
    ("State::format", "minijinja/src/vm/state.rs", r"pub fn format\s*\("),
    ("State::with_execution_state", "minijinja/src/vm/state.rs", r"pub\(crate\) fn with_execution_state\s*<"),
    ("State::with_auto_escape", "minijinja/src/vm/state.rs", r"pub\(crate\) fn with_auto_escape\s*<"),
    ("Captured::with_state_mut", "minijinja/src/template.rs", r"pub fn with_state_mut\s*<"),
    ("vm::call_block", "minijinja/src/vm/mod.rs", r"pub\(crate\) fn call_block\s*<'env>"),
    ("vm::eval_macro", "minijinja/src/vm/mod.rs", r"pub\(crate\) fn eval_macro\s*<'env, 'template>"),
    ("Executor::eval_macro", "minijinja/src/vm/mod.rs", r"pub\(crate\) fn eval_macro\s*<'template>"),
    ("Executor::eval_state", "minijinja/src/vm/mod.rs", r"fn eval_state\s*\("),
    ("Executor::do_eval", "minijinja/src/vm/mod.rs", r"fn do_eval\s*\("),
    ("Executor::eval_impl", "minijinja/src/vm/mod.rs", r"fn eval_impl\s*\("),
    ("Executor::perform_include", "minijinja/src/vm/mod.rs", r"fn perform_include\s*\("),
    ("Executor::perform_super", "minijinja/src/vm/mod.rs", r"fn perform_super\s*\("),
    ("Executor::call_block", "minijinja/src/vm/mod.rs", r"pub\(crate\) fn call_block\s*\("),
    ("Macro::call", "minijinja/src/vm/macro_object.rs", r"fn call\s*\(\s*self: &Arc<Self>"),
    ("Value::call", "minijinja/src/value/mod.rs", r"pub fn call\s*\(\s*&self"),
    ("Value::call_method", "minijinja/src/value/mod.rs", r"pub fn call_method\s*\("),
    ("Environment::format", "minijinja/src/environment.rs", r"pub\(crate\) fn format\s*\("),
]
_NESTED_CALLEES = [
    (r"\bvm::call_block\(", "vm::call_block"), (r"\bExecutor::call_block\(", "Executor::call_block"),
    (r"\bSelf::call_block\(", "Executor::call_block"), (r"\bvm::eval_macro\(", "vm::eval_macro"),
    (r"\bExecutor::eval_macro\(", "Executor::eval_macro"), (r"\bSelf::eval_state\(", "Executor::eval_state"),
    (r"\bSelf::do_eval\(", "Executor::do_eval"), (r"\bSelf::eval_impl\(", "Executor::eval_impl"),
    (r"\bSelf::perform_include\(", "Executor::perform_include"), (r"\bSelf::perform_super\(", "Executor::perform_super"),
    (r"\.with_execution_state\(", "State::with_execution_state"), (r"\.with_auto_escape\(", "State::with_auto_escape"),
    (r"\b\w+\.call\(\s*(?:self|state)\b", "callable::call"), (r"\.call_method\(\s*(?:self|state)\b", "callable::call_method"),
    (r"\.format\(\s*&?\w+\s*,\s*(?:self|state)\b", "Environment::format"), (r"\(self\.formatter\)\(", "formatter callback"),
    (r"\bf\(\s*(?:self|&mut dependent\.state)\s*\)", "closure(state)"),
]
_CREATION = [r"(?<![\w:])State\s*\{", r"\bState::new(?:_for_env)?\(", r"\bvm::eval\(", r"\bExecutor::eval\(", r"\bSelf::eval\(",
             r"\bFuelTracker\b", r"\bfuel_tracker\s*=[^=]", r"\bmem::(?:replace|take|swap)\s*\([^;]*\bfuel_tracker\b",
             r"\bfuel_tracker\s*\.\s*(?:take|replace|insert|clone|get_or_insert\w*)\s*\(", r"\*\s*(?:state|self)\s*=[^=]",
             r"\.empty_state\(", r"\.new_state\(", r"\.render(?:_captured(?:_to)?|_str|_named_str)?\(", r"\.eval\("]


@item("C13_NESTED_FNS")
def _nested_fns(repo):
    rows = []
    for label, rel, header in _NESTED:
        src = _strip_comments(read(repo, rel))
        ms = list(re.finditer(header, src))
        if len(ms) != 1:
            raise KeyError(f"nested-evaluation function {label}: expected one definition in {rel}, found {len(ms)}")
        start = ms[0].start()
        # signature = up to the opening brace of the body (skip braces inside generics/where clauses: none here)
        body_open = src.index("{", re.search(r"\)\s*(?:->\s*[^{;]+?)?(?:\s*where[^{]*)?\{", src[start:]).end() - 1 + start)
        sig = " ".join(src[start:body_open].split())
        body = fn_body(src[start:], r"\)\s*(?:->\s*[^{;]+?)?(?:\s*where[^{]*)?\{")
        if re.search(r"&mut self\b", sig) or re.search(r"\b(?:state|_state)\s*:\s*&mut State\b", sig):
            how = "&mut"
        elif re.search(r"\b(?:state|_state)\s*:\s*&State\b", sig) or re.search(r"&self\b", sig) and label.startswith("State::"):
            how = "&"
        elif label == "Captured::with_state_mut" and re.search(r"FnOnce\(&mut State<", sig):
            how = "&mut"
        else:
            how = "other:" + sig[:60]
        creates = sorted({re.sub(r"\\[bsw]|\(\?[^)]*\)|[\\()\[\]?*+^]", "", rx)[:24] for rx in _CREATION if re.search(rx, body)})
        touches = "fuel_tracker" if re.search(r"\bfuel_tracker\b", body) else ""
        callees = sorted({c for rx, c in _NESTED_CALLEES if re.search(rx, body)})
        rows.append((label, how, "+".join(creates), touches, callees))
    lean = ("def nestedFns : List (String × String × String × String × List String) := [\n  "
            + ",\n  ".join(f"({lean_str(a)}, {lean_str(b)}, {lean_str(c)}, {lean_str(d)}, [" + ", ".join(lean_str(x) for x in e) + "])"
                           for a, b, c, d, e in rows) + "]")
    return rows, lean


# ------------------------------------------------------------------------------------------------
# where is output produced / are instructions executed?  (hypothesis of edge_consumption_adds_up:
# all work is done by instruction arms of the one dispatch loop, after the charge)
_WRITE_RX = [("write_str", r"\bout\.write_str\("), ("write!", r"\bwriteln?!\(\s*out\b"), ("write_escaped", r"\bwrite_escaped\(\s*out\b"),
             ("write_fmt", r"\bout\.write_(?:fmt|char)\("), ("env.format", r"\.format\([^;]*\bout\s*\)"), ("target()", r"\bout\.target\(\)")]
_EVALCALL_RX = r"(?<!fn )\b(eval_state|do_eval|eval_impl)\("
_FETCH_RX = r"\binstructions(?:\(\))?\s*\.get\(|\.get\(\s*pc\b"


def _arm_of(lines, idx, fn_start):
    """name of the `Instruction::X … =>` arm of eval_impl's dispatch that line idx belongs to"""
    arm_indent = None
    for j in range(fn_start, len(lines)):
        if re.search(r"\bmatch instr\s*\{", lines[j]):
            for k in range(j + 1, len(lines)):
                m = re.match(r"^(\s*)Instruction::\w+", lines[k])
                if m:
                    arm_indent = len(m.group(1))
                    break
            dispatch = j
            break
    else:
        return "-"
    if idx <= dispatch or arm_indent is None:
        return "-"
    for j in range(idx, dispatch, -1):
        m = re.match(r"^(\s*)Instruction::(\w+)", lines[j])
        if m and len(m.group(1)) == arm_indent:
            return m.group(2)
        m = re.match(r"^(\s*)_\s*=>", lines[j])
        if m and len(m.group(1)) == arm_indent:
            return "_"
    return "-"


@item("C13_OUTPUT_SITES")
def _output_sites(repo):
    files = sorted(glob.glob(os.path.join(repo, "minijinja/src/**/*.rs"), recursive=True))
    rows = []
    for path in files:
        rel = os.path.relpath(path, os.path.join(repo, "minijinja/src"))
        if rel.startswith("compiler/") or rel in ("verif_hooks.rs", "vm/fuel.rs"):
            continue  # the compiler builds instructions, fuel.rs prices them: neither executes them
        lines = _strip_comments(open(path, encoding="utf-8").read()).split("\n")
        for idx, line in enumerate(lines):
            if re.match(r"\s*(#\[|use\s)", line):
                continue
            kinds = []
            if rel == "vm/mod.rs":
                kinds += ["write:" + name for name, rx in _WRITE_RX if re.search(rx, line)]
            kinds += ["eval-call:" + m.group(1) for m in re.finditer(_EVALCALL_RX, line)]
            if re.search(_FETCH_RX, line):
                kinds.append("fetch")
            if not kinds and not re.search(r"\bInstruction::\w+", line):
                continue
            enc = _enclosing(lines, idx)
            arm = "-"
            if rel == "vm/mod.rs" and enc == "fn eval_impl":
                fn_start = max(j for j in range(idx + 1) if re.search(r"\bfn eval_impl\s*\(", lines[j]))
                arm = _arm_of(lines, idx, fn_start)
            if not kinds:
                # a pattern on an instruction outside the dispatch loop's arm headers
                if rel == "vm/mod.rs" and enc == "fn eval_impl":
                    continue
                kinds.append("instruction-pattern")
            for k in kinds:
                rows.append((rel, enc, arm, k))
    if not any(k.startswith("write:") for _, _, _, k in rows) or not any(k == "fetch" for _, _, _, k in rows):
        raise KeyError("no output write / instruction fetch found at all")
    rows.sort()
    lean = ("def outputSites : List (String × String × String × String) := [\n  "
            + ",\n  ".join(f"({lean_str(a)}, {lean_str(b)}, {lean_str(c)}, {lean_str(d)})" for a, b, c, d in rows) + "]")
    return rows, lean
