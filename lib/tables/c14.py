"""C14 table items: which instructions the code generator emits through `CodeGenerator::add`
(location taken from the current line / innermost span instead of an explicit span) and which
instructions can fail in the VM.  Their intersection is the set of sites whose error location
depends on the code generator's line bookkeeping; lib/props/c14.py requires every one of them to be
classified (own span pushed around it / planted failing case), so a new site breaks the tie."""
import re
from extract_tables import item, read, lean_str


def _call_args(src, start):
    """text of the parenthesised argument list starting at src[start] == '('"""
    depth, j = 0, start
    while j < len(src):
        if src[j] == "(":
            depth += 1
        elif src[j] == ")":
            depth -= 1
            if depth == 0:
                return src[start + 1:j]
        j += 1
    raise KeyError("unbalanced call")


def codegen_adds(repo):
    src = read(repo, "minijinja/src/compiler/codegen.rs")
    names = set()
    for m in re.finditer(r"self\.add\(", src):
        names.update(re.findall(r"Instruction::(\w+)", _call_args(src, m.end() - 1)))
    if len(names) < 20:
        raise KeyError("CodeGenerator::add call sites")
    return sorted(names)


def vm_fallible(repo):
    src = read(repo, "minijinja/src/vm/mod.rs")
    i = src.index("match instr {")
    arms = re.split(r"\n {16}(?=(?:#\[cfg[^\n]*\n {16})?Instruction::)", src[i:])
    out = set()
    for a in arms[1:]:
        a = re.sub(r"#\[cfg[^\n]*\n\s*", "", a, count=1)
        head = a.split("=>")[0]
        if re.search(r"ctx_ok!|bail!|assert_valid!|func_binop!|op_binop!|\bok!\(|recurse_loop!|undefined_behavior\.", a):
            out.update(re.findall(r"Instruction::(\w+)", head))
    if len(out) < 20:
        raise KeyError("fallible VM arms")
    return sorted(out)


@item("C14_CODEGEN_ADDS")
def _adds(repo):
    v = codegen_adds(repo)
    return v, "def c14CodegenAdds : List String := [" + ", ".join(lean_str(n) for n in v) + "]"


@item("C14_VM_FALLIBLE")
def _fallible(repo):
    v = vm_fallible(repo)
    return v, "def c14VmFallible : List String := [" + ", ".join(lean_str(n) for n in v) + "]"


# ---------------------------------------------------------------------------------------------------
# every fallible expression inside eval_impl's instruction arms and how its error leaves the loop
_PROP = ["ctx_ok", "bail", "assert_valid", "func_binop", "op_binop", "recurse_loop", "ok", "some"]


def _strip_comments(t):
    return re.sub(r"//[^\n]*", "", t)


def _macro_calls(text):
    """[(macro, callee)] for every propagation macro call, `?` and `return Err` in text (in order)"""
    rows = []
    for m in re.finditer(r"\b(" + "|".join(_PROP) + r")!\s*\(", text):
        arg = _call_args(text, m.end() - 1)
        callee = re.sub(r"\s+", "", arg).replace("()", "")
        callee = re.split(r"[(,]", callee, 1)[0][:60]
        rows.append((m.start(), m.group(1), callee))
    for m in re.finditer(r"\)\s*\?\s*[;.)\n]", text):
        rows.append((m.start(), "try", re.sub(r"\s+", "", text[max(0, m.start() - 40):m.start() + 1])[-40:]))
    for m in re.finditer(r"return\s+Err\s*\(", text):
        rows.append((m.start(), "return_err", re.sub(r"\s+", "", _call_args(text, m.end() - 1))[:40]))
    rows.sort()
    return [(a, b) for _, a, b in rows]


def vm_rows(repo):
    src = read(repo, "minijinja/src/vm/mod.rs")
    start = src.index("fn eval_impl(")
    i = src.index("match instr {", start)
    head = _strip_comments(src[start:i])
    rows = []
    # helper macros defined inside eval_impl: what they expand to
    for m in re.finditer(r"macro_rules!\s*(\w+)\s*\{", head):
        body = fn_body_at(head, m.end() - 1)
        name = m.group(1)
        for mac, callee in _macro_calls(body):
            rows.append(("macro:" + name, "", mac, callee))
        if "process_err(&mut err, pc, state)" in re.sub(r"\s+", " ", body):
            rows.append(("macro:" + name, "", "calls", "process_err"))
    # whatever runs for every instruction before the dispatch (fuel)
    pre = head[head.rindex("macro_rules!"):]
    pre = pre[pre.index("}") :]
    last_macro_end = max(m.end() for m in re.finditer(r"macro_rules!\s*\w+\s*\{", head))
    tail = head[last_macro_end:]
    tail = tail[len(fn_body_at(head, last_macro_end - 1)) + 1:]
    for mac, callee in _macro_calls(tail):
        rows.append(("pre", "", mac, callee))
    # the arms
    body = src[i:]
    end = body.index("\n            }\n")          # end of `match instr`
    body = _strip_comments(body[:end])
    arms = re.split(r"\n {16}(?=(?:#\[cfg[^\n]*\n {16})?Instruction::)", body)
    seen_instr = set()
    for a in arms[1:]:
        a = re.sub(r"^#\[cfg[^\n]*\n\s*", "", a)
        headpart, _, rest = a.partition("=>")
        names = re.findall(r"Instruction::(\w+)", headpart)
        # sub-arms of the comparison chain
        pieces = re.split(r"(CompareOp::\w+(?:\s*\|\s*CompareOp::\w+)*\s*=>)", rest)
        sub = ""
        for piece in pieces:
            mm = re.match(r"(CompareOp::\w+(?:\s*\|\s*CompareOp::\w+)*)\s*=>", piece)
            if mm:
                sub = "|".join(re.findall(r"CompareOp::(\w+)", mm.group(1)))
                continue
            for mac, callee in _macro_calls(piece):
                for n in names:
                    rows.append((n, sub, mac, callee))
        seen_instr.update(names)
    if len(seen_instr) < 50 or not any(r[0] == "macro:bail" and r[2] == "calls" for r in rows):
        raise KeyError("eval_impl arms / bail macro")
    return rows


def fn_body_at(src, brace_index):
    depth, j = 0, brace_index
    while j < len(src):
        if src[j] == "{":
            depth += 1
        elif src[j] == "}":
            depth -= 1
            if depth == 0:
                return src[brace_index + 1:j]
        j += 1
    raise KeyError("unbalanced braces")


@item("C14_VM_ROWS")
def _rows(repo):
    rows = vm_rows(repo)
    # repeated rows of one arm are numbered (`callee#2`) so that each fallible call is a row of its own
    uniq, seen = [], {}
    for r in rows:
        k = seen[r] = seen.get(r, 0) + 1
        uniq.append(r if k == 1 else (r[0], r[1], r[2], f"{r[3]}#{k}"))
    lean = ("def c14VmRows : List (String × String × String × String) := [\n  "
            + ",\n  ".join("(" + ", ".join(lean_str(x) for x in r) + ")" for r in uniq) + "]")
    return [list(r) for r in uniq], lean


@item("C14_LOC_WIDTHS")
def _widths(repo):
    lex = read(repo, "minijinja/src/compiler/lexer.rs")
    tok = read(repo, "minijinja/src/compiler/tokens.rs")
    ins = read(repo, "minijinja/src/compiler/instructions.rs")
    def bits(src, pat):
        m = re.search(pat, src)
        if not m:
            raise KeyError(pat)
        return int(m.group(1))
    w = {
        "line": bits(lex, r"current_line:\s*u(\d+),"),
        "col": bits(lex, r"current_col:\s*u(\d+),"),
        "span_line": bits(tok, r"pub start_line:\s*u(\d+),"),
        "span_col": bits(tok, r"pub start_col:\s*u(\d+),"),
        "span_offset": bits(tok, r"pub start_offset:\s*u(\d+),"),
        "first_instruction": bits(ins, r"first_instruction:\s*u(\d+),"),
        "table_line": bits(ins, r"struct LineInfo\s*\{[^}]*line:\s*u(\d+),"),
    }
    if not re.search(r"self\.current_line\s*=\s*self\.current_line\.saturating_add\(1\)", lex) or \
       not re.search(r"self\.current_col\s*=\s*self\.current_col\.saturating_add\(1\)", lex):
        raise KeyError("saturating line/column counters in Tokenizer::advance")
    lean = "\n".join(f"def c14Bits_{k} : Nat := {v}" for k, v in w.items())
    return w, lean


# ---------------------------------------------------------------------------------------------------
# parser.rs: every `Spanned::new(node, span)` — which parse function builds which AST node, where the
# START of the span comes from (current_span() at entry = first token of the construct; the span of a
# token just consumed; a parameter; last_span() = the token in FRONT of the construct) and whether the
# end is expanded to the last token consumed (`expand_span`)
def _split_args(text):
    out, depth, cur = [], 0, ""
    for ch in text:
        if ch in "([{":
            depth += 1
        elif ch in ")]}":
            depth -= 1
        if ch == "," and depth == 0:
            out.append(cur); cur = ""
        else:
            cur += ch
    if cur.strip():
        out.append(cur)
    return [a.strip() for a in out]


def _enclosing(src, pos):
    """name of the innermost `fn` / `macro_rules!` whose text contains pos, and the offset of its body"""
    best = None
    for m in re.finditer(r"(?:fn\s+(\w+)\s*(?:<[^>]*>)?\s*\(|(?m:^)macro_rules!\s*(\w+)\s*\{)", src[:pos]):
        best = (m.group(1) or (m.group(2) + "!"), m.start())
    return best


def parser_spans(repo):
    src = _strip_comments(read(repo, "minijinja/src/compiler/parser.rs"))
    rows = []
    for m in re.finditer(r"Spanned::new\(", src):
        args = _split_args(_call_args(src, m.end() - 1))
        if len(args) != 2:
            raise KeyError("Spanned::new arity")
        node, span = args
        cm = re.search(r"ast::(\w+)", node)
        ctor = cm.group(1) if cm else {"$expr": "Stmt", "macro_decl": "Macro"}.get(node, "IfCond" if "parse_if_cond" in node else re.sub(r"\W+", "", node)[:20])
        fn, fstart = _enclosing(src, m.start())
        em = re.match(r"self\.stream\.expand_span\((\w+)\)$", span)
        var = em.group(1) if em else span
        end = "expand" if em else "own"
        body = src[fstart:m.start()]
        # the last definition of the variable in front of the site
        defs = []
        for d in re.finditer(r"(?:let\s+(?:mut\s+)?)?\b%s\s*=\s*self\.stream\.(current_span|last_span)\(\)" % re.escape(var), body):
            defs.append((d.start(), d.group(1)))
        for d in re.finditer(r"let\s*\(([^)]*)\)\s*=\s*(?:ok!\()?\s*(expect_token!|self\.parse_filter_test_name)", body):
            if re.search(r"\b%s\b" % re.escape(var), d.group(1)):
                defs.append((d.start(), "token" if d.group(2) == "expect_token!" else "name_token"))
        for d in re.finditer(r"Some\(\((?:[^()]|\([^()]*\))*,\s*%s\)\)" % re.escape(var), body):
            defs.append((d.start(), "token"))
        for d in re.finditer(r"\b(?:mut\s+)?%s:\s*Span\b" % re.escape(var), body):
            defs.append((d.start(), "param"))
        for d in re.finditer(r"\b%s\s*=\s*(\w+);" % re.escape(var), body):
            defs.append((d.start(), "reassigned:" + d.group(1)))
        if var.startswith("$") or fn == "parse_stmt_unprotected":
            defs.append((0, "token"))
        # only definitions whose block is still open at the site are in scope
        def in_scope(p):
            d, low = 0, 0
            for ch in body[p:]:
                if ch == "{":
                    d += 1
                elif ch == "}":
                    d -= 1
                    low = min(low, d)
            return low >= 0
        defs = [x for x in defs if in_scope(x[0])]
        if not defs:
            raise KeyError(f"start of span `{var}` in {fn}")
        defs.sort()
        start = "+".join(dict.fromkeys(x for _, x in defs))
        rows.append((fn, ctor, start, end))
    if len(rows) < 25:
        raise KeyError("Spanned::new sites in parser.rs")
    return rows


@item("C14_PARSER_SPANS")
def _parser_spans(repo):
    rows = parser_spans(repo)
    lean = ("def c14ParserSpans : List (String × String × String × String) := [\n  "
            + ",\n  ".join("(" + ", ".join(lean_str(x) for x in r) + ")" for r in rows) + "]")
    return [list(r) for r in rows], lean


# ---------------------------------------------------------------------------------------------------
# codegen.rs: per function of `impl CodeGenerator`, in source order, every call that decides a location:
# add / add_with_span / the location-less `self.instructions.add` (with the instructions named in the call),
# set_line / set_line_from_span / push_span (with their argument) and pop_span
def codegen_arms(repo):
    src = _strip_comments(read(repo, "minijinja/src/compiler/codegen.rs"))
    src = src[src.index("impl<'source> CodeGenerator<'source>"):]
    rows = []
    pat = re.compile(r"(?:self|sub)\.(instructions\.add_with_span|instructions\.add_with_line|instructions\.add|add_with_span|add|set_line_from_span|set_line|push_span|pop_span)\(")
    for m in pat.finditer(src):
        fn, _ = _enclosing(src, m.start())
        args = _call_args(src, m.end() - 1)
        what = m.group(1)
        if what in ("add", "add_with_span", "instructions.add", "instructions.add_with_span", "instructions.add_with_line"):
            names = re.findall(r"Instruction::(\w+)", args)
            sp = ""
            if "with_span" in what or "with_line" in what:
                sp = re.sub(r"\s+", "", _split_args(args)[-1])
            arg = "|".join(names) if names else re.sub(r"\s+", "", args)[:30]
            arg = arg + ("@" + sp if sp else "")
        else:
            arg = re.sub(r"\s+", "", args)
        rows.append((fn, what, arg))
    if len(rows) < 150:
        raise KeyError("location calls in codegen.rs")
    return rows


@item("C14_CODEGEN_ARMS")
def _codegen_arms(repo):
    rows = codegen_arms(repo)
    lean = ("def c14CodegenArms : List (String × String × String) := [\n  "
            + ",\n  ".join("(" + ", ".join(lean_str(x) for x in r) + ")" for r in rows) + "]")
    return [list(r) for r in rows], lean


# ---------------------------------------------------------------------------------------------------
# codegen.rs: every call that takes a span (push_span, set_line_from_span, add_with_span) with WHAT span it is
# handed: `node` = `<path>.span()` of an AST node of the arm at hand, `param` = the `span` parameter of a
# helper, `stack` = the innermost pushed span (`*span` inside `CodeGenerator::add`), anything else verbatim
def codegen_span_args(repo):
    rows = []
    for fn, what, arg in codegen_arms(repo):
        if what in ("push_span", "set_line_from_span"):
            sp, names = arg, ""
        elif what in ("add_with_span", "instructions.add_with_span"):
            names, _, sp = arg.rpartition("@")
        else:
            continue
        if re.fullmatch(r"[a-z_][\w.]*\.span\(\)", sp):
            kind = "node"
        elif sp == "span":
            kind = "param"
        elif sp == "*span":
            kind = "stack"
        else:
            kind = "other:" + sp
        rows.append((fn, what, names, sp, kind))
    if len(rows) < 40:
        raise KeyError("span-taking calls in codegen.rs")
    return rows


@item("C14_CODEGEN_SPAN_ARGS")
def _codegen_span_args(repo):
    rows = codegen_span_args(repo)
    lean = ("def c14CodegenSpanArgs : List (String × String × String × String × String) := [\n  "
            + ",\n  ".join("(" + ", ".join(lean_str(x) for x in r) + ")" for r in rows) + "]")
    return [list(r) for r in rows], lean
