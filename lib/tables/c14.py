"""C14 table items: which instructions the code generator emits through `CodeGenerator::add`
(location taken from the current line / innermost span instead of an explicit span) and which
instructions can fail in the VM.  Their intersection is the set of sites whose error location
depends on the code generator's line bookkeeping; lib/props/c14.py requires every one of them to be
classified (own span pushed around it / planted failing case), so a new site breaks the tie."""
import re
from extract_tables import item, read, lean_str


def _call_args(src, start):
    """text of the parenthesised argument list starting at src[start] == '('"""
    depth, j = 0, start
    while j < len(src):
        if src[j] == "(":
            depth += 1
        elif src[j] == ")":
            depth -= 1
            if depth == 0:
                return src[start + 1:j]
        j += 1
    raise KeyError("unbalanced call")


def codegen_adds(repo):
    src = read(repo, "minijinja/src/compiler/codegen.rs")
    names = set()
    for m in re.finditer(r"self\.add\(", src):
        names.update(re.findall(r"Instruction::(\w+)", _call_args(src, m.end() - 1)))
    if len(names) < 20:
        raise KeyError("CodeGenerator::add call sites")
    return sorted(names)


def vm_fallible(repo):
    src = read(repo, "minijinja/src/vm/mod.rs")
    i = src.index("match instr {")
    arms = re.split(r"\n {16}(?=(?:#\[cfg[^\n]*\n {16})?Instruction::)", src[i:])
    out = set()
    for a in arms[1:]:
        a = re.sub(r"#\[cfg[^\n]*\n\s*", "", a, count=1)
        head = a.split("=>")[0]
        if re.search(r"ctx_ok!|bail!|assert_valid!|func_binop!|op_binop!|\bok!\(|recurse_loop!|undefined_behavior\.", a):
            out.update(re.findall(r"Instruction::(\w+)", head))
    if len(out) < 20:
        raise KeyError("fallible VM arms")
    return sorted(out)


@item("C14_CODEGEN_ADDS")
def _adds(repo):
    v = codegen_adds(repo)
    return v, "def c14CodegenAdds : List String := [" + ", ".join(lean_str(n) for n in v) + "]"


@item("C14_VM_FALLIBLE")
def _fallible(repo):
    v = vm_fallible(repo)
    return v, "def c14VmFallible : List String := [" + ", ".join(lean_str(n) for n in v) + "]"
