"""C08 table items: source facts the Lean model of the numeric operators duplicates.

* `negSpecialU128`  - the constant `ops::neg` special-cases (`MIN_I128_AS_POS_U128`);
* `intOpMethods`    - for each integer operator of ops.rs the overflow-aware `i128` methods its body
                      calls (`checked_add`, ...; `sub` comes from the `math_binop!` invocation);
* `lexRadixPrefixes` - the radix prefixes `Tokenizer::eat_number` recognises, with their radix;
* `lexIntParsers`   - the integer parsing calls of `eat_number` in source order (u64 fast path, u128
                      fallback, each with the radix argument).
A change of any of these makes the tie theorems in MJ/Props/C08.lean fail to build.
"""
import re
from extract_tables import item, read, const, fn_body, lean_str

OPS = "minijinja/src/value/ops.rs"
LEXER = "minijinja/src/compiler/lexer.rs"
_METHOD = re.compile(r"\.\s*((?:checked|wrapping|saturating|overflowing|unchecked|strict)_\w+)\s*\(")


def _strip_comments(src):
    return re.sub(r"//[^\n]*", "", src)


@item("C08_NEG_SPECIAL")
def _neg_special(repo):
    v = const(read(repo, OPS), "MIN_I128_AS_POS_U128")
    return v, f"def negSpecialU128 : Nat := {v}"


@item("C08_INT_METHODS")
def _int_methods(repo):
    src = _strip_comments(read(repo, OPS))
    rows = []
    for fn in ("add", "mul", "int_div", "rem", "pow", "neg"):
        body = fn_body(src, r"pub fn %s\s*\([^)]*\)\s*->\s*Result<Value,\s*Error>\s*\{" % fn)
        ms = []
        for m in _METHOD.finditer(body):
            if m.group(1) not in ms:
                ms.append(m.group(1))
        if not ms:
            raise KeyError(f"no overflow-aware integer method in ops::{fn}")
        rows.append((fn, ms))
    for m in re.finditer(r"math_binop!\(\s*(\w+)\s*,\s*(\w+)\s*,", src):
        rows.append((m.group(1), [m.group(2)]))
    mac = fn_body(src, r"macro_rules!\s*math_binop\s*\{")
    if not re.search(r"a\s*\.\s*\$int\s*\(\s*b\s*\)", mac):
        raise KeyError("math_binop! no longer applies `a.$int(b)`")
    rows.sort()
    lean = ("def intOpMethods : List (String × List String) := ["
            + ", ".join("(%s, [%s])" % (lean_str(f), ", ".join(lean_str(x) for x in ms)) for f, ms in rows) + "]")
    return rows, lean


@item("C08_LEX_RADIX")
def _lex_radix(repo):
    src = _strip_comments(read(repo, LEXER))
    body = fn_body(src, r"fn eat_number\s*\(&mut self\)[^{]*\{")
    rows = []
    for m in re.finditer(r'Some\(\s*((?:b"[^"]*"\s*\|?\s*)+)\)\s*=>\s*(\d+)\s*,', body):
        for p in re.findall(r'b"([^"]*)"', m.group(1)):
            rows.append((p, int(m.group(2))))
    if not rows:
        raise KeyError("radix prefixes of eat_number")
    d = re.search(r"_\s*=>\s*(\d+)\s*,\s*\}\s*;", body)
    if not d:
        raise KeyError("default radix of eat_number")
    calls = re.findall(r"\b(u64|u128|i64|i128)::from_str_radix\(\s*&num\s*,\s*(\w+)\s*\)", body)
    others = re.findall(r"num\s*\.\s*parse\s*(?:::<\s*(\w+)\s*>)?\s*\(\s*\)\s*\.\s*map\(\s*Token::(\w+)", body)
    if not calls:
        raise KeyError("integer parsing calls of eat_number")
    lean = ("def lexRadixPrefixes : List (String × Nat) := ["
            + ", ".join(f"({lean_str(p)}, {r})" for p, r in rows) + "]\n"
            + f"def lexDefaultRadix : Nat := {int(d.group(1))}\n"
            + "def lexIntParsers : List (String × String) := ["
            + ", ".join(f"({lean_str(t)}, {lean_str(a)})" for t, a in calls) + "]\n"
            + "def lexPlainParsers : List String := [" + ", ".join(lean_str(t) for _, t in others) + "]")
    return {"prefixes": rows, "default": int(d.group(1)), "int_parsers": calls, "plain_parsers": others}, lean
