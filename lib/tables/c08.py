"""C08 table items: source facts the Lean model of the numeric operators duplicates.

* `negSpecialU128`  - the constant `ops::neg` special-cases (`MIN_I128_AS_POS_U128`);
* `intOpMethods`    - for each integer operator of ops.rs the overflow-aware `i128` methods its body
                      calls (`checked_add`, ...; `sub` comes from the `math_binop!` invocation);
* `lexRadixPrefixes` - the radix prefixes `Tokenizer::eat_number` recognises, with their radix;
* `lexIntParsers`   - the integer parsing calls of `eat_number` in source order (u64 fast path, u128
                      fallback, each with the radix argument).
A change of any of these makes the tie theorems in MJ/Props/C08.lean fail to build.
"""
import re
from extract_tables import item, read, const, fn_body, lean_str

OPS = "minijinja/src/value/ops.rs"
LEXER = "minijinja/src/compiler/lexer.rs"
_METHOD = re.compile(r"\.\s*((?:checked|wrapping|saturating|overflowing|unchecked|strict)_\w+)\s*\(")


def _strip_comments(src):
    return re.sub(r"//[^\n]*", "", src)


@item("C08_NEG_SPECIAL")
def _neg_special(repo):
    v = const(read(repo, OPS), "MIN_I128_AS_POS_U128")
    return v, f"def negSpecialU128 : Nat := {v}"


@item("C08_INT_METHODS")
def _int_methods(repo):
    src = _strip_comments(read(repo, OPS))
    rows = []
    for fn in ("add", "mul", "int_div", "rem", "pow", "neg"):
        body = fn_body(src, r"pub fn %s\s*\([^)]*\)\s*->\s*Result<Value,\s*Error>\s*\{" % fn)
        ms = []
        for m in _METHOD.finditer(body):
            if m.group(1) not in ms:
                ms.append(m.group(1))
        if not ms:
            raise KeyError(f"no overflow-aware integer method in ops::{fn}")
        rows.append((fn, ms))
    for m in re.finditer(r"math_binop!\(\s*(\w+)\s*,\s*(\w+)\s*,", src):
        rows.append((m.group(1), [m.group(2)]))
    mac = fn_body(src, r"macro_rules!\s*math_binop\s*\{")
    if not re.search(r"a\s*\.\s*\$int\s*\(\s*b\s*\)", mac):
        raise KeyError("math_binop! no longer applies `a.$int(b)`")
    rows.sort()
    lean = ("def intOpMethods : List (String × List String) := ["
            + ", ".join("(%s, [%s])" % (lean_str(f), ", ".join(lean_str(x) for x in ms)) for f, ms in rows) + "]")
    return rows, lean


@item("C08_LEX_RADIX")
def _lex_radix(repo):
    src = _strip_comments(read(repo, LEXER))
    body = fn_body(src, r"fn eat_number\s*\(&mut self\)[^{]*\{")
    rows = []
    for m in re.finditer(r'Some\(\s*((?:b"[^"]*"\s*\|?\s*)+)\)\s*=>\s*(\d+)\s*,', body):
        for p in re.findall(r'b"([^"]*)"', m.group(1)):
            rows.append((p, int(m.group(2))))
    if not rows:
        raise KeyError("radix prefixes of eat_number")
    d = re.search(r"_\s*=>\s*(\d+)\s*,\s*\}\s*;", body)
    if not d:
        raise KeyError("default radix of eat_number")
    calls = re.findall(r"\b(u64|u128|i64|i128)::from_str_radix\(\s*&num\s*,\s*(\w+)\s*\)", body)
    others = re.findall(r"num\s*\.\s*parse\s*(?:::<\s*(\w+)\s*>)?\s*\(\s*\)\s*\.\s*map\(\s*Token::(\w+)", body)
    if not calls:
        raise KeyError("integer parsing calls of eat_number")
    lean = ("def lexRadixPrefixes : List (String × Nat) := ["
            + ", ".join(f"({lean_str(p)}, {r})" for p, r in rows) + "]\n"
            + f"def lexDefaultRadix : Nat := {int(d.group(1))}\n"
            + "def lexIntParsers : List (String × String) := ["
            + ", ".join(f"({lean_str(t)}, {lean_str(a)})" for t, a in calls) + "]\n"
            + "def lexPlainParsers : List String := [" + ", ".join(lean_str(t) for _, t in others) + "]")
    return {"prefixes": rows, "default": int(d.group(1)), "int_parsers": calls, "plain_parsers": others}, lean


# ------------------------------------------------------------------------------------------------
# every place a comparison operator is implemented: which Rust operator each arm applies
_CMP_TXT = r"(==|!=|<=|>=|<|>)"
_ARM = {"Eq": "eq", "Ne": "ne", "Lt": "lt", "Lte": "le", "Gt": "gt", "Gte": "ge"}


def _block_after(src, header_re):
    return fn_body(src, header_re)


@item("C08_COMPARE_ARMS")
def _compare_arms(repo):
    rows = []          # (implementation, arm, operator text)
    vm = _strip_comments(read(repo, "minijinja/src/vm/mod.rs"))
    # 1. the plain comparison instructions: `Instruction::Lt => op_binop!(<),`
    found = re.findall(r"Instruction::(Eq|Ne|Lt|Lte|Gt|Gte)\s*=>\s*op_binop!\(\s*%s\s*\)" % _CMP_TXT, vm)
    if len(found) != 6:
        raise KeyError("op_binop! arms of the six comparison instructions")
    mac = fn_body(vm, r"macro_rules!\s*op_binop\s*\{")
    if not re.search(r"Value::from\(\s*a\s+\$op\s+b\s*\)", mac):
        raise KeyError("op_binop! no longer computes `a $op b`")
    rows += [("vm:instruction", _ARM[a], t) for a, t in found]
    # 2. `Instruction::CompareAndPreserve(op)`: non-final links of a chained comparison
    body = _block_after(vm, r"Instruction::CompareAndPreserve\(\s*op\s*\)\s*=>\s*\{")
    inner = fn_body(body, r"let\s+result\s*=\s*match\s+op\s*\{")
    for arm in ("Eq", "Ne", "Lt", "Lte", "Gt", "Gte"):
        blk = fn_body(inner, r"CompareOp::%s\s*=>\s*\{" % arm)
        blk = re.sub(r"ctx_ok!\((?:[^()]|\([^()]*\))*\)\s*;", "", blk).strip()
        m = re.fullmatch(r"a\s*%s\s*b" % _CMP_TXT, blk)
        if not m:
            raise KeyError(f"CompareAndPreserve arm {arm} is not a plain `a OP b`: `{blk[:60]}`")
        rows.append(("vm:compare_and_preserve", _ARM[arm], m.group(1)))
    if not re.search(r"stack\.push\(b\);\s*stack\.push\(Value::from\(result\)\);", body):
        raise KeyError("CompareAndPreserve no longer preserves the right operand below the result")
    # 3. constant folding in ast.rs: eval_compare (chains) and eval_binop (single comparisons)
    ast = _strip_comments(read(repo, "minijinja/src/compiler/ast.rs"))
    for fn, enum, impl in (("eval_compare", "CompareOpKind", "ast:eval_compare"), ("eval_binop", "BinOpKind", "ast:eval_binop")):
        b = fn_body(ast, r"fn %s\s*\([^)]*\)\s*->\s*Option<Value>\s*\{" % fn)
        got = re.findall(r"%s::(Eq|Ne|Lt|Lte|Gt|Gte)\s*=>\s*Some\(Value::from\(\s*left\s*%s\s*right\s*\)\)" % (enum, _CMP_TXT), b)
        if len(got) != 6:
            raise KeyError(f"comparison arms of ast::{fn}")
        rows += [(impl, _ARM[a], t) for a, t in got]
    # 4. the tests `is eq/ne/lt/le/gt/ge`
    tests = _strip_comments(read(repo, "minijinja/src/tests.rs"))
    for name in ("eq", "ne", "lt", "le", "gt", "ge"):
        b = fn_body(tests, r"pub fn is_%s\s*\(\s*value:\s*&Value,\s*other:\s*&Value\s*\)\s*->\s*bool\s*\{" % name)
        m = re.fullmatch(r"\s*\*value\s*%s\s*\*other\s*" % _CMP_TXT, b)
        if not m:
            raise KeyError(f"tests::is_{name} is not a plain `*value OP *other`")
        rows.append(("tests:is", name, m.group(1)))
    # 5. names under which those tests are registered
    dfl = _strip_comments(read(repo, "minijinja/src/defaults.rs"))
    names = []
    for name in ("eq", "ne", "lt", "le", "gt", "ge"):
        if not re.search(r"let\s+is_%s\s*=\s*Value::from_function\(tests::is_%s\)" % (name, name), dfl):
            raise KeyError(f"registration of tests::is_{name}")
        for m in re.finditer(r'rv\.insert\("([^"]+)"\.into\(\),\s*is_%s(?:\.clone\(\))?\)' % name, dfl):
            names.append((m.group(1), name))
    # 6. the code generator: final link -> plain instruction, other links -> CompareAndPreserve
    cg = _strip_comments(read(repo, "minijinja/src/compiler/codegen.rs"))
    cc = fn_body(cg, r"fn compile_compare\s*\(")
    shape = bool(re.search(r"if\s+idx\s*\+\s*1\s*==\s*c\.ops\.len\(\)\s*\{\s*self\.emit_compare\(op\.op\);\s*\}\s*else\s*\{\s*"
                           r"self\.add\(Instruction::CompareAndPreserve\(compare_op\(op\.op\)\)\);\s*"
                           r"cleanup_jumps\.push\(self\.add\(Instruction::JumpIfFalseOrPop\(", cc))
    if not shape:
        raise KeyError("compile_compare: final link emit_compare / other links CompareAndPreserve + JumpIfFalseOrPop")
    lean = ("def compareArms : List (String × String × String) := ["
            + ", ".join(f"({lean_str(i)}, {lean_str(a)}, {lean_str(t)})" for i, a, t in rows) + "]\n"
            + "def compareTestNames : List (String × String) := ["
            + ", ".join(f"({lean_str(n)}, {lean_str(a)})" for n, a in names) + "]")
    return {"arms": rows, "test_names": names}, lean
