"""C08 table items: source facts the Lean model of the numeric operators duplicates.

* `negSpecialU128`  - the constant `ops::neg` special-cases (`MIN_I128_AS_POS_U128`);
* `intOpMethods`    - for each integer operator of ops.rs the overflow-aware `i128` methods its body
                      calls (`checked_add`, ...; `sub` comes from the `math_binop!` invocation);
* `lexRadixPrefixes` - the radix prefixes `Tokenizer::eat_number` recognises, with their radix;
* `lexIntParsers`   - the integer parsing calls of `eat_number` in source order (u64 fast path, u128
                      fallback, each with the radix argument).
A change of any of these makes the tie theorems in MJ/Props/C08.lean fail to build.
"""
import re
from extract_tables import item, read, const, fn_body, lean_str

OPS = "minijinja/src/value/ops.rs"
LEXER = "minijinja/src/compiler/lexer.rs"
_METHOD = re.compile(r"\.\s*((?:checked|wrapping|saturating|overflowing|unchecked|strict)_\w+)\s*\(")


def _strip_comments(src):
    return re.sub(r"//[^\n]*", "", src)


@item("C08_NEG_SPECIAL")
def _neg_special(repo):
    v = const(read(repo, OPS), "MIN_I128_AS_POS_U128")
    return v, f"def negSpecialU128 : Nat := {v}"


@item("C08_INT_METHODS")
def _int_methods(repo):
    src = _strip_comments(read(repo, OPS))
    rows = []
    for fn in ("add", "mul", "int_div", "rem", "pow", "neg"):
        body = fn_body(src, r"pub fn %s\s*\([^)]*\)\s*->\s*Result<Value,\s*Error>\s*\{" % fn)
        ms = []
        for m in _METHOD.finditer(body):
            if m.group(1) not in ms:
                ms.append(m.group(1))
        if not ms:
            raise KeyError(f"no overflow-aware integer method in ops::{fn}")
        rows.append((fn, ms))
    for m in re.finditer(r"math_binop!\(\s*(\w+)\s*,\s*(\w+)\s*,", src):
        rows.append((m.group(1), [m.group(2)]))
    mac = fn_body(src, r"macro_rules!\s*math_binop\s*\{")
    if not re.search(r"a\s*\.\s*\$int\s*\(\s*b\s*\)", mac):
        raise KeyError("math_binop! no longer applies `a.$int(b)`")
    rows.sort()
    lean = ("def intOpMethods : List (String × List String) := ["
            + ", ".join("(%s, [%s])" % (lean_str(f), ", ".join(lean_str(x) for x in ms)) for f, ms in rows) + "]")
    return rows, lean


@item("C08_LEX_RADIX")
def _lex_radix(repo):
    src = _strip_comments(read(repo, LEXER))
    body = fn_body(src, r"fn eat_number\s*\(&mut self\)[^{]*\{")
    rows = []
    for m in re.finditer(r'Some\(\s*((?:b"[^"]*"\s*\|?\s*)+)\)\s*=>\s*(\d+)\s*,', body):
        for p in re.findall(r'b"([^"]*)"', m.group(1)):
            rows.append((p, int(m.group(2))))
    if not rows:
        raise KeyError("radix prefixes of eat_number")
    d = re.search(r"_\s*=>\s*(\d+)\s*,\s*\}\s*;", body)
    if not d:
        raise KeyError("default radix of eat_number")
    calls = re.findall(r"\b(u64|u128|i64|i128)::from_str_radix\(\s*&num\s*,\s*(\w+)\s*\)", body)
    others = re.findall(r"num\s*\.\s*parse\s*(?:::<\s*(\w+)\s*>)?\s*\(\s*\)\s*\.\s*map\(\s*Token::(\w+)", body)
    if not calls:
        raise KeyError("integer parsing calls of eat_number")
    lean = ("def lexRadixPrefixes : List (String × Nat) := ["
            + ", ".join(f"({lean_str(p)}, {r})" for p, r in rows) + "]\n"
            + f"def lexDefaultRadix : Nat := {int(d.group(1))}\n"
            + "def lexIntParsers : List (String × String) := ["
            + ", ".join(f"({lean_str(t)}, {lean_str(a)})" for t, a in calls) + "]\n"
            + "def lexPlainParsers : List String := [" + ", ".join(lean_str(t) for _, t in others) + "]")
    return {"prefixes": rows, "default": int(d.group(1)), "int_parsers": calls, "plain_parsers": others}, lean


# ------------------------------------------------------------------------------------------------
# every place a comparison operator is implemented: which Rust operator each arm applies
_CMP_TXT = r"(==|!=|<=|>=|<|>)"
_ARM = {"Eq": "eq", "Ne": "ne", "Lt": "lt", "Lte": "le", "Gt": "gt", "Gte": "ge"}


def _block_after(src, header_re):
    return fn_body(src, header_re)


@item("C08_COMPARE_ARMS")
def _compare_arms(repo):
    rows = []          # (implementation, arm, operator text)
    vm = _strip_comments(read(repo, "minijinja/src/vm/mod.rs"))
    # 1. the plain comparison instructions: `Instruction::Lt => op_binop!(<),`
    found = re.findall(r"Instruction::(Eq|Ne|Lt|Lte|Gt|Gte)\s*=>\s*op_binop!\(\s*%s\s*\)" % _CMP_TXT, vm)
    if len(found) != 6:
        raise KeyError("op_binop! arms of the six comparison instructions")
    mac = fn_body(vm, r"macro_rules!\s*op_binop\s*\{")
    if not re.search(r"Value::from\(\s*a\s+\$op\s+b\s*\)", mac):
        raise KeyError("op_binop! no longer computes `a $op b`")
    rows += [("vm:instruction", _ARM[a], t) for a, t in found]
    # 2. `Instruction::CompareAndPreserve(op)`: non-final links of a chained comparison
    body = _block_after(vm, r"Instruction::CompareAndPreserve\(\s*op\s*\)\s*=>\s*\{")
    inner = fn_body(body, r"let\s+result\s*=\s*match\s+op\s*\{")
    for arm in ("Eq", "Ne", "Lt", "Lte", "Gt", "Gte"):
        blk = fn_body(inner, r"CompareOp::%s\s*=>\s*\{" % arm)
        blk = re.sub(r"ctx_ok!\((?:[^()]|\([^()]*\))*\)\s*;", "", blk).strip()
        m = re.fullmatch(r"a\s*%s\s*b" % _CMP_TXT, blk)
        if not m:
            raise KeyError(f"CompareAndPreserve arm {arm} is not a plain `a OP b`: `{blk[:60]}`")
        rows.append(("vm:compare_and_preserve", _ARM[arm], m.group(1)))
    if not re.search(r"stack\.push\(b\);\s*stack\.push\(Value::from\(result\)\);", body):
        raise KeyError("CompareAndPreserve no longer preserves the right operand below the result")
    # 3. constant folding in ast.rs: eval_compare (chains) and eval_binop (single comparisons)
    ast = _strip_comments(read(repo, "minijinja/src/compiler/ast.rs"))
    for fn, enum, impl in (("eval_compare", "CompareOpKind", "ast:eval_compare"), ("eval_binop", "BinOpKind", "ast:eval_binop")):
        b = fn_body(ast, r"fn %s\s*\([^)]*\)\s*->\s*Option<Value>\s*\{" % fn)
        got = re.findall(r"%s::(Eq|Ne|Lt|Lte|Gt|Gte)\s*=>\s*Some\(Value::from\(\s*left\s*%s\s*right\s*\)\)" % (enum, _CMP_TXT), b)
        if len(got) != 6:
            raise KeyError(f"comparison arms of ast::{fn}")
        rows += [(impl, _ARM[a], t) for a, t in got]
    # 4. the tests `is eq/ne/lt/le/gt/ge`
    tests = _strip_comments(read(repo, "minijinja/src/tests.rs"))
    for name in ("eq", "ne", "lt", "le", "gt", "ge"):
        b = fn_body(tests, r"pub fn is_%s\s*\(\s*value:\s*&Value,\s*other:\s*&Value\s*\)\s*->\s*bool\s*\{" % name)
        m = re.fullmatch(r"\s*\*value\s*%s\s*\*other\s*" % _CMP_TXT, b)
        if not m:
            raise KeyError(f"tests::is_{name} is not a plain `*value OP *other`")
        rows.append(("tests:is", name, m.group(1)))
    # 5. names under which those tests are registered
    dfl = _strip_comments(read(repo, "minijinja/src/defaults.rs"))
    names = []
    for name in ("eq", "ne", "lt", "le", "gt", "ge"):
        if not re.search(r"let\s+is_%s\s*=\s*Value::from_function\(tests::is_%s\)" % (name, name), dfl):
            raise KeyError(f"registration of tests::is_{name}")
        for m in re.finditer(r'rv\.insert\("([^"]+)"\.into\(\),\s*is_%s(?:\.clone\(\))?\)' % name, dfl):
            names.append((m.group(1), name))
    # 6. the code generator: final link -> plain instruction, other links -> CompareAndPreserve
    cg = _strip_comments(read(repo, "minijinja/src/compiler/codegen.rs"))
    cc = fn_body(cg, r"fn compile_compare\s*\(")
    shape = bool(re.search(r"if\s+idx\s*\+\s*1\s*==\s*c\.ops\.len\(\)\s*\{\s*self\.emit_compare\(op\.op\);\s*\}\s*else\s*\{\s*"
                           r"self\.add\(Instruction::CompareAndPreserve\(compare_op\(op\.op\)\)\);\s*"
                           r"cleanup_jumps\.push\(self\.add\(Instruction::JumpIfFalseOrPop\(", cc))
    if not shape:
        raise KeyError("compile_compare: final link emit_compare / other links CompareAndPreserve + JumpIfFalseOrPop")
    lean = ("def compareArms : List (String × String × String) := ["
            + ", ".join(f"({lean_str(i)}, {lean_str(a)}, {lean_str(t)})" for i, a, t in rows) + "]\n"
            + "def compareTestNames : List (String × String) := ["
            + ", ".join(f"({lean_str(n)}, {lean_str(a)})" for n, a in names) + "]")
    return {"arms": rows, "test_names": names}, lean


# ------------------------------------------------------------------------------------------------
# round 5: source facts behind the models of the tests odd / even / divisibleby, the int filter on
# strings, f64_to_int, the exponent conversion of ops::pow and the Bool arm of i128::try_from(Value)
@item("C08_FILTER_FACTS")
def _filter_facts(repo):
    tests = _strip_comments(read(repo, "minijinja/src/tests.rs"))
    facts = {}
    for name in ("odd", "even"):
        b = fn_body(tests, r"pub fn is_%s\s*\(\s*v:\s*Value\s*\)\s*->\s*bool\s*\{" % name)
        m = re.fullmatch(r"\s*i128::try_from\(v\)\.ok\(\)\.is_some_and\(\|x\|\s*x\s*%\s*2\s*(==|!=)\s*(\d+)\s*\)\s*", b)
        if not m:
            raise KeyError(f"tests::is_{name} is not `i128::try_from(v).ok().is_some_and(|x| x % 2 OP n)`")
        facts[name] = (m.group(1), int(m.group(2)))
    b = fn_body(tests, r"pub fn is_divisibleby\s*\([^)]*\)\s*->\s*bool\s*\{")
    m = re.search(r"match\s+coerce\(\s*v\s*,\s*other\s*,\s*(true|false)\s*\)", b)
    mi = re.search(r"CoerceResult::I128\(a,\s*b\)\)\s*=>\s*b\s*!=\s*0\s*&&\s*a\s*\.\s*(\w+)\(b\)\s*==\s*0\s*,", b)
    mf = re.search(r"CoerceResult::F64\(a,\s*b\)\)\s*=>\s*\(a\s*%\s*b\)\s*==\s*0\.0\s*,", b)
    if not (m and mi and mf):
        raise KeyError("tests::is_divisibleby: coerce(v, other, <lossy>) / integer arm / float arm")
    facts["divisibleby"] = (m.group(1), mi.group(1))
    filters = _strip_comments(read(repo, "minijinja/src/filters.rs"))
    f2i = fn_body(filters, r"fn f64_to_int\s*\(\s*v:\s*f64\s*\)\s*->\s*Result<Value,\s*Error>\s*\{")
    lim = re.search(r"const\s+LIMIT:\s*f64\s*=\s*(\d+)\.0\s*;", f2i)
    rng = re.search(r"if\s+truncated\s*(>=|>)\s*-LIMIT\s*&&\s*truncated\s*(<=|<)\s*LIMIT\s*\{\s*Ok\(Value::from\(truncated as i128\)\)", f2i)
    if not (lim and rng and re.search(r"let\s+truncated\s*=\s*v\.trunc\(\)\s*;", f2i)):
        raise KeyError("filters::f64_to_int: LIMIT / range test / truncation")
    intf = fn_body(filters, r"pub fn int\s*\(\s*state:\s*&State\s*,\s*value:\s*&Value\s*\)\s*->\s*Result<Value,\s*Error>\s*\{")
    sarm = intf[intf.index("ValueRepr::String(..) | ValueRepr::SmallStr(_) =>"):]
    steps = re.findall(r"s\.parse::<(\w+)>\(\)|(is_integer_literal)\(s\)", sarm)
    steps = [a or b for a, b in steps]
    lit = fn_body(filters, r"fn is_integer_literal\s*\(\s*s:\s*&str\s*\)\s*->\s*bool\s*\{")
    if not re.search(r"s\.strip_prefix\(\['\+',\s*'-'\]\)\.unwrap_or\(s\)", lit) or \
            not re.search(r"!digits\.is_empty\(\)\s*&&\s*digits\.bytes\(\)\.all\(\|b\|\s*b\.is_ascii_digit\(\)\)", lit):
        raise KeyError("filters::is_integer_literal: optional sign, then only ASCII digits")
    if not re.search(r"ValueRepr::Bool\(x\)\s*=>\s*Ok\(Value::from\(\*x as u64\)\)", intf):
        raise KeyError("filters::int on Bool")
    ops = _strip_comments(read(repo, OPS))
    powb = fn_body(ops, r"pub fn pow\s*\([^)]*\)\s*->\s*Result<Value,\s*Error>\s*\{")
    if not re.search(r"match\s+TryFrom::try_from\(b\)\.ok\(\)\.and_then\(\|b\|\s*a\.checked_pow\(b\)\)", powb):
        raise KeyError("ops::pow: exponent conversion `TryFrom::try_from(b).ok().and_then(|b| a.checked_pow(b))`")
    unit = re.search(r"None\s+if\s+b\s*>\s*0\s*&&\s*\(-1\.\.=1\)\.contains\(&a\)\s*=>\s*\{\s*Ok\(int_as_value\(if\s+b\s*%\s*2\s*==\s*0\s*\{\s*a\s*\*\s*a\s*\}\s*else\s*\{\s*a\s*\}\)\)", powb)
    if not unit:
        raise KeyError("ops::pow: arm for the bases 0, 1, -1 with an exponent beyond u32")
    arg = _strip_comments(read(repo, "minijinja/src/value/argtypes.rs"))
    mac = fn_body(arg, r"macro_rules!\s*primitive_int_try_from\s*\{")
    mb = re.search(r"ValueRepr::Bool\(val\)\s*=>\s*(val as \w+)\s*,", mac)
    mfl = re.search(r"ValueRepr::F64\(val\)\s*if\s*\(val as i64 as f64 == val && val < i64::MAX as f64\)\s*=>\s*val as i64\s*,", mac)
    if not (mb and mfl):
        raise KeyError("primitive_int_try_from!: Bool arm / float arm")
    negb = fn_body(ops, r"pub fn neg\s*\(\s*val:\s*&Value\s*\)\s*->\s*Result<Value,\s*Error>\s*\{")
    if not re.search(r"if\s+val\.kind\(\)\s*==\s*ValueKind::Number\s*\{", negb):
        raise KeyError("ops::neg: guarded by `val.kind() == ValueKind::Number`")
    lean = ("def oddEvenTests : List (String × String × Nat) := ["
            + ", ".join(f"({lean_str(n)}, {lean_str(facts[n][0])}, {facts[n][1]})" for n in ("odd", "even")) + "]\n"
            + f"def divisiblebyLossy : Bool := {facts['divisibleby'][0]}\n"
            + f"def divisiblebyIntMethod : String := {lean_str(facts['divisibleby'][1])}\n"
            + f"def f64ToIntLimit : Nat := {int(lim.group(1))}\n"
            + f"def f64ToIntRange : String × String := ({lean_str(rng.group(1))}, {lean_str(rng.group(2))})\n"
            + "def intFilterStringSteps : List String := [" + ", ".join(lean_str(x) for x in steps) + "]\n"
            + f"def boolAsInteger : String := {lean_str(mb.group(1))}")
    return {"tests": facts, "limit": int(lim.group(1)), "range": [rng.group(1), rng.group(2)], "steps": steps,
            "bool": mb.group(1)}, lean
