"""C15 table items: the structural facts of `loader.rs`, `environment.rs` and `vm/state.rs` the model
`MJ/Model/Store.lean` relies on, re-read from the source on every run.  `MJ.C15.source_tables_match_model`
compares them with what the model assumes, so that a change of these facts in the source stops the
proof build (broken tie) even when no differential stream happens to exercise it.

* c15Setters        every `pub fn set_*` of `Environment` with its class: `load` (writes
                    `self.templates.template_config…`: baked into templates at load time), `loader`
                    (`self.templates.set_loader`), `run` (a field of the environment read while rendering)
* c15TemplateConfig fields of `TemplateConfig` and `WhitespaceConfig` (= what "load-time configuration" is)
* c15InsertArms     per `insert_cow` arm the sequence of events compile / evict(other tier) / insert /
                    return(early) / lookup(an existing entry is consulted)
* c15GetOrder       `get`: borrowed map, then memo map, then loader, then compile
* c15RemoveTiers / c15ClearTiers   the tiers `remove` and `clear` touch
* c15StateId        how `State::new` obtains its id (`static-atomic-fetch_add` or something else)
* c15CloneDerives   `#[derive(Clone)]` on `Environment` and `LoaderStore`
"""
import re
from extract_tables import item, read, fn_body, lean_str

ENV = "minijinja/src/environment.rs"
LOADER = "minijinja/src/loader.rs"
TEMPLATE = "minijinja/src/template.rs"
STATE = "minijinja/src/vm/state.rs"
LEXER = "minijinja/src/compiler/lexer.rs"


def _nocomment(s):
    return re.sub(r"//.*", "", s)


def _lean_list(xs):
    return "[" + ", ".join(lean_str(x) for x in xs) + "]"


@item("C15_SETTERS")
def _setters(repo):
    src = read(repo, ENV)
    rows = []
    for m in re.finditer(r"pub fn (set_\w+)\s*(?:<[^>]*>)?\s*\(", src):
        body = _nocomment(fn_body(src[m.start():], r"pub fn set_\w+"))
        if "self.templates" in body and "template_config" in body:
            cls = "load"
        elif "self.templates" in body and "set_loader" in body:
            cls = "loader"
        elif "self.templates" in body:
            cls = "store?"
        else:
            cls = "run"
        rows.append((m.group(1), cls))
    if not rows:
        raise KeyError("Environment setters")
    lean = "def c15Setters : List (String × String) := [" + ", ".join(
        f"({lean_str(a)}, {lean_str(b)})" for a, b in rows) + "]"
    return rows, lean


@item("C15_TEMPLATE_CONFIG")
def _template_config(repo):
    def fields(src, header):
        body = _nocomment(fn_body(src, header))
        body = re.sub(r"///.*", "", body)
        return re.findall(r"^\s*(?:pub(?:\([^)]*\))?\s+)?(\w+)\s*:", body, re.M)
    tc = fields(read(repo, TEMPLATE), r"pub struct TemplateConfig\s*\{")
    ws = fields(read(repo, LEXER), r"pub struct WhitespaceConfig\s*\{")
    if not tc or not ws:
        raise KeyError("TemplateConfig / WhitespaceConfig fields")
    lean = f"def c15TemplateConfig : List String := {_lean_list(tc)}\ndef c15WhitespaceConfig : List String := {_lean_list(ws)}"
    return {"TemplateConfig": tc, "WhitespaceConfig": ws}, lean


def _events(arm, own, other):
    """ordered event tags of one insert_cow arm; `own`/`other` = field names of the tiers"""
    ev = []
    pats = [
        (r"CompiledTemplate::new\s*\(|make_owned_template\s*\(", "compile"),
        (r"self\.%s\s*\.\s*remove\s*\(" % other, "evict"),
        (r"self\.%s\s*\.\s*(?:insert|replace)\s*\(" % own, "insert"),
        (r"\breturn\b", "return"),
        (r"self\.(?:%s|%s)\s*\.\s*(?:get|contains_key|get_mut|iter|keys)\s*\(" % (own, other), "lookup"),
        (r"self\.%s\s*\.\s*remove\s*\(" % own, "evict-own"),
        (r"self\.%s\s*\.\s*(?:insert|replace)\s*\(" % other, "insert-other"),
    ]
    found = []
    for pat, tag in pats:
        for m in re.finditer(pat, arm):
            found.append((m.start(), tag))
    # `ok!(X)` evaluates X where it stands; an insert whose argument contains the compile call
    # compiles first but only after the statements before it: positions are textual, which is the
    # evaluation order for the statement sequences used here, except that a call's arguments are
    # evaluated before the call — handled by ordering `compile` before an `insert` that encloses it.
    found.sort()
    ev = [t for _, t in found]
    for i in range(len(ev) - 1):
        if ev[i] == "insert" and ev[i + 1] == "compile":
            seg = arm[found[i][0]:found[i + 1][0]]
            if seg.count("(") > seg.count(")"):
                ev[i], ev[i + 1] = ev[i + 1], ev[i]
    return ev


@item("C15_INSERT_ARMS")
def _insert_arms(repo):
    src = read(repo, LOADER)
    body = _nocomment(fn_body(src, r"pub fn insert_cow\s*\("))
    inner = fn_body(body, r"match \(source, name\)\s*\{")
    m1 = re.search(r"\(Cow::Borrowed\(source\), Cow::Borrowed\(name\)\)\s*=>\s*\{", inner)
    m2 = re.search(r"\(source, name\)\s*=>\s*\{", inner)
    if not m1 or not m2:
        raise KeyError("insert_cow arms")
    arm1 = fn_body(inner[m1.start():], r"=>\s*\{")
    arm2 = fn_body(inner[m2.start():], r"=>\s*\{")
    a = _events(arm1, "borrowed_templates", "owned_templates")
    b = _events(arm2, "owned_templates", "borrowed_templates")
    lean = f"def c15InsertArms : List (List String) := [{_lean_list(a)}, {_lean_list(b)}]"
    return [a, b], lean


@item("C15_GET_ORDER")
def _get_order(repo):
    src = read(repo, LOADER)
    body = _nocomment(fn_body(src, r"pub fn get\s*\(&self, name: &str\)"))
    pats = [(r"self\.borrowed_templates\s*\.\s*get\s*\(", "borrowed"),
            (r"self\s*\.\s*owned_templates\s*\.\s*get_or_try_insert\s*\(", "memo"),
            (r"match self\.loader|self\.loader", "loader"),
            (r"make_owned_template\s*\(", "compile"),
            (r"new_not_found", "not-found")]
    found = []
    for pat, tag in pats:
        m = re.search(pat, body)
        if not m:
            raise KeyError(f"LoaderStore::get: {tag}")
        found.append((m.start(), tag))
    found.sort()
    order = [t for _, t in found]
    return order, f"def c15GetOrder : List String := {_lean_list(order)}"


@item("C15_REMOVE_CLEAR")
def _remove_clear(repo):
    src = read(repo, LOADER)
    rm = _nocomment(fn_body(src, r"pub fn remove\s*\(&mut self, name: &str\)"))
    cl = _nocomment(fn_body(src, r"pub fn clear\s*\(&mut self\)"))
    def tiers(body, method):
        out = sorted(set(re.findall(r"self\.(\w+_templates)\s*\.\s*%s\s*\(" % method, body)))
        cond = "conditional" if re.search(r"\bif\b|\bmatch\b|\?|&&|\|\|", body) else "unconditional"
        return out + [cond]
    r_, c_ = tiers(rm, "remove"), tiers(cl, "clear")
    lean = f"def c15RemoveTiers : List String := {_lean_list(r_)}\ndef c15ClearTiers : List String := {_lean_list(c_)}"
    return {"remove": r_, "clear": c_}, lean


@item("C15_STATE_ID")
def _state_id(repo):
    src = _nocomment(read(repo, STATE))
    tl_blocks = []
    for m in re.finditer(r"thread_local!\s*\{", src):
        tl_blocks.append(fn_body(src[m.start():], r"thread_local!\s*\{"))
    in_tl = any(re.search(r"\bSTATE_ID\b", b) for b in tl_blocks)
    decl = re.search(r"static\s+STATE_ID\s*:\s*([^=;]+)=", src)
    use = re.search(r"id\s*:\s*STATE_ID\s*\.\s*(\w+)\s*\(", src)
    if not decl or not use:
        raise KeyError("STATE_ID declaration / use in State::new")
    ty = re.sub(r"\s+", "", decl.group(1))
    kind = ("thread-local" if in_tl else "static") + ":" + ("atomic" if "Atomic" in ty else ty) + ":" + use.group(1)
    return kind, f"def c15StateId : String := {lean_str(kind)}"


@item("C15_CLONE_DERIVES")
def _clone_derives(repo):
    out = []
    for rel, pat, name in [(ENV, r"pub struct Environment<", "Environment"),
                           (LOADER, r"pub\(crate\) struct LoaderStore<", "LoaderStore")]:
        src = read(repo, rel)
        m = re.search(pat, src)
        if not m:
            raise KeyError(name)
        before = src[max(0, m.start() - 200):m.start()]
        attrs = re.findall(r"#\[derive\(([^)]*)\)\]\s*$", before.rstrip() + "\n", re.M)
        derived = bool(attrs) and "Clone" in [a.strip() for a in attrs[-1].split(",")]
        manual = bool(re.search(r"impl\s*(?:<[^>]*>)?\s*Clone\s+for\s+%s\b" % name, src))
        out.append(f"{name}:{'derive' if derived else ('manual' if manual else 'none')}")
    return out, f"def c15CloneDerives : List String := {_lean_list(out)}"


def _rs_files(repo, crate_src="minijinja/src"):
    import os
    base = os.path.join(repo, *crate_src.split("/"))
    out = []
    for d, _, fs in os.walk(base):
        for f in fs:
            if f.endswith(".rs"):
                rel = os.path.relpath(os.path.join(d, f), base)
                # the feature-gated verification hooks are ours, off by default, and hold counters only
                if rel == "verif_hooks.rs" or rel.startswith("vendor"):
                    continue
                out.append(rel)
    return sorted(out)


@item("C15_THREAD_LOCALS")
def _thread_locals(repo):
    """every `static NAME` declared inside a `thread_local!` block of the crate"""
    import os
    rows = []
    for rel in _rs_files(repo):
        src = _nocomment(read(repo, os.path.join("minijinja/src", rel)))
        for m in re.finditer(r"thread_local!\s*\{", src):
            body = fn_body(src[m.start():], r"thread_local!\s*\{")
            for name in re.findall(r"static\s+(?:mut\s+)?(\w+)\s*:", body):
                rows.append(f"{rel}:{name}")
    rows = sorted(set(rows))
    if not rows:
        raise KeyError("thread_local! blocks")
    return rows, f"def c15ThreadLocals : List String := {_lean_list(rows)}"


@item("C15_DROP_GUARDS")
def _drop_guards(repo):
    """every `impl Drop for X` of the crate whose body writes a cell/flag/thread-local (set/replace/
    store/with/borrow_mut): (type, normalised condition guarding the write, the write)"""
    import os
    rows = []
    for rel in _rs_files(repo):
        src = _nocomment(read(repo, os.path.join("minijinja/src", rel)))
        for m in re.finditer(r"impl(?:\s*<[^>]*>)?\s+Drop\s+for\s+(\w+)", src):
            if "macro_rules" in src[max(0, m.start() - 2000):m.start()] and "$" in src[m.start():m.start() + 200]:
                continue
            try:
                body = fn_body(src[m.start():], r"fn drop\s*\(\s*&mut self\s*\)")
            except KeyError:
                continue
            if not re.search(r"\.(?:set|replace|store|borrow_mut|with)\s*\(", body):
                continue
            norm = re.sub(r"\s+", " ", body).strip()
            mm = re.fullmatch(r"if (.+?) \{ (.+?) \}", norm)
            if mm:
                rows.append((m.group(1), mm.group(1).strip(), mm.group(2).strip()))
            else:
                rows.append((m.group(1), "?", norm))
    lean = "def c15DropGuards : List (String × String × String) := [" + ", ".join(
        f"({lean_str(a)}, {lean_str(b)}, {lean_str(c)})" for a, b, c in rows) + "]"
    return rows, lean


@item("C15_POOLS")
def _pools(repo):
    """the buffer pools of the code generator: (take function, clears?, recycle function, clears?)"""
    src = _nocomment(read(repo, "minijinja/src/compiler/codegen.rs"))
    rows = []
    for what in ("pending_block", "span_stack"):
        take, rec = f"take_{what}_buffer", f"recycle_{what}_buffer"
        tb = fn_body(src, r"fn %s\s*\(\)" % take)
        rb = fn_body(src, r"fn %s\s*\(" % rec)
        rows.append((take, bool(re.search(r"\bbuf\.clear\(\)", tb)), rec, bool(re.search(r"\bbuf\.clear\(\)", rb))))
    # the per-render pool of macro contexts (vm/mod.rs): a context is reset when taken and cleared
    # before EVERY push back
    vm = _nocomment(read(repo, "minijinja/src/vm/mod.rs"))
    ctxsrc = _nocomment(read(repo, "minijinja/src/vm/context.rs"))
    em = vm
    take_ok = bool(re.search(r"macro_context_pool\s*\.\s*pop\(\)[^;]*;\s*ctx\.reset_with_frame\(", em)) and \
        bool(re.search(r"self\.clear\(\)", fn_body(ctxsrc, r"pub fn reset_with_frame\s*\(")))
    pushes = re.findall(r"(\w+)\.clear\(\);\s*state\.macro_context_pool\.push\(\1\)", vm)
    all_pushes = re.findall(r"macro_context_pool\.push\(", vm)
    if not all_pushes:
        raise KeyError("macro_context_pool pushes")
    rows.append(("macro_context_pool.pop+reset_with_frame", take_ok, "macro_context_pool.push", len(pushes) == len(all_pushes)))
    b = lambda x: "true" if x else "false"
    lean = "def c15Pools : List (String × Bool × String × Bool) := [" + ", ".join(
        f"({lean_str(a)}, {b(x)}, {lean_str(c)}, {b(y)})" for a, x, c, y in rows) + "]"
    return rows, lean


@item("C15_HANDLE_REGISTRY")
def _handle_registry(repo):
    """`ValueHandleRegistry`: does `remove` compare the handle of the single slot, does `insert` use the
    single slot only when the registry is entirely empty"""
    src = _nocomment(read(repo, "minijinja/src/value/mod.rs"))
    impl = fn_body(src, r"impl ValueHandleRegistry\s*\{")
    rm = fn_body(impl, r"fn remove\s*\(")
    ins = fn_body(impl, r"fn insert\s*\(")
    rows = [("remove-compares-single-handle", bool(re.search(r"single_handle\s*==\s*handle|handle\s*==\s*single_handle", rm))),
            ("insert-single-only-when-empty", bool(re.search(r"self\.single\.is_none\(\)\s*&&\s*self\.overflow\.is_empty\(\)", ins)))]
    lean = "def c15HandleRegistry : List (String × Bool) := [" + ", ".join(
        f"({lean_str(a)}, {'true' if b else 'false'})" for a, b in rows) + "]"
    return rows, lean


@item("C15_INSERT_ARM_PATTERNS")
def _insert_arm_patterns(repo):
    """the patterns of the two `insert_cow` arms: the borrowed arm needs BOTH parts borrowed"""
    src = read(repo, LOADER)
    body = _nocomment(fn_body(src, r"pub fn insert_cow\s*\("))
    inner = fn_body(body, r"match \(source, name\)\s*\{")
    pats = [re.sub(r"\s+", " ", m.group(1)).strip() for m in re.finditer(r"(?m)^\s*(\([^\n]*?\))\s*=>\s*\{", inner)]
    if not pats:
        raise KeyError("insert_cow arm patterns")
    return pats, f"def c15InsertArmPatterns : List String := {_lean_list(pats)}"


def _strip_tests(src):
    """remove `#[cfg(test)] mod x { … }` blocks"""
    out = src
    while True:
        m = re.search(r"#\[cfg\(test\)\]\s*(?:pub\s+)?mod\s+\w+\s*\{", out)
        if not m:
            return out
        i = out.index("{", m.start())
        depth, j = 0, i
        while j < len(out):
            if out[j] == "{":
                depth += 1
            elif out[j] == "}":
                depth -= 1
                if depth == 0:
                    break
            j += 1
        out = out[:m.start()] + out[j + 1:]


_CELL = r"(?:\bCell<|\bRefCell<|\bMutex<|\bRwLock<|\bAtomic[A-Z]\w*|\bOnceLock<|\bOnceCell<|\bLazyLock<|\bLazyCell<|\bLazy<|\bMemoMap<|\bUnsafeCell<)"
_CTOR = r"\b(Cell|RefCell|Mutex|RwLock|Atomic[A-Z]\w*|OnceLock|OnceCell|LazyLock|LazyCell|MemoMap|UnsafeCell)::(?:new|default|with_capacity)\s*\("


def _kind_of(ty):
    for k, pat in [("once", r"OnceLock<|OnceCell<|LazyLock<|LazyCell<|Lazy<"), ("memo", r"MemoMap<"), ("atomic", r"Atomic[A-Z]"),
                   ("mutex", r"Mutex<|RwLock<"), ("refcell", r"RefCell<|UnsafeCell<"), ("cell", r"\bCell<")]:
        if re.search(pat, ty):
            return k
    return "plain"


@item("C15_HIDDEN_STATE")
def _hidden_state(repo):
    """Every piece of process-global, thread-local or interior-mutable state of the crate (tests, the
    vendored self_cell and the feature-gated verif_hooks aside), one row `file|how|owner|kind`:
      thread_local / static / static-mut   a static (kind by type: once, atomic, cell, refcell, mutex, memo, plain);
                                           a `once` static also says how many `get_or_init`/`set` sites fill it
      field       a struct/enum field whose type is interior-mutable, or whose name says pool
      cow         a registry written through `Arc::make_mut(&mut self.x)`
      created-in  a function that creates an interior-mutable value (locals, struct literals)"""
    rows = _hidden_rows(repo, "minijinja/src")
    if not rows:
        raise KeyError("hidden state")
    return rows, f"def c15HiddenState : List String := {_lean_list(rows)}"


def _strip_hooks(src):
    """remove inline `#[cfg(feature = "verif_hooks")] (pub) mod x { … }` blocks (ours, off by default)"""
    out = src
    while True:
        m = re.search(r'#\[cfg\(feature\s*=\s*"verif_hooks"\)\]\s*(?:pub(?:\([^)]*\))?\s+)?mod\s+\w+\s*\{', out)
        if not m:
            return out
        i = out.index("{", m.start())
        depth, j = 0, i
        while j < len(out):
            if out[j] == "{":
                depth += 1
            elif out[j] == "}":
                depth -= 1
                if depth == 0:
                    break
            j += 1
        out = out[:m.start()] + out[j + 1:]


def _hidden_rows(repo, crate_src):
    import os
    rows = []
    for rel in _rs_files(repo, crate_src):
        src = _strip_hooks(_strip_tests(_nocomment(read(repo, os.path.join(crate_src, rel)))))
        # tuple variants / tuple structs that wrap an interior-mutable type: `Weak(Weak<Mutex<T>>)`
        for em in re.finditer(r"\b(?:enum|struct)\s+(\w+)[^;{(]*\{", src):
            try:
                ebody = fn_body(src[em.start():], r"\b(?:enum|struct)\s+\w+[^;{(]*\{")
            except Exception:
                continue
            for vm_ in re.finditer(r"(?m)^\s*(\w+)\s*\(([^()]*)\)\s*,?\s*$", ebody):
                if re.search(_CELL, vm_.group(2)):
                    rows.append(f"{rel}|field|{em.group(1)}.{vm_.group(1)}|{_kind_of(vm_.group(2))}")
        tl_spans = []
        for m in re.finditer(r"thread_local!\s*\{", src):
            body = fn_body(src[m.start():], r"thread_local!\s*\{")
            tl_spans.append((m.start(), m.start() + len(body) + 20))
            for name, ty in re.findall(r"static\s+(?:mut\s+)?(\w+)\s*:\s*([^=;]+)=", body):
                rows.append(f"{rel}|thread_local|{name}|{_kind_of(ty)}")

        def in_tl(pos):
            return any(a <= pos <= b for a, b in tl_spans)
        for m in re.finditer(r"\bstatic\s+(mut\s+)?([A-Z_][A-Z0-9_]*)\s*:\s*([^=;]+)=", src):
            if in_tl(m.start()):
                continue
            k = _kind_of(m.group(3))
            row = f"{rel}|static{'-mut' if m.group(1) else ''}|{m.group(2)}|{k}"
            if k == "once":
                sites = len(re.findall(r"\b%s\s*\.\s*(?:get_or_init|get_or_try_init|set)\s*\(" % re.escape(m.group(2)), src))
                row += f"|filled-at-{sites}-site" + ("" if sites == 1 else "s")
            rows.append(row)
        for sm in re.finditer(r"\b(?:struct|enum)\s+(\w+)[^;{(]*\{", src):
            try:
                body = fn_body(src[sm.start():], r"\b(?:struct|enum)\s+\w+[^;{(]*\{")
            except Exception:
                continue
            for fm in re.finditer(r"(?m)^\s*(?:pub(?:\([^)]*\))?\s+)?(\w+)\s*:\s*([^\n]+?),?\s*$", body):
                fname, ty = fm.group(1), fm.group(2)
                if re.search(_CELL, ty):
                    rows.append(f"{rel}|field|{sm.group(1)}.{fname}|{_kind_of(ty)}")
                elif "pool" in fname.lower():
                    rows.append(f"{rel}|field|{sm.group(1)}.{fname}|pool")
        for name in sorted(set(re.findall(r"Arc::make_mut\s*\(\s*&mut\s+self\.(\w+)\s*\)", src))):
            rows.append(f"{rel}|cow|{name}|arc")
        for m in re.finditer(_CTOR, src):
            line_start = src.rfind("\n", 0, m.start()) + 1
            line = src[line_start:src.find("\n", m.start())]
            if re.search(r"\bstatic\s+(?:mut\s+)?[A-Z_]", line) or in_tl(m.start()):
                continue
            fns = list(re.finditer(r"\bfn\s+(\w+)", src[:m.start()]))
            fn = fns[-1].group(1) if fns else "-"
            rows.append(f"{rel}|created-in|{fn}|{_kind_of(m.group(1) + '<')}")
    return sorted(set(rows))


@item("C15_HIDDEN_STATE_EXT")
def _hidden_state_ext(repo):
    """the same enumeration for the other two crates an application links with the engine:
    minijinja-contrib (filters, tests, globals) and minijinja-autoreload (the reloader)"""
    rows = [f"contrib:{r}" for r in _hidden_rows(repo, "minijinja-contrib/src")] + \
           [f"autoreload:{r}" for r in _hidden_rows(repo, "minijinja-autoreload/src")]
    return rows, f"def c15HiddenStateExt : List String := {_lean_list(rows)}"


@item("C15_COMPILE_READS")
def _compile_reads(repo):
    """Everything a compile (`CompiledTemplate::new`) can depend on, as rows (what, values):
      signature:<fn>        its parameters — name, source and `&TemplateConfig`; no environment, no state
      call:<file>           the arguments of every call site (the configuration handed over is the store's
                            CURRENT `template_config`, nothing cached elsewhere)
      config-fields-read    the `config.<field>`s `_new_impl` reads (= every field of `TemplateConfig`)
      other-receivers       anything else `_new_impl` reads through `self.`/`env.` (nothing)
      compiler-imports      the crate modules the compiler modules and `syntax.rs` import
      environment-mentions  compiler modules / `syntax.rs` that mention `Environment`, `State` of the VM, the
                            loader or the registries (none)
      hidden-state          the rows of C15_HIDDEN_STATE that live in the compiler modules, `syntax.rs`,
                            `template.rs`: statics and pools a compile can touch"""
    import os
    tsrc = _strip_tests(_nocomment(read(repo, TEMPLATE)))
    rows = []
    for fn in ("new", "_new_impl"):
        m = re.search(r"impl<'source> CompiledTemplate<'source>\s*\{", tsrc)
        if not m:
            raise KeyError("impl CompiledTemplate")
        impl = fn_body(tsrc[m.start():], r"impl<'source> CompiledTemplate<'source>\s*\{")
        fm = re.search(r"fn %s\s*\(([^)]*)\)" % fn, impl)
        if not fm:
            raise KeyError(f"CompiledTemplate::{fn}")
        params = [re.sub(r"\s+", "", x) for x in fm.group(1).split(",") if x.strip()]
        rows.append((f"signature:{fn}", params))
    impl_body = fn_body(impl, r"fn _new_impl\s*\(")
    rows.append(("config-fields-read", sorted(set(re.findall(r"\bconfig\s*\.\s*(\w+)", impl_body)))))
    rows.append(("other-receivers", sorted(set(re.findall(r"\b(self|env|state)\s*\.", impl_body)))))
    for rel in ("loader.rs", "environment.rs", "template.rs", "expression.rs", "vm/mod.rs", "vm/state.rs"):
        try:
            src = _strip_tests(_nocomment(read(repo, os.path.join("minijinja/src", rel))))
        except Exception:
            continue
        calls = []
        for cm in re.finditer(r"CompiledTemplate::new\s*\(", src):
            depth, j = 0, cm.end() - 1
            while j < len(src):
                if src[j] == "(":
                    depth += 1
                elif src[j] == ")":
                    depth -= 1
                    if depth == 0:
                        break
                j += 1
            calls.append(re.sub(r"\s+", "", src[cm.end():j]).rstrip(","))
        if calls:
            rows.append((f"call:{rel}", calls))
    comp = [r for r in _rs_files(repo) if r.startswith("compiler" + os.sep) or r == "syntax.rs"]
    imports, mentions = set(), []
    for rel in comp:
        src = _strip_tests(_nocomment(read(repo, os.path.join("minijinja/src", rel))))
        src = re.sub(r'r(#+)"(?:.|\n)*?"\1', '""', src)   # doc examples in raw strings
        for im in re.findall(r"\bcrate::(\w+)", src):
            if im != "verif_hooks":
                imports.add(im)
        if re.search(r"\bEnvironment\b|\bcrate::vm\b|\bLoaderStore\b|\bTemplateStore\b|\bget_filter\b|\bget_test\b|\bget_global\b", src):
            mentions.append(rel)
    rows.append(("compiler-imports", sorted(imports)))
    rows.append(("environment-mentions", sorted(mentions)))
    hs = [r for r in _hidden_rows(repo, "minijinja/src")
          if r.startswith("compiler/") or r.startswith("syntax.rs|") or r.startswith("template.rs|")]
    rows.append(("hidden-state", hs))
    lean = "def c15CompileReads : List (String × List String) := [" + ", ".join(
        f"({lean_str(a)}, {_lean_list(b)})" for a, b in rows) + "]"
    return rows, lean


@item("C15_MEMO_MAP")
def _memo_map(repo):
    """memo-map (the version pinned in Cargo.lock, read from the cargo registry): per method of `MemoMap`
    that `loader.rs` uses, the receiver and the order of what happens under the mutex.  The concurrent
    model `MJ/Model/MemoConc.lean` relies on: `get_or_try_insert(&self)` takes the lock FIRST and keeps it
    over look-up, creator and insert (no `drop`/unlock in between); everything that replaces or removes an
    entry takes `&mut self` (cannot run while another thread holds `&Environment`)."""
    import os, glob
    lock = read(repo, "Cargo.lock")
    m = re.search(r'name = "memo-map"\s*\nversion = "([^"]+)"', lock)
    if not m:
        raise KeyError("memo-map in Cargo.lock")
    ver = m.group(1)
    homes = [os.environ.get("CARGO_HOME") or "", os.path.expanduser("~/.cargo"), "/root/.cargo"]
    path = None
    for h in homes:
        if not h:
            continue
        c = sorted(glob.glob(os.path.join(h, "registry", "src", "*", f"memo-map-{ver}", "src", "lib.rs")))
        if c:
            path = c[0]
            break
    if path is None:
        raise KeyError(f"source of memo-map {ver} in the cargo registry")
    src = _strip_tests(_nocomment(open(path).read()))
    used = sorted(set(re.findall(r"owned_templates\s*\.\s*(\w+)\s*\(", _nocomment(read(repo, LOADER)))))
    rows = [("version", ver, [])]
    for name in used:
        hm = re.search(r"pub fn %s\s*(?:<[^>]*>)?\s*\(\s*(&mut self|&self|self)" % re.escape(name), src)
        if not hm:
            rows.append((name, "not-found", []))
            continue
        body = fn_body(src[hm.start():], r"pub fn %s\b" % re.escape(name))
        # a method that only forwards to another one is followed once
        fw = re.fullmatch(r"\s*self\s*\.\s*(\w+)\s*\((?:.|\n)*", body)
        ev = []
        pats = [(r"lock!\s*\(|\.lock\s*\(\s*\)", "lock"), (r"get_mut!\s*\(", "exclusive"),
                (r"\.\s*insert\s*\([^;]*creator\s*\(\s*\)", "insert(creator)"),
                (r"\.\s*get\s*\(", "get"), (r"\.\s*contains_key\s*\(", "contains"),
                (r"\.\s*entry\s*\(", "entry"), (r"\.\s*remove\s*\(", "remove"), (r"\.\s*clear\s*\(", "clear"),
                (r"\.\s*(?:keys|iter|values)\s*\(", "iterate"), (r"Clone::clone|\.clone\s*\(", "clone"),
                (r"\bdrop\s*\(|unlock", "drop")]
        for pat, tag in pats:
            mm = re.search(pat, body)
            if mm:
                ev.append((mm.start(), tag))
        if not any(t == "insert(creator)" for _, t in ev):
            mm = re.search(r"\.\s*insert\s*\(", body)
            if mm:
                ev.append((mm.start(), "insert"))
        ev.sort()
        rows.append((name, hm.group(1), [t for _, t in ev] + ([f"->{fw.group(1)}"] if fw and not ev else [])))
    lean = "def c15MemoMap : List (String × String × List String) := [" + ", ".join(
        f"({lean_str(a)}, {lean_str(b)}, {_lean_list(c)})" for a, b, c in rows) + "]"
    return rows, lean
