"""C15 table items: the structural facts of `loader.rs`, `environment.rs` and `vm/state.rs` the model
`MJ/Model/Store.lean` relies on, re-read from the source on every run.  `MJ.C15.source_tables_match_model`
compares them with what the model assumes, so that a change of these facts in the source stops the
proof build (broken tie) even when no differential stream happens to exercise it.

* c15Setters        every `pub fn set_*` of `Environment` with its class: `load` (writes
                    `self.templates.template_config…`: baked into templates at load time), `loader`
                    (`self.templates.set_loader`), `run` (a field of the environment read while rendering)
* c15TemplateConfig fields of `TemplateConfig` and `WhitespaceConfig` (= what "load-time configuration" is)
* c15InsertArms     per `insert_cow` arm the sequence of events compile / evict(other tier) / insert /
                    return(early) / lookup(an existing entry is consulted)
* c15GetOrder       `get`: borrowed map, then memo map, then loader, then compile
* c15RemoveTiers / c15ClearTiers   the tiers `remove` and `clear` touch
* c15StateId        how `State::new` obtains its id (`static-atomic-fetch_add` or something else)
* c15CloneDerives   `#[derive(Clone)]` on `Environment` and `LoaderStore`
"""
import re
from extract_tables import item, read, fn_body, lean_str

ENV = "minijinja/src/environment.rs"
LOADER = "minijinja/src/loader.rs"
TEMPLATE = "minijinja/src/template.rs"
STATE = "minijinja/src/vm/state.rs"
LEXER = "minijinja/src/compiler/lexer.rs"


def _nocomment(s):
    return re.sub(r"//.*", "", s)


def _lean_list(xs):
    return "[" + ", ".join(lean_str(x) for x in xs) + "]"


@item("C15_SETTERS")
def _setters(repo):
    src = read(repo, ENV)
    rows = []
    for m in re.finditer(r"pub fn (set_\w+)\s*(?:<[^>]*>)?\s*\(", src):
        body = _nocomment(fn_body(src[m.start():], r"pub fn set_\w+"))
        if "self.templates" in body and "template_config" in body:
            cls = "load"
        elif "self.templates" in body and "set_loader" in body:
            cls = "loader"
        elif "self.templates" in body:
            cls = "store?"
        else:
            cls = "run"
        rows.append((m.group(1), cls))
    if not rows:
        raise KeyError("Environment setters")
    lean = "def c15Setters : List (String × String) := [" + ", ".join(
        f"({lean_str(a)}, {lean_str(b)})" for a, b in rows) + "]"
    return rows, lean


@item("C15_TEMPLATE_CONFIG")
def _template_config(repo):
    def fields(src, header):
        body = _nocomment(fn_body(src, header))
        body = re.sub(r"///.*", "", body)
        return re.findall(r"^\s*(?:pub(?:\([^)]*\))?\s+)?(\w+)\s*:", body, re.M)
    tc = fields(read(repo, TEMPLATE), r"pub struct TemplateConfig\s*\{")
    ws = fields(read(repo, LEXER), r"pub struct WhitespaceConfig\s*\{")
    if not tc or not ws:
        raise KeyError("TemplateConfig / WhitespaceConfig fields")
    lean = f"def c15TemplateConfig : List String := {_lean_list(tc)}\ndef c15WhitespaceConfig : List String := {_lean_list(ws)}"
    return {"TemplateConfig": tc, "WhitespaceConfig": ws}, lean


def _events(arm, own, other):
    """ordered event tags of one insert_cow arm; `own`/`other` = field names of the tiers"""
    ev = []
    pats = [
        (r"CompiledTemplate::new\s*\(|make_owned_template\s*\(", "compile"),
        (r"self\.%s\s*\.\s*remove\s*\(" % other, "evict"),
        (r"self\.%s\s*\.\s*(?:insert|replace)\s*\(" % own, "insert"),
        (r"\breturn\b", "return"),
        (r"self\.(?:%s|%s)\s*\.\s*(?:get|contains_key|get_mut|iter|keys)\s*\(" % (own, other), "lookup"),
        (r"self\.%s\s*\.\s*remove\s*\(" % own, "evict-own"),
        (r"self\.%s\s*\.\s*(?:insert|replace)\s*\(" % other, "insert-other"),
    ]
    found = []
    for pat, tag in pats:
        for m in re.finditer(pat, arm):
            found.append((m.start(), tag))
    # `ok!(X)` evaluates X where it stands; an insert whose argument contains the compile call
    # compiles first but only after the statements before it: positions are textual, which is the
    # evaluation order for the statement sequences used here, except that a call's arguments are
    # evaluated before the call — handled by ordering `compile` before an `insert` that encloses it.
    found.sort()
    ev = [t for _, t in found]
    for i in range(len(ev) - 1):
        if ev[i] == "insert" and ev[i + 1] == "compile":
            seg = arm[found[i][0]:found[i + 1][0]]
            if seg.count("(") > seg.count(")"):
                ev[i], ev[i + 1] = ev[i + 1], ev[i]
    return ev


@item("C15_INSERT_ARMS")
def _insert_arms(repo):
    src = read(repo, LOADER)
    body = _nocomment(fn_body(src, r"pub fn insert_cow\s*\("))
    inner = fn_body(body, r"match \(source, name\)\s*\{")
    m1 = re.search(r"\(Cow::Borrowed\(source\), Cow::Borrowed\(name\)\)\s*=>\s*\{", inner)
    m2 = re.search(r"\(source, name\)\s*=>\s*\{", inner)
    if not m1 or not m2:
        raise KeyError("insert_cow arms")
    arm1 = fn_body(inner[m1.start():], r"=>\s*\{")
    arm2 = fn_body(inner[m2.start():], r"=>\s*\{")
    a = _events(arm1, "borrowed_templates", "owned_templates")
    b = _events(arm2, "owned_templates", "borrowed_templates")
    lean = f"def c15InsertArms : List (List String) := [{_lean_list(a)}, {_lean_list(b)}]"
    return [a, b], lean


@item("C15_GET_ORDER")
def _get_order(repo):
    src = read(repo, LOADER)
    body = _nocomment(fn_body(src, r"pub fn get\s*\(&self, name: &str\)"))
    pats = [(r"self\.borrowed_templates\s*\.\s*get\s*\(", "borrowed"),
            (r"self\s*\.\s*owned_templates\s*\.\s*get_or_try_insert\s*\(", "memo"),
            (r"match self\.loader|self\.loader", "loader"),
            (r"make_owned_template\s*\(", "compile"),
            (r"new_not_found", "not-found")]
    found = []
    for pat, tag in pats:
        m = re.search(pat, body)
        if not m:
            raise KeyError(f"LoaderStore::get: {tag}")
        found.append((m.start(), tag))
    found.sort()
    order = [t for _, t in found]
    return order, f"def c15GetOrder : List String := {_lean_list(order)}"


@item("C15_REMOVE_CLEAR")
def _remove_clear(repo):
    src = read(repo, LOADER)
    rm = _nocomment(fn_body(src, r"pub fn remove\s*\(&mut self, name: &str\)"))
    cl = _nocomment(fn_body(src, r"pub fn clear\s*\(&mut self\)"))
    def tiers(body, method):
        out = sorted(set(re.findall(r"self\.(\w+_templates)\s*\.\s*%s\s*\(" % method, body)))
        cond = "conditional" if re.search(r"\bif\b|\bmatch\b|\?|&&|\|\|", body) else "unconditional"
        return out + [cond]
    r_, c_ = tiers(rm, "remove"), tiers(cl, "clear")
    lean = f"def c15RemoveTiers : List String := {_lean_list(r_)}\ndef c15ClearTiers : List String := {_lean_list(c_)}"
    return {"remove": r_, "clear": c_}, lean


@item("C15_STATE_ID")
def _state_id(repo):
    src = _nocomment(read(repo, STATE))
    tl_blocks = []
    for m in re.finditer(r"thread_local!\s*\{", src):
        tl_blocks.append(fn_body(src[m.start():], r"thread_local!\s*\{"))
    in_tl = any(re.search(r"\bSTATE_ID\b", b) for b in tl_blocks)
    decl = re.search(r"static\s+STATE_ID\s*:\s*([^=;]+)=", src)
    use = re.search(r"id\s*:\s*STATE_ID\s*\.\s*(\w+)\s*\(", src)
    if not decl or not use:
        raise KeyError("STATE_ID declaration / use in State::new")
    ty = re.sub(r"\s+", "", decl.group(1))
    kind = ("thread-local" if in_tl else "static") + ":" + ("atomic" if "Atomic" in ty else ty) + ":" + use.group(1)
    return kind, f"def c15StateId : String := {lean_str(kind)}"


@item("C15_CLONE_DERIVES")
def _clone_derives(repo):
    out = []
    for rel, pat, name in [(ENV, r"pub struct Environment<", "Environment"),
                           (LOADER, r"pub\(crate\) struct LoaderStore<", "LoaderStore")]:
        src = read(repo, rel)
        m = re.search(pat, src)
        if not m:
            raise KeyError(name)
        before = src[max(0, m.start() - 200):m.start()]
        attrs = re.findall(r"#\[derive\(([^)]*)\)\]\s*$", before.rstrip() + "\n", re.M)
        derived = bool(attrs) and "Clone" in [a.strip() for a in attrs[-1].split(",")]
        manual = bool(re.search(r"impl\s*(?:<[^>]*>)?\s*Clone\s+for\s+%s\b" % name, src))
        out.append(f"{name}:{'derive' if derived else ('manual' if manual else 'none')}")
    return out, f"def c15CloneDerives : List String := {_lean_list(out)}"


def _rs_files(repo):
    import os
    base = os.path.join(repo, "minijinja", "src")
    out = []
    for d, _, fs in os.walk(base):
        for f in fs:
            if f.endswith(".rs"):
                rel = os.path.relpath(os.path.join(d, f), base)
                # the feature-gated verification hooks are ours, off by default, and hold counters only
                if rel == "verif_hooks.rs" or rel.startswith("vendor"):
                    continue
                out.append(rel)
    return sorted(out)


@item("C15_THREAD_LOCALS")
def _thread_locals(repo):
    """every `static NAME` declared inside a `thread_local!` block of the crate"""
    import os
    rows = []
    for rel in _rs_files(repo):
        src = _nocomment(read(repo, os.path.join("minijinja/src", rel)))
        for m in re.finditer(r"thread_local!\s*\{", src):
            body = fn_body(src[m.start():], r"thread_local!\s*\{")
            for name in re.findall(r"static\s+(?:mut\s+)?(\w+)\s*:", body):
                rows.append(f"{rel}:{name}")
    rows = sorted(set(rows))
    if not rows:
        raise KeyError("thread_local! blocks")
    return rows, f"def c15ThreadLocals : List String := {_lean_list(rows)}"


@item("C15_DROP_GUARDS")
def _drop_guards(repo):
    """every `impl Drop for X` of the crate whose body writes a cell/flag/thread-local (set/replace/
    store/with/borrow_mut): (type, normalised condition guarding the write, the write)"""
    import os
    rows = []
    for rel in _rs_files(repo):
        src = _nocomment(read(repo, os.path.join("minijinja/src", rel)))
        for m in re.finditer(r"impl(?:\s*<[^>]*>)?\s+Drop\s+for\s+(\w+)", src):
            if "macro_rules" in src[max(0, m.start() - 2000):m.start()] and "$" in src[m.start():m.start() + 200]:
                continue
            try:
                body = fn_body(src[m.start():], r"fn drop\s*\(\s*&mut self\s*\)")
            except KeyError:
                continue
            if not re.search(r"\.(?:set|replace|store|borrow_mut|with)\s*\(", body):
                continue
            norm = re.sub(r"\s+", " ", body).strip()
            mm = re.fullmatch(r"if (.+?) \{ (.+?) \}", norm)
            if mm:
                rows.append((m.group(1), mm.group(1).strip(), mm.group(2).strip()))
            else:
                rows.append((m.group(1), "?", norm))
    lean = "def c15DropGuards : List (String × String × String) := [" + ", ".join(
        f"({lean_str(a)}, {lean_str(b)}, {lean_str(c)})" for a, b, c in rows) + "]"
    return rows, lean


@item("C15_POOL_TAKE_CLEARS")
def _pool_take(repo):
    src = _nocomment(read(repo, "minijinja/src/compiler/codegen.rs"))
    rows = []
    for fn in ("take_pending_block_buffer", "take_span_stack_buffer"):
        body = fn_body(src, r"fn %s\s*\(\)" % fn)
        rows.append((fn, bool(re.search(r"\bbuf\.clear\(\)", body))))
    lean = "def c15PoolTakeClears : List (String × Bool) := [" + ", ".join(
        f"({lean_str(a)}, {'true' if b else 'false'})" for a, b in rows) + "]"
    return rows, lean
