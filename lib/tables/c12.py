"""C12 table items: what the undefined-behaviour helpers of utils.rs and the mode-consulting sites of
vm/mod.rs / environment.rs say *now*.

Codes (assigned by NAME here, so reordering the Rust enum does not change a meaning):
  mode   Chainable=0  Lenient=1  SemiStrict=2  Strict=3          (the strictness order)
  kind   0 = not undefined, 1 = Undefined(Default), 2 = Undefined(Silent)
  flag   0 = false, 1 = true                                   (`parent_was_undefined`)
  outcome 0 = Err(UndefinedError), 1 = Ok(..)   (Environment::format: 1 = formatter called, 2 = Ok(()) without it)

A helper is emitted as its ordered `match` rows `(modes, kinds-or-flags, outcome)`; the Lean model
(`MJ/Model/Undef.lean`) interprets the rows first-match-wins like Rust does.  Anything this
deliberately dumb parser does not recognise raises (item missing => dependants stop building).
"""
import re
from extract_tables import item, read, fn_body, lean_str

MODE = {"Chainable": 0, "Lenient": 1, "SemiStrict": 2, "Strict": 3}
UTILS = "minijinja/src/utils.rs"
VM = "minijinja/src/vm/mod.rs"
ENVRS = "minijinja/src/environment.rs"
HELPERS = ["handle_undefined", "is_true", "try_iter", "assert_iterable", "assert_value_not_undefined"]


def strip_comments(s):
    s = re.sub(r"/\*.*?\*/", "", s, flags=re.S)
    return re.sub(r"//[^\n]*", "", s)


def split_top(s, sep):
    """split at `sep` (one char) where (), [], {} depth is 0"""
    out, depth, cur = [], 0, []
    for ch in s:
        if ch in "([{":
            depth += 1
        elif ch in ")]}":
            depth -= 1
        if ch == sep and depth == 0:
            out.append("".join(cur)); cur = []
        else:
            cur.append(ch)
    out.append("".join(cur))
    return out


def match_arms(body):
    """[(pattern_text, expr_text)] of the (single) `match` in `body`"""
    inner = fn_body(body, r"match\s*\([^)]*\)\s*\{")
    arms, i, n = [], 0, len(inner)
    while i < n:
        j = inner.find("=>", i)
        if j < 0:
            if inner[i:].strip():
                raise KeyError("unparsed match tail: " + inner[i:].strip()[:50])
            break
        pat = inner[i:j].strip()
        k = j + 2
        while k < n and inner[k].isspace():
            k += 1
        if k < n and inner[k] == "{":
            depth, e = 0, k
            while e < n:
                if inner[e] == "{":
                    depth += 1
                elif inner[e] == "}":
                    depth -= 1
                    if depth == 0:
                        break
                e += 1
            expr = inner[k + 1:e].strip()
            i = e + 1
            while i < n and (inner[i].isspace() or inner[i] == ","):
                i += 1
        else:
            depth, e = 0, k
            while e < n and not (inner[e] == "," and depth == 0):
                if inner[e] in "([{":
                    depth += 1
                elif inner[e] in ")]}":
                    depth -= 1
                e += 1
            expr = inner[k:e].strip()
            i = e + 1
        arms.append((pat, expr))
    return arms


def parse_modes(p):
    p = p.strip()
    if p == "_":
        return sorted(MODE.values())
    out = []
    for alt in p.split("|"):
        m = re.fullmatch(r"\s*UndefinedBehavior::(\w+)\s*", alt)
        if not m or m.group(1) not in MODE:
            raise KeyError(f"mode pattern `{p}`")
        out.append(MODE[m.group(1)])
    return sorted(set(out))


def parse_second(p, flag):
    p = re.sub(r"\s+", "", p)
    if flag:
        tbl = {"_": [0, 1], "false": [0], "true": [1]}
    else:
        tbl = {"_": [0, 1, 2],
               "&ValueRepr::Undefined(UndefinedType::Default)": [1],
               "&ValueRepr::Undefined(UndefinedType::Silent)": [2],
               "&ValueRepr::Undefined(_)": [1, 2]}
    if p not in tbl:
        raise KeyError(f"operand pattern `{p}`")
    return tbl[p]


ERR = "Err(Error::from(ErrorKind::UndefinedError))"


def parse_rows(body, flag, ok_text):
    rows = []
    for pat, expr in match_arms(strip_comments(body)):
        e = re.sub(r"\s+", "", expr)
        if e == ERR:
            outcome = 0
        elif e == ok_text:
            outcome = 1
        else:
            raise KeyError(f"unrecognised arm result `{expr[:60]}` (expected {ERR} or {ok_text})")
        for alt in split_top(pat, "|"):
            alt = alt.strip()
            if alt == "_":
                rows.append((sorted(MODE.values()), [0, 1] if flag else [0, 1, 2], outcome))
                continue
            if not (alt.startswith("(") and alt.endswith(")")):
                raise KeyError(f"arm pattern `{alt}`")
            parts = [x for x in split_top(alt[1:-1], ",") if x.strip()]
            if len(parts) != 2:
                raise KeyError(f"arm pattern `{alt}`")
            rows.append((parse_modes(parts[0]), parse_second(parts[1], flag), outcome))
    if not rows:
        raise KeyError("no rows")
    return rows


def lean_rows(name, rows):
    def nl(xs):
        return "[" + ", ".join(str(x) for x in xs) + "]"
    return f"def {name} : List (List Nat × List Nat × Nat) := [" + ", ".join(
        f"({nl(ms)}, {nl(ks)}, {o})" for ms, ks, o in rows) + "]"


def helper_body(repo, name):
    src = read(repo, UTILS)
    impl = fn_body(src, r"impl UndefinedBehavior\s*\{")
    return fn_body(impl, r"fn\s+%s\s*\(" % name + r"[^{]*\{")


@item("C12_MODES")
def _modes(repo):
    src = strip_comments(read(repo, UTILS))
    body = fn_body(src, r"pub enum UndefinedBehavior\s*\{")
    body = re.sub(r"#\[[^\]]*\]", "", body)
    names = [x.strip() for x in body.split(",") if x.strip()]
    if sorted(names) != sorted(MODE):
        raise KeyError(f"UndefinedBehavior variants are {names}, the model knows {sorted(MODE)}")
    m = re.search(r"#\[default\]\s*(\w+)", fn_body(strip_comments(read(repo, UTILS)), r"pub enum UndefinedBehavior\s*\{"))
    if not m:
        raise KeyError("default mode")
    return {"variants": names, "default": m.group(1)}, (
        f"def undefModeCount : Nat := {len(names)}\n"
        f"def undefDefaultMode : Nat := {MODE[m.group(1)]}")


@item("C12_HANDLE_UNDEFINED")
def _handle_undefined(repo):
    body = helper_body(repo, "handle_undefined")
    if not re.search(r"match\s*\(\s*self\s*,\s*parent_was_undefined\s*\)", body):
        raise KeyError("handle_undefined no longer matches on (self, parent_was_undefined)")
    rows = parse_rows(body, True, "Ok(Value::UNDEFINED)")
    return rows, lean_rows("undefHandleUndefined", rows)


def _value_helper(fname, lean_name, ok_text):
    @item("C12_" + fname.upper())
    def _f(repo):
        body = helper_body(repo, fname)
        if not re.search(r"match\s*\(\s*self\s*,\s*&value\.0\s*\)", body):
            raise KeyError(f"{fname} no longer matches on (self, &value.0)")
        rows = parse_rows(body, False, ok_text)
        return rows, lean_rows(lean_name, rows)
    return _f


_value_helper("is_true", "undefIsTrue", "Ok(value.is_true())")
_value_helper("assert_iterable", "undefAssertIterable", "Ok(())")
_value_helper("assert_value_not_undefined", "undefAssertValueNotUndefined", "Ok(())")


@item("C12_TRY_ITER")
def _try_iter(repo):
    body = re.sub(r"\s+", "", strip_comments(helper_body(repo, "try_iter")))
    want = "self.assert_iterable(&value).and_then(|_|value.try_iter())"
    if body != want:
        raise KeyError(f"try_iter is no longer `{want}`: `{body[:80]}`")
    # 1 = "assert_iterable, then the mode-independent Value::try_iter"
    return True, "def undefTryIterViaAssertIterable : Bool := true"


def matches_modes(text):
    """`matches!(<x>, UndefinedBehavior::A | UndefinedBehavior::B)` -> mode codes"""
    m = re.search(r"matches!\(\s*(?:self\.)?undefined_behavior\s*,\s*([^)]*?)\s*\)", text, re.S)
    if not m:
        raise KeyError("matches!(undefined_behavior, ..)")
    return parse_modes(m.group(1))


def vm_arms(repo):
    """{instruction name: arm text} of the big `match instr` in eval_impl (comments stripped)"""
    src = strip_comments(read(repo, VM))
    body = fn_body(src, r"fn eval_impl\s*\(")
    # arms start at `Instruction::Name` at the beginning of a pattern
    starts = [(m.start(), m.group(1)) for m in re.finditer(r"\n\s*(?:#\[cfg\([^\]]*\)\]\s*)?Instruction::(\w+)[^\n]*?=>", body)]
    if len(starts) < 40:
        raise KeyError("eval_impl instruction arms")
    arms = {}
    for i, (pos, name) in enumerate(starts):
        end = starts[i + 1][0] if i + 1 < len(starts) else len(body)
        arms[name] = body[pos:end]
    return body, arms


CALL = re.compile(r"undefined_behavior(?:\(\))?\s*\.\s*(%s)\s*\(\s*([^()]*(?:\([^()]*\))?[^()]*?)\s*\)" % "|".join(HELPERS), re.S)


def calls_in(text):
    out = []
    for m in CALL.finditer(text):
        arg = re.sub(r"\s+", "", m.group(2)).lstrip("&")
        out.append((m.group(1), arg))
    return out


@item("C12_VM_EMIT")
def _vm_emit(repo):
    """which (mode, undefined kind) pairs the inline test of the Emit arm rejects: the modes of
    `let strict_undefined = matches!(..)` and the kinds of the `matches!(value.0, ..)` next to it.  WHERE in
    the arm the test sits (does it dominate every exit?) is the business of C12_VM_EMIT_SHAPE."""
    body, arms = vm_arms(repo)
    m = re.search(r"let\s+strict_undefined\s*=\s*(matches!\([^;]*\))\s*;", body, re.S)
    if not m:
        raise KeyError("let strict_undefined = matches!(..)")
    modes = matches_modes(m.group(1))
    emit = re.sub(r"\s+", "", arms["Emit"])
    want = "ifstrict_undefined&&matches!(value.0,ValueRepr::Undefined(UndefinedType::Default))"
    if want not in emit or emit.count("strict_undefined") != 1:
        raise KeyError("Emit arm: `if strict_undefined && matches!(value.0, Undefined(Default))`")
    others = [n for n, t in arms.items() if n != "Emit" and "strict_undefined" in t]
    if others:
        raise KeyError(f"strict_undefined is used outside Emit: {others}")
    return {"modes": modes, "kinds": [1]}, lean_rows("undefVmEmitFails", [(modes, [1], 0)])


# ---- control-flow shape of an instruction arm
def parse_block(text):
    """statements of a Rust block body as a tree: ("act", text) | ("ite", cond, [then], [else]).
    cfg-gated statements are kept with their attribute in the text."""
    out, i, n = [], 0, len(text)

    def skip_ws(i):
        while i < n and text[i].isspace():
            i += 1
        return i

    def balanced(i, open_ch, close_ch):
        depth = 0
        while i < n:
            if text[i] == open_ch:
                depth += 1
            elif text[i] == close_ch:
                depth -= 1
                if depth == 0:
                    return i
            i += 1
        raise KeyError("unbalanced arm text")

    def parse_if(i):
        # text[i:] starts with `if`
        j, depth = i + 2, 0
        while j < n and not (text[j] == "{" and depth == 0):
            if text[j] in "([":
                depth += 1
            elif text[j] in ")]":
                depth -= 1
            j += 1
        cond = text[i + 2:j].strip()
        e = balanced(j, "{", "}")
        then = parse_block(text[j + 1:e])
        k = skip_ws(e + 1)
        els = []
        if text.startswith("else", k) and not (text[k + 4:k + 5].isalnum() or text[k + 4:k + 5] == "_"):
            k = skip_ws(k + 4)
            if text.startswith("if", k) and not text[k + 2:k + 3].isalnum():
                node, k = parse_if(k)
                els = [node]
            else:
                e2 = balanced(k, "{", "}")
                els = parse_block(text[k + 1:e2])
                k = e2 + 1
        else:
            k = e + 1
        return ("ite", cond, then, els), k

    while True:
        i = skip_ws(i)
        if i >= n:
            break
        start = i
        attr = ""
        while text.startswith("#[", i):
            e = balanced(i, "[", "]")
            attr += text[i:e + 1]
            i = skip_ws(e + 1)
        if not attr and re.match(r"if\b", text[i:]):
            node, i = parse_if(i)
            out.append(node)
            continue
        # a statement: up to `;` at depth 0, or a block-like expression ending in `}` at depth 0
        depth, j = 0, i
        while j < n:
            c = text[j]
            if c in "([{":
                depth += 1
            elif c in ")]}":
                depth -= 1
                if depth == 0 and c == "}" and re.match(r"(?:match|for|while|loop|unsafe|\{)", text[i:].lstrip()):
                    j += 1
                    break
            elif c == ";" and depth == 0:
                j += 1
                break
            j += 1
        out.append(("act", (attr + " " if attr else "") + text[i:j].strip().rstrip(";").strip()))
        i = j
        if j == start:
            raise KeyError("arm parser made no progress")
    return out


EMIT_STMTS = {
    "letvalue=stack.pop()": "pop",
    "bail!(Error::from(ErrorKind::UndefinedError))": "bail_undefined",
    "ctx_ok!(write_escaped(out,state.auto_escape,&value))": "write_escaped",
    "ctx_ok!(state.env().format(&value,state,out))": "env_format",
}
EMIT_CONDS = {
    "state.env().is_default_formatter()": "default_formatter",
    "strict_undefined&&matches!(value.0,ValueRepr::Undefined(UndefinedType::Default))": "strict_undefined_default",
    "out.is_discarding()": "out_discarding",
    "!out.is_discarding()": "not_out_discarding",
}


def shape_term(nodes, classify_stmt, classify_cond):
    """the statement list as a Lean `ArmShape` term (and as JSON)"""
    js, term = [], ".done"
    parts = []
    for nd in nodes:
        if nd[0] == "act":
            t = re.sub(r"\s+", "", nd[1])
            if t.startswith('#[cfg(feature="verif_hooks")]'):
                continue          # add-only instrumentation behind the verification feature
            if re.match(r"(?:return\b|continue\b|break\b)", nd[1]):
                kind = "exit"
            else:
                kind = classify_stmt.get(t, "other:" + nd[1][:60])
            parts.append(("act", kind))
            js.append(kind)
        else:
            c = re.sub(r"\s+", "", nd[1])
            cond = classify_cond.get(c, "other:" + nd[1][:60])
            tj, tt = shape_term(nd[2], classify_stmt, classify_cond)
            ej, et = shape_term(nd[3], classify_stmt, classify_cond)
            parts.append(("ite", cond, tt, et))
            js.append({"if": cond, "then": tj, "else": ej})
    for p_ in reversed(parts):
        if p_[0] == "act":
            term = f"(.act {lean_str(p_[1])} {term})"
        else:
            term = f"(.ite {lean_str(p_[1])} {p_[2]} {p_[3]} {term})"
    return js, term


ARM_SHAPE_DECL = ("/-- control-flow shape of an instruction arm of `eval_impl`: statements by kind, `if` by the kind of its\n"
                  "    condition; `next` is where both branches of an `if` continue -/\n"
                  "inductive ArmShape where\n"
                  "  | done\n"
                  "  | act (kind : String) (next : ArmShape)\n"
                  "  | ite (cond : String) (thenB elseB next : ArmShape)\n"
                  "  deriving Repr, DecidableEq, Inhabited\n")


@item("C12_VM_EMIT_SHAPE")
def _vm_emit_shape(repo):
    """the Emit arm of eval_impl as a tree of classified statements and conditions (statements the
    classifier does not know become `other:<text>`, which the Lean side rejects): the model of Emit is
    proved equal to the interpretation of this tree, and `emitArmOk` requires that the undefined check
    dominates every write and every exit of the arm."""
    body, arms = vm_arms(repo)
    arm = arms["Emit"]
    k = arm.index("=>")
    inner = block_after(arm, k)
    if not inner:
        raise KeyError("Emit arm body")
    nodes = parse_block(inner[1:-1])
    js, term = shape_term(nodes, EMIT_STMTS, EMIT_CONDS)
    return js, ARM_SHAPE_DECL + "def undefVmEmitShape : ArmShape := " + term


@item("C12_VM_SLICE")
def _vm_slice(repo):
    body, arms = vm_arms(repo)
    t = re.sub(r"\s+", "", arms["Slice"])
    m = re.search(r"if(\w+)\.is_undefined\(\)&&(matches!\(undefined_behavior,[^)]*\))\{bail!\(Error::from\(ErrorKind::UndefinedError\)\);\}", t)
    if not m or m.group(1) != "a":
        raise KeyError("Slice arm: `if a.is_undefined() && matches!(undefined_behavior, ..) { bail!(UndefinedError) }`")
    modes = parse_modes(re.search(r"matches!\(undefined_behavior,(.*)\)", m.group(2)).group(1).replace("|", " | "))
    return {"modes": modes, "kinds": [1, 2]}, lean_rows("undefVmSliceFails", [(modes, [1, 2], 0)])


@item("C12_ENV_FORMAT")
def _env_format(repo):
    src = strip_comments(read(repo, ENVRS))
    body = fn_body(src, r"pub\(crate\) fn format\s*\(")
    if not re.search(r"match\s*\(\s*self\.undefined_behavior\s*,\s*&value\.0\s*\)", body):
        raise KeyError("Environment::format no longer matches on (self.undefined_behavior, &value.0)")
    rows = []
    for pat, expr in match_arms(body):
        e = re.sub(r"\s+", "", expr)
        # outcome 0 = Err(UndefinedError), 1 = the value is handed to the formatter (default or custom),
        # 2 = Ok(()) without consulting the formatter (nothing is written)
        if e == ERR:
            outcome = 0
        elif e == "Ok(())":
            outcome = 2
        elif re.fullmatch(r"ifself\.formatter_is_default\{write_escaped\(out,state\.auto_escape\(\),value\)\}else\{\(self\.formatter\)\(out,state,value\)\}", e):
            outcome = 1
        else:
            raise KeyError(f"format arm `{expr[:60]}`")
        for alt in split_top(pat, "|"):
            alt = alt.strip()
            if alt == "_":
                rows.append((sorted(MODE.values()), [0, 1, 2], outcome))
            else:
                parts = [x for x in split_top(alt[1:-1], ",") if x.strip()]
                rows.append((parse_modes(parts[0]), parse_second(parts[1], False), outcome))
    return rows, lean_rows("undefEnvFormat", rows)


def is_single_match(body):
    """is the (comment-free) function body exactly one `match (..) { .. }` expression -- no statement in front of it
    (an early return would bypass the rows), nothing after it?"""
    t = body.strip()
    m = re.match(r"match\s*\([^)]*\)\s*\{", t)
    if not m:
        return False
    depth, i = 0, m.end() - 1
    while i < len(t):
        if t[i] == "{":
            depth += 1
        elif t[i] == "}":
            depth -= 1
            if depth == 0:
                return t[i + 1:].strip() == ""
        i += 1
    return False


@item("C12_ROW_FNS")
def _row_fns(repo):
    """the functions whose `match` rows the model interprets (the four helpers of UndefinedBehavior and
    Environment::format): is each body nothing but that match?"""
    rows = []
    for name in ("handle_undefined", "is_true", "assert_iterable", "assert_value_not_undefined"):
        rows.append(("utils.rs::" + name, is_single_match(strip_comments(helper_body(repo, name)))))
    src = strip_comments(read(repo, ENVRS))
    rows.append(("environment.rs::format", is_single_match(fn_body(src, r"pub\(crate\) fn format\s*\("))))
    lean = ("/-- (function whose match rows are extracted, its body is exactly that match) -/\n"
            "def undefRowFnsWholeBody : List (String × Bool) := [" + ", ".join(f"({lean_str(n)}, {'true' if b else 'false'})" for n, b in rows) + "]")
    return rows, lean


@item("C12_VM_SITES")
def _vm_sites(repo):
    """every helper call in vm/mod.rs, by instruction arm (macros expanded by hand: op_binop!),
    CompareAndPreserve split by CompareOp, plus the free functions push_loop / merge_kwargs.
    The total must account for every helper call of the file."""
    src = strip_comments(read(repo, VM))
    body, arms = vm_arms(repo)
    sites = []
    mac = re.search(r"macro_rules!\s*op_binop\s*\{(.*?)\n\s{12}\}", body, re.S)
    if not mac:
        raise KeyError("op_binop! macro")
    mac_calls = calls_in(mac.group(1))
    prelude_end = body.find("match instr")
    for name, text in arms.items():
        if name == "CompareAndPreserve":
            subs = [(m.start(), m.group(1)) for m in re.finditer(r"((?:CompareOp::\w+\s*\|?\s*)+)=>", text)]
            for i, (pos, pat) in enumerate(subs):
                end = subs[i + 1][0] if i + 1 < len(subs) else len(text)
                cs = calls_in(text[pos:end])
                for op in re.findall(r"CompareOp::(\w+)", pat):
                    sites.append((f"CompareAndPreserve.{op}", cs))
            continue
        cs = calls_in(text)
        if re.search(r"\bop_binop!\(", text):
            cs = cs + mac_calls
        if cs:
            sites.append((name, cs))
    for fn in ("push_loop", "merge_kwargs"):
        fb = fn_body(src, r"fn\s+%s\s*(?:<[^>]*>)?\(" % fn + r"[^{]*\{")
        cs = calls_in(fb)
        if cs:
            sites.append((f"fn:{fn}", cs))
    # accounting: every textual helper call in the file is in exactly one site
    total = len(calls_in(src))
    seen = len(mac_calls) + len(calls_in(arms_text(arms))) + sum(len(calls_in(fn_body(src, r"fn\s+%s\s*(?:<[^>]*>)?\(" % fn + r"[^{]*\{"))) for fn in ("push_loop", "merge_kwargs"))
    if total != seen:
        raise KeyError(f"{total} helper calls in vm/mod.rs but only {seen} are inside instruction arms / op_binop! / push_loop / merge_kwargs")
    extra = len(re.findall(r"UndefinedBehavior::", src))
    lean = "def undefVmSites : List (String × List (String × String)) := [\n  " + ",\n  ".join(
        "(" + lean_str(n) + ", [" + ", ".join(f"({lean_str(h)}, {lean_str(a)})" for h, a in cs) + "])" for n, cs in sites) + "]\n" + \
        f"def undefVmInlineModeTests : Nat := {extra}"
    return {"sites": sites, "inline_mode_tests": extra}, lean


def arms_text(arms):
    return "\n".join(arms.values())


@item("C12_BUILTIN_NAMES")
def _builtin_names(repo):
    """names registered by defaults.rs (the check compares them with what the harness covers)"""
    src = strip_comments(read(repo, "minijinja/src/defaults.rs"))
    out = {}
    for kind, fn in (("filter", "build_builtin_filters"), ("test", "build_builtin_tests"), ("function", "build_globals")):
        body = fn_body(src, r"fn\s+%s\s*\(\s*\)[^{]*\{" % fn)
        names = re.findall(r"rv\s*\.\s*insert\(\s*\"([^\"]+)\"\s*\.into\(\)", body)
        if not names:
            raise KeyError(f"no names in {fn}")
        if len(names) != len(re.findall(r"rv\s*\.\s*insert\(", body)):
            raise KeyError(f"{fn}: an insert whose name is not a string literal")
        out[kind] = sorted(set(names))
    lean = "\n".join(
        f"def undefBuiltin{k.capitalize()}s : List String := [" + ", ".join(lean_str(n) for n in v) + "]"
        for k, v in out.items())
    return out, lean


# ---------------------------------------------------------------------------- argument conversion
ARGTYPES = "minijinja/src/value/argtypes.rs"


def norm_type(t):
    """`Option<Cow<'_, str>>` -> `Option<Cow<str>>`, `StringInput<'_>` -> `StringInput`"""
    t = re.sub(r"\s+", "", t)
    t = re.sub(r"'\w+,?", "", t)          # lifetimes
    t = t.replace("<>", "")
    t = t.replace("&mut", "&mut ")
    return t


def impl_blocks(src):
    """[(type text, body)] of every `impl ... ArgType<'a> for T {`"""
    out = []
    for m in re.finditer(r"impl\s*(?:<[^{]*?>)?\s*ArgType<'a>\s+for\s+([^{]+?)\s*\{", src):
        i = m.end() - 1
        depth, j = 0, i
        while j < len(src):
            if src[j] == "{":
                depth += 1
            elif src[j] == "}":
                depth -= 1
                if depth == 0:
                    break
            j += 1
        out.append((m.group(1).strip(), src[i + 1:j]))
    return out


@item("C12_ARG_TYPES")
def _arg_types(repo):
    """for every ArgType impl: 1 = its conversion with a state calls assert_value_not_undefined
    (then converts mode-independently), 2 = a wrapper that forwards the state to its element type,
    0 = never consults the mode (the state is ignored or dropped)."""
    src = strip_comments(read(repo, ARGTYPES))
    rows = {}
    for ty, body in impl_blocks(src):
        name = norm_type(ty)
        name = re.sub(r"\bwhere\b.*", "", name)
        direct = "assert_value_not_undefined" in body
        forwards = bool(re.search(r"T::from_state_and_value\w*\(\s*state\b", body))
        if direct and forwards:
            raise KeyError(f"ArgType impl for {name} both checks and forwards")
        if "undefined_behavior" in body and not direct:
            raise KeyError(f"ArgType impl for {name} consults the mode in an unknown way")
        code = 1 if direct else (2 if forwards else 0)
        # the owned conversion (used for the elements of a Vec<T>) checks only if it is overridden
        owned = 0
        mo = re.search(r"fn\s+from_state_and_value_owned_mut\s*\(", body)
        if mo and "assert_value_not_undefined" in body[mo.start():mo.start() + 600]:
            owned = 1
        if name in rows and rows[name] != (code, owned):
            raise KeyError(f"two ArgType impls for {name}")
        rows[name] = (code, owned)
    # the helper is called nowhere else in the file
    n_calls = len(re.findall(r"assert_value_not_undefined", src))
    n_in_impls = sum(b.count("assert_value_not_undefined") for _, b in impl_blocks(src))
    sinput = fn_body(src, r"impl<'a>\s*StringInput<'a>\s*\{")
    if n_calls != n_in_impls + sinput.count("assert_value_not_undefined"):
        raise KeyError("assert_value_not_undefined is called outside the ArgType impls / StringInput::new")
    prims = re.findall(r"primitive_(?:int_)?try_from!\(\s*(\w+)", src)
    if "$ty" not in rows or not prims:
        raise KeyError("primitive ArgType impls")
    code = rows.pop("$ty")
    for p in prims:
        rows[p] = code
    need = ["String", "Cow<str>", "StringInput", "Option<T>", "Rest<T>", "Vec<T>", "Value", "&Value", "&str", "Kwargs"]
    for k in need:
        if k not in rows:
            raise KeyError(f"no ArgType impl found for {k}")
    items = sorted(rows.items())
    lean = ("/-- (type, conversion with a state: 0 never consults the mode / 1 assert_value_not_undefined / 2 forwards the\n"
            "    state to the element type, owned conversion (elements of a Vec): 0 / 1) -/\n"
            "def undefArgTypes : List (String × Nat × Nat) := [" + ", ".join(f"({lean_str(k)}, {v[0]}, {v[1]})" for k, v in items) + "]")
    return {k: list(v) for k, v in items}, lean


def rust_fns(src):
    """{name: (params text, body)} of every `fn name(...) ... {` in src (comments stripped)"""
    out = {}
    for m in re.finditer(r"\bfn\s+(\w+)\s*(?:<[^>(]*>)?\s*\(", src):
        i = m.end() - 1
        depth, j = 0, i
        while j < len(src):
            if src[j] == "(":
                depth += 1
            elif src[j] == ")":
                depth -= 1
                if depth == 0:
                    break
            j += 1
        params = src[i + 1:j]
        k = j
        while k < len(src) and src[k] not in "{;":
            k += 1
        if k >= len(src) or src[k] == ";":
            continue
        depth, e = 0, k
        while e < len(src):
            if src[e] == "{":
                depth += 1
            elif src[e] == "}":
                depth -= 1
                if depth == 0:
                    break
            e += 1
        out.setdefault(m.group(1), (params, src[k + 1:e]))
    return out


def split_params(params):
    out, depth, cur = [], 0, []
    for ch in params:
        if ch in "<([":
            depth += 1
        elif ch in ">)]":
            depth -= 1
        if ch == "," and depth == 0:
            out.append("".join(cur)); cur = []
        else:
            cur.append(ch)
    if "".join(cur).strip():
        out.append("".join(cur))
    return [p.strip() for p in out if p.strip()]


REACH = [("undefined_behavior", r"undefined_behavior\s*\(\s*\)"),
         ("format", r"\.format\s*\(\s*(?:state|v\s*,\s*state)"),
         ("call", r"\.call\s*\(\s*state"),
         ("StringInput::new", r"StringInput::new\s*\(")]


def registered(repo):
    """[(kind, template name, module, fn name)] from defaults.rs"""
    src = strip_comments(read(repo, "minijinja/src/defaults.rs"))
    out = []
    for kind, fn, mod in (("filter", "build_builtin_filters", "filters"), ("test", "build_builtin_tests", "tests"),
                          ("function", "build_globals", "functions")):
        body = fn_body(src, r"fn\s+%s\s*\(\s*\)[^{]*\{" % fn)
        var = dict(re.findall(r"let\s+(\w+)\s*=\s*Value::from_function\(\s*%s::(\w+)\s*\)" % mod, body))
        for m in re.finditer(r"rv\s*\.\s*insert\(\s*\"([^\"]+)\"\s*\.into\(\)\s*,\s*([^;]*?)\)\s*;", body, re.S):
            name, expr = m.group(1), re.sub(r"\s+", "", m.group(2))
            mm = re.match(r"Value::from_function\(%s::(\w+)" % mod, expr) or re.match(r"BoxedFunction::new\(%s::(\w+)" % mod, expr)
            if mm:
                out.append((kind, name, mod, mm.group(1)))
                continue
            v = re.match(r"(\w+)(?:\.clone\(\))?$", expr)
            if v and v.group(1) in var:
                out.append((kind, name, mod, var[v.group(1)]))
                continue
            raise KeyError(f"cannot resolve the function registered as {kind} `{name}`: {expr[:40]}")
    return out


@item("C12_BUILTIN_SIGS")
def _builtin_sigs(repo):
    """for every registered builtin: the argument types in order (State parameters dropped), and
    how its body can reach the mode: directly (`undefined_behavior()` + which helpers), through
    `.format(state)` / `.call(state, ..)` (nested formatter / filter / test), transitively through
    the local functions it calls."""
    srcs, fns = {}, {}
    for mod in ("filters", "tests", "functions"):
        srcs[mod] = strip_comments(read(repo, f"minijinja/src/{mod}.rs"))
        fns[mod] = rust_fns(srcs[mod])
    rows = []
    for kind, name, mod, fn in registered(repo):
        if fn not in fns[mod]:
            raise KeyError(f"fn {mod}::{fn} not found")
        params, body = fns[mod][fn]
        types = []
        for p in split_params(params):
            mm = re.match(r"(?:mut\s+)?\w+\s*:\s*(.+)$", p, re.S)
            if not mm:
                raise KeyError(f"parameter `{p}` of {fn}")
            t = norm_type(mm.group(1)).replace("crate::value::", "")
            if t in ("&State", "&mut State"):
                continue
            types.append(t)
        # transitive closure over local functions
        seen, todo, reach, helpers = set(), [fn], set(), []
        while todo:
            f = todo.pop()
            if f in seen or f not in fns[mod]:
                continue
            seen.add(f)
            b = fns[mod][f][1]
            for tag, rx in REACH:
                if re.search(rx, b):
                    reach.add(tag)
            helpers += [h for h, _ in calls_in(b)]
            for callee in set(re.findall(r"(?<![\.\w:])(\w+)\s*\(", b)):   # bare calls only (no methods / paths)
                if callee in fns[mod] and callee != f:
                    todo.append(callee)
        rows.append((kind, name, fn, types, sorted(reach), helpers))
    if len(rows) < 90:
        raise KeyError("builtin signatures")

    def ls(xs):
        return "[" + ", ".join(lean_str(x) for x in xs) + "]"

    def parts(t):
        """`Option<Rest<X>>` -> (["Option", "Rest"], "X")"""
        ws = []
        while True:
            m = re.match(r"(Option|Rest|Vec)<(.*)>$", t)
            if not m:
                return ws, t
            ws.append(m.group(1)); t = m.group(2)

    def lt(t):
        ws, b = parts(t)
        return f"({ls(ws)}, {lean_str(b)})"
    lean = ("/-- (kind, registered name, argument types in order as (wrappers, base type), how the body can reach the mode,\n"
            "    helper calls) -/\n"
            "def undefBuiltinSigs : List (String × String × List (List String × String) × List String × List String) := [\n  "
            + ",\n  ".join(f"({lean_str(k)}, {lean_str(n)}, [{', '.join(lt(x) for x in t)}], {ls(r)}, {ls(h)})" for k, n, f, t, r, h in rows) + "]")
    return [{"kind": k, "name": n, "fn": f, "types": t, "reach": r, "helpers": h} for k, n, f, t, r, h in rows], lean


CONTRIB = "minijinja-contrib/src"


@item("C12_CONTRIB_SIGS")
def _contrib_sigs(repo):
    """the filters / functions minijinja-contrib registers (add_to_environment): argument types in order and how
    the body can reach the mode (same row format as C12_BUILTIN_SIGS), plus how pycompat's method callback does."""
    lib = strip_comments(read(repo, CONTRIB + "/lib.rs"))
    body = fn_body(lib, r"pub fn add_to_environment\s*\(")
    regs = re.findall(r"env\s*\.\s*add_(filter|function|test)\(\s*\"([^\"]+)\"\s*,\s*(\w+)::(\w+)\s*\)", body)
    if len(regs) != len(re.findall(r"env\s*\.\s*add_(?:filter|function|test)\(", body)) or len(regs) < 8:
        raise KeyError("add_to_environment: a registration the extractor cannot read")
    srcs = {"filters": strip_comments(read(repo, CONTRIB + "/filters/mod.rs")) + "\n" + strip_comments(read(repo, CONTRIB + "/filters/datetime.rs")),
            "globals": strip_comments(read(repo, CONTRIB + "/globals.rs"))}
    fns = {k: rust_fns(v) for k, v in srcs.items()}
    rows = []
    for kind, name, mod, fn in regs:
        if mod not in fns or fn not in fns[mod]:
            raise KeyError(f"contrib fn {mod}::{fn} not found")
        params, fbody = fns[mod][fn]
        types = []
        for p_ in split_params(params):
            mm = re.match(r"(?:mut\s+)?\w+\s*:\s*(.+)$", p_, re.S)
            if not mm:
                raise KeyError(f"parameter `{p_}` of {fn}")
            t = re.sub(r"\b(?:\w+::)+", "", norm_type(mm.group(1)))
            if t in ("&State", "&mut State"):
                continue
            types.append(t)
        seen, todo, reach, helpers = set(), [fn], set(), []
        while todo:
            f = todo.pop()
            if f in seen or f not in fns[mod]:
                continue
            seen.add(f)
            b = fns[mod][f][1]
            for tag, rx in REACH:
                if re.search(rx, b):
                    reach.add(tag)
            helpers += [h for h, _ in calls_in(b)]
            for callee in set(re.findall(r"(?<![\.\w:])(\w+)\s*\(", b)):
                if callee in fns[mod] and callee != f:
                    todo.append(callee)
        rows.append((kind, name, fn, types, sorted(reach), helpers))
    # pycompat: every way its source reaches the mode
    py = strip_comments(read(repo, CONTRIB + "/pycompat.rs"))
    py_reach = sorted(tag for tag, rx in REACH if re.search(rx, py))
    py_helpers = [h for h, _ in calls_in(py)]

    def ls(xs):
        return "[" + ", ".join(lean_str(x) for x in xs) + "]"

    def parts(t):
        ws = []
        while True:
            m = re.match(r"(Option|Rest|Vec)<(.*)>$", t)
            if not m:
                return ws, t
            ws.append(m.group(1)); t = m.group(2)

    def lt(t):
        ws, b = parts(t)
        return f"({ls(ws)}, {lean_str(b)})"
    lean = ("/-- what minijinja-contrib registers: (kind, name, argument types as (wrappers, base type), how the body can reach\n"
            "    the mode, helper calls) -/\n"
            "def undefContribSigs : List (String × String × List (List String × String) × List String × List String) := [\n  "
            + ",\n  ".join(f"({lean_str(k)}, {lean_str(n)}, [{', '.join(lt(x) for x in t)}], {ls(r)}, {ls(h)})" for k, n, f, t, r, h in rows) + "]\n"
            + f"/-- how the source of pycompat's unknown-method callback can reach the mode, and its direct helper calls -/\n"
            + f"def undefPycompatReach : List String × List String := ({ls(py_reach)}, {ls(py_helpers)})")
    return {"rows": [{"kind": k, "name": n, "fn": f, "types": t, "reach": r, "helpers": h} for k, n, f, t, r, h in rows],
            "pycompat": {"reach": py_reach, "helpers": py_helpers}}, lean


# ---------------------------------------------------------------------------- every mention of the mode
MODE_DIRS = ["minijinja/src", "minijinja-contrib/src"]
PLUMBING_FNS = {"set_undefined_behavior", "undefined_behavior", "new", "empty"}


def rs_files(repo):
    import os
    out = []
    for d in MODE_DIRS:
        for root, _, files in os.walk(os.path.join(repo, d)):
            for f in sorted(files):
                if f.endswith(".rs"):
                    out.append(os.path.relpath(os.path.join(root, f), repo))
    return sorted(out)


def enclosing_fn(src, pos):
    last = None
    for m in re.finditer(r"\bfn\s+(\w+)", src[:pos]):
        last = m.group(1)
    return last or "-"


def block_after(src, i):
    """text of the `{…}` block starting at the first `{` at or after i"""
    j = src.find("{", i)
    if j < 0:
        return ""
    depth, e = 0, j
    while e < len(src):
        if src[e] == "{":
            depth += 1
        elif src[e] == "}":
            depth -= 1
            if depth == 0:
                return src[j:e + 1]
        e += 1
    return src[j:]


def is_error_block(b):
    return bool(re.search(r"\bErr\s*\(|\bbail!\s*\(", b))


def mode_tests_in(src):
    """[(start, end, set of modes for which the predicate is true)] of every comparison of a mode"""
    out = []
    for m in re.finditer(r"(!?)\s*matches!\(\s*([^,]*?undefined_behavior[^,]*?)\s*,\s*((?:\s*UndefinedBehavior::\w+\s*\|?)+)\s*\)", src, re.S):
        S = set(parse_modes(m.group(3)))
        if m.group(1):
            S = set(MODE.values()) - S
        out.append((m.start(), m.end(), S))
    for m in re.finditer(r"[\w\.]*undefined_behavior(?:\s*\(\s*\))?\s*(==|!=)\s*(?:crate::)?UndefinedBehavior::(\w+)", src):
        S = {MODE[m.group(2)]}
        if m.group(1) == "!=":
            S = set(MODE.values()) - S
        out.append((m.start(), m.end(), S))
    for m in re.finditer(r"UndefinedBehavior::(\w+)\s*(==|!=)\s*[\w\.]*undefined_behavior(?:\s*\(\s*\))?", src):
        S = {MODE[m.group(1)]}
        if m.group(2) == "!=":
            S = set(MODE.values()) - S
        out.append((m.start(), m.end(), S))
    return out


@item("C12_MODE_SITES")
def _mode_sites(repo):
    """every mention of the undefined behaviour in minijinja/src and minijinja-contrib/src, classed:
    plumbing (field, setter, getter, default, use/type), alias (`let x = ….undefined_behavior()`),
    helper:<name> (a call of one of the five helpers), rows (the match rows of the helpers and of
    Environment::format, covered by their own tables), test (a comparison with variants: which modes
    take the guarded branch and whether that branch is an error), other (anything else)."""
    mentions, tests = [], []
    for rel in rs_files(repo):
        src = strip_comments(read(repo, rel))
        if "ndefined" not in src:
            continue
        consumed = []          # spans of variant mentions explained by a test / rows
        for (a, b, S) in mode_tests_in(src):
            fn = enclosing_fn(src, a)
            # what does the test guard?
            line_start = src.rfind(";", 0, a) + 1
            line_start = max(line_start, src.rfind("{", 0, a) + 1, src.rfind("}", 0, a) + 1)
            stmt_head = src[line_start:a]
            action, E = "other", S
            mlet = re.search(r"\blet\s+(?:mut\s+)?(\w+)\s*=\s*$", stmt_head)
            if mlet:
                name = mlet.group(1)
                fb_start = src.rfind("fn " + fn, 0, a)
                body = block_after(src, fb_start)
                uses = [u for u in re.finditer(r"\bif\b([^{;]*\b%s\b[^{;]*)\{" % re.escape(name), body)]
                other_uses = len(re.findall(r"\b%s\b" % re.escape(name), body)) - 1 - len(uses)
                if uses and other_uses == 0 and all(is_error_block(block_after(body, u.end() - 1)) for u in uses) \
                        and not any(re.search(r"!\s*%s\b|\|\|" % re.escape(name), u.group(1)) for u in uses):
                    action = "error"
            elif re.search(r"\bif\b[^{;]*$", stmt_head) and "||" not in stmt_head:
                # the rest of the condition up to the block
                k = src.find("{", b)
                cond_rest = src[b:k]
                if "||" not in cond_rest and is_error_block(block_after(src, b)):
                    action = "error"
            tests.append((rel, fn, sorted(E), 0 if action == "error" else 1))
            consumed.append((a, b))
        for m in re.finditer(r"undefined_behavior\b(\s*\(\s*\))?|UndefinedBehavior\b(::\w+)?", src):
            a, b = m.start(), m.end()
            fn = enclosing_fn(src, a)
            if any(x <= a < y for x, y in consumed):
                cls = "test"
            else:
                tail = src[b:b + 60]
                head = src[max(0, a - 80):a]
                hm = re.match(r"\s*\.\s*(%s)\s*\(" % "|".join(HELPERS), tail)
                if m.group(0).startswith("undefined_behavior") and (re.search(r"\bfn\s+\w*$", head) or re.search(r"\w$", head)):
                    cls = "plumbing"    # the name of the accessor / setter being defined
                elif m.group(0).startswith("undefined_behavior") and re.search(r"\blet\s+(?:mut\s+)?$", head):
                    cls = "alias"       # the local variable holding the mode
                elif m.group(0).startswith("undefined_behavior") and hm:
                    cls = "helper:" + hm.group(1)
                elif m.group(0).startswith("UndefinedBehavior::") and rel == UTILS and fn in HELPERS:
                    cls = "rows"
                elif m.group(0).startswith("UndefinedBehavior::") and rel == ENVRS and fn == "format":
                    cls = "rows"
                elif m.group(0).startswith("undefined_behavior") and rel == ENVRS and fn == "format" and re.search(r"match\s*\(\s*self\.\s*$", head):
                    cls = "rows"
                elif m.group(0) in ("UndefinedBehavior", "UndefinedBehavior::default"):
                    cls = "plumbing"
                elif m.group(0).startswith("undefined_behavior") and re.search(r"\blet\s+(?:mut\s+)?\w+\s*=\s*[\w\.\(\)]*$", head) and re.match(r"\s*;", tail):
                    cls = "alias"
                elif m.group(0).startswith("undefined_behavior") and (fn in PLUMBING_FNS or re.match(r"\s*:", tail)):
                    cls = "plumbing"
                elif m.group(0).startswith("undefined_behavior") and re.match(r"\s*,", tail) and re.search(r"matches!\(\s*$", head):
                    cls = "test"        # the subject of a `matches!` split over lines
                else:
                    cls = "other"
            mentions.append((rel, fn, cls))
    if not any(c.startswith("helper:") for _, _, c in mentions):
        raise KeyError("no helper calls found")
    # compress: (file, fn, class) -> count
    import collections
    cnt = collections.OrderedDict()
    for k in mentions:
        cnt[k] = cnt.get(k, 0) + 1
    rows = [(f, fn, c, n) for (f, fn, c), n in cnt.items()]

    def nl(xs):
        return "[" + ", ".join(str(x) for x in xs) + "]"
    lean = ("/-- every comparison of the mode with variants: (file, fn, modes that take the guarded branch, 0 = that branch is an\n"
            "    error / 1 = anything else) -/\n"
            "def undefModeTests : List (String × String × List Nat × Nat) := [\n  "
            + ",\n  ".join(f"({lean_str(f)}, {lean_str(fn)}, {nl(E)}, {a})" for f, fn, E, a in tests) + "]\n"
            "/-- every mention of the mode in minijinja/src and minijinja-contrib/src: (file, fn, class, count) -/\n"
            "def undefModeMentions : List (String × String × String × Nat) := [\n  "
            + ",\n  ".join(f"({lean_str(f)}, {lean_str(fn)}, {lean_str(c)}, {n})" for f, fn, c, n in rows) + "]")
    return {"tests": [list(t) for t in tests], "mentions": [list(r) for r in rows]}, lean


# ---------------------------------------------------------------------------- the mode-blind twins
# `UndefinedBehavior::{try_iter, is_true, handle_undefined}` have twins on `Value` that take the same decision
# WITHOUT the mode (`Value::try_iter` iterates an undefined as empty, `Value::is_true` says false, `get_attr` /
# `get_item(_opt)` / `get_attr_fast` hand back an undefined, `is_undefined` guards a hand-rolled decision).  A site of
# the language that asks the twin instead of the helper is outside the documented matrix (seeded C12-6: the
# recursion arm of push_loop; C12-7: look-ups folded by as_const).  Every call of a twin in the two crates is listed
# here, per (file, fn, twin); `MJ/Proofs/UndefTwins.lean` holds the justification of each row and the theorem
# `blind_twin_sites_justified` is re-checked against this table on every run.
TWINS = ["try_iter", "is_true", "get_attr", "get_item", "get_item_opt", "get_attr_fast", "get_item_by_index", "is_undefined"]


def strip_test_mods(src):
    """drop `#[cfg(test)] mod … { … }` (unit tests inside src)"""
    out, i = [], 0
    for m in re.finditer(r"#\[cfg\(test\)\]\s*mod\s+\w+\s*\{", src):
        if m.start() < i:
            continue
        out.append(src[i:m.start()])
        blk = block_after(src, m.end() - 1)
        i = m.end() - 1 + len(blk)
    out.append(src[i:])
    return "".join(out)


@item("C12_BLIND_TWINS")
def _blind_twins(repo):
    """(file, enclosing fn, twin, number of calls) of every call `.twin(` in minijinja/src and minijinja-contrib/src that
    does not go through the mode (`undefined_behavior().twin(` / `undefined_behavior.twin(` are the helpers themselves)"""
    import collections
    cnt = collections.OrderedDict()
    n_helper = 0
    for rel in rs_files(repo):
        src = strip_test_mods(strip_comments(read(repo, rel)))
        for m in re.finditer(r"\.\s*(%s)\s*\(" % "|".join(TWINS), src):
            head = src[max(0, m.start() - 60):m.start()]
            if re.search(r"undefined_behavior\s*(\(\s*\))?\s*$", head):
                n_helper += 1
                continue
            # the definition of the twin itself (`fn try_iter(`) is not a call: the regex needs a leading dot
            k = (rel, enclosing_fn(src, m.start()), m.group(1))
            cnt[k] = cnt.get(k, 0) + 1
    if n_helper == 0 or not cnt:
        raise KeyError("no twin / helper calls found")
    rows = [(f, fn, tw, n) for (f, fn, tw), n in cnt.items()]
    lean = ("/-- every call of a mode-blind twin (`Value::try_iter`, `is_true`, `get_attr`, `get_item(_opt)`, `get_attr_fast`,\n"
            "    `get_item_by_index`, `is_undefined`) that does not go through the mode: (file, fn, twin, count) -/\n"
            "def undefBlindTwins : List (String × String × String × Nat) := [\n  "
            + ",\n  ".join(f"({lean_str(f)}, {lean_str(fn)}, {lean_str(tw)}, {n})" for f, fn, tw, n in rows) + "]")
    return [list(r) for r in rows], lean
