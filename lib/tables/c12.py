"""C12 table items: what the undefined-behaviour helpers of utils.rs and the mode-consulting sites of
vm/mod.rs / environment.rs say *now*.

Codes (assigned by NAME here, so reordering the Rust enum does not change a meaning):
  mode   Chainable=0  Lenient=1  SemiStrict=2  Strict=3          (the strictness order)
  kind   0 = not undefined, 1 = Undefined(Default), 2 = Undefined(Silent)
  flag   0 = false, 1 = true                                   (`parent_was_undefined`)
  outcome 0 = Err(UndefinedError), 1 = Ok(..)   (Environment::format: 1 = formatter called, 2 = Ok(()) without it)

A helper is emitted as its ordered `match` rows `(modes, kinds-or-flags, outcome)`; the Lean model
(`MJ/Model/Undef.lean`) interprets the rows first-match-wins like Rust does.  Anything this
deliberately dumb parser does not recognise raises (item missing => dependants stop building).
"""
import re
from extract_tables import item, read, fn_body, lean_str

MODE = {"Chainable": 0, "Lenient": 1, "SemiStrict": 2, "Strict": 3}
UTILS = "minijinja/src/utils.rs"
VM = "minijinja/src/vm/mod.rs"
ENVRS = "minijinja/src/environment.rs"
HELPERS = ["handle_undefined", "is_true", "try_iter", "assert_iterable", "assert_value_not_undefined"]


def strip_comments(s):
    s = re.sub(r"/\*.*?\*/", "", s, flags=re.S)
    return re.sub(r"//[^\n]*", "", s)


def split_top(s, sep):
    """split at `sep` (one char) where (), [], {} depth is 0"""
    out, depth, cur = [], 0, []
    for ch in s:
        if ch in "([{":
            depth += 1
        elif ch in ")]}":
            depth -= 1
        if ch == sep and depth == 0:
            out.append("".join(cur)); cur = []
        else:
            cur.append(ch)
    out.append("".join(cur))
    return out


def match_arms(body):
    """[(pattern_text, expr_text)] of the (single) `match` in `body`"""
    inner = fn_body(body, r"match\s*\([^)]*\)\s*\{")
    arms, i, n = [], 0, len(inner)
    while i < n:
        j = inner.find("=>", i)
        if j < 0:
            if inner[i:].strip():
                raise KeyError("unparsed match tail: " + inner[i:].strip()[:50])
            break
        pat = inner[i:j].strip()
        k = j + 2
        while k < n and inner[k].isspace():
            k += 1
        if k < n and inner[k] == "{":
            depth, e = 0, k
            while e < n:
                if inner[e] == "{":
                    depth += 1
                elif inner[e] == "}":
                    depth -= 1
                    if depth == 0:
                        break
                e += 1
            expr = inner[k + 1:e].strip()
            i = e + 1
            while i < n and (inner[i].isspace() or inner[i] == ","):
                i += 1
        else:
            depth, e = 0, k
            while e < n and not (inner[e] == "," and depth == 0):
                if inner[e] in "([{":
                    depth += 1
                elif inner[e] in ")]}":
                    depth -= 1
                e += 1
            expr = inner[k:e].strip()
            i = e + 1
        arms.append((pat, expr))
    return arms


def parse_modes(p):
    p = p.strip()
    if p == "_":
        return sorted(MODE.values())
    out = []
    for alt in p.split("|"):
        m = re.fullmatch(r"\s*UndefinedBehavior::(\w+)\s*", alt)
        if not m or m.group(1) not in MODE:
            raise KeyError(f"mode pattern `{p}`")
        out.append(MODE[m.group(1)])
    return sorted(set(out))


def parse_second(p, flag):
    p = re.sub(r"\s+", "", p)
    if flag:
        tbl = {"_": [0, 1], "false": [0], "true": [1]}
    else:
        tbl = {"_": [0, 1, 2],
               "&ValueRepr::Undefined(UndefinedType::Default)": [1],
               "&ValueRepr::Undefined(UndefinedType::Silent)": [2],
               "&ValueRepr::Undefined(_)": [1, 2]}
    if p not in tbl:
        raise KeyError(f"operand pattern `{p}`")
    return tbl[p]


ERR = "Err(Error::from(ErrorKind::UndefinedError))"


def parse_rows(body, flag, ok_text):
    rows = []
    for pat, expr in match_arms(strip_comments(body)):
        e = re.sub(r"\s+", "", expr)
        if e == ERR:
            outcome = 0
        elif e == ok_text:
            outcome = 1
        else:
            raise KeyError(f"unrecognised arm result `{expr[:60]}` (expected {ERR} or {ok_text})")
        for alt in split_top(pat, "|"):
            alt = alt.strip()
            if alt == "_":
                rows.append((sorted(MODE.values()), [0, 1] if flag else [0, 1, 2], outcome))
                continue
            if not (alt.startswith("(") and alt.endswith(")")):
                raise KeyError(f"arm pattern `{alt}`")
            parts = [x for x in split_top(alt[1:-1], ",") if x.strip()]
            if len(parts) != 2:
                raise KeyError(f"arm pattern `{alt}`")
            rows.append((parse_modes(parts[0]), parse_second(parts[1], flag), outcome))
    if not rows:
        raise KeyError("no rows")
    return rows


def lean_rows(name, rows):
    def nl(xs):
        return "[" + ", ".join(str(x) for x in xs) + "]"
    return f"def {name} : List (List Nat × List Nat × Nat) := [" + ", ".join(
        f"({nl(ms)}, {nl(ks)}, {o})" for ms, ks, o in rows) + "]"


def helper_body(repo, name):
    src = read(repo, UTILS)
    impl = fn_body(src, r"impl UndefinedBehavior\s*\{")
    return fn_body(impl, r"fn\s+%s\s*\(" % name + r"[^{]*\{")


@item("C12_MODES")
def _modes(repo):
    src = strip_comments(read(repo, UTILS))
    body = fn_body(src, r"pub enum UndefinedBehavior\s*\{")
    body = re.sub(r"#\[[^\]]*\]", "", body)
    names = [x.strip() for x in body.split(",") if x.strip()]
    if sorted(names) != sorted(MODE):
        raise KeyError(f"UndefinedBehavior variants are {names}, the model knows {sorted(MODE)}")
    m = re.search(r"#\[default\]\s*(\w+)", fn_body(strip_comments(read(repo, UTILS)), r"pub enum UndefinedBehavior\s*\{"))
    if not m:
        raise KeyError("default mode")
    return {"variants": names, "default": m.group(1)}, (
        f"def undefModeCount : Nat := {len(names)}\n"
        f"def undefDefaultMode : Nat := {MODE[m.group(1)]}")


@item("C12_HANDLE_UNDEFINED")
def _handle_undefined(repo):
    body = helper_body(repo, "handle_undefined")
    if not re.search(r"match\s*\(\s*self\s*,\s*parent_was_undefined\s*\)", body):
        raise KeyError("handle_undefined no longer matches on (self, parent_was_undefined)")
    rows = parse_rows(body, True, "Ok(Value::UNDEFINED)")
    return rows, lean_rows("undefHandleUndefined", rows)


def _value_helper(fname, lean_name, ok_text):
    @item("C12_" + fname.upper())
    def _f(repo):
        body = helper_body(repo, fname)
        if not re.search(r"match\s*\(\s*self\s*,\s*&value\.0\s*\)", body):
            raise KeyError(f"{fname} no longer matches on (self, &value.0)")
        rows = parse_rows(body, False, ok_text)
        return rows, lean_rows(lean_name, rows)
    return _f


_value_helper("is_true", "undefIsTrue", "Ok(value.is_true())")
_value_helper("assert_iterable", "undefAssertIterable", "Ok(())")
_value_helper("assert_value_not_undefined", "undefAssertValueNotUndefined", "Ok(())")


@item("C12_TRY_ITER")
def _try_iter(repo):
    body = re.sub(r"\s+", "", strip_comments(helper_body(repo, "try_iter")))
    want = "self.assert_iterable(&value).and_then(|_|value.try_iter())"
    if body != want:
        raise KeyError(f"try_iter is no longer `{want}`: `{body[:80]}`")
    # 1 = "assert_iterable, then the mode-independent Value::try_iter"
    return True, "def undefTryIterViaAssertIterable : Bool := true"


def matches_modes(text):
    """`matches!(<x>, UndefinedBehavior::A | UndefinedBehavior::B)` -> mode codes"""
    m = re.search(r"matches!\(\s*(?:self\.)?undefined_behavior\s*,\s*([^)]*?)\s*\)", text, re.S)
    if not m:
        raise KeyError("matches!(undefined_behavior, ..)")
    return parse_modes(m.group(1))


def vm_arms(repo):
    """{instruction name: arm text} of the big `match instr` in eval_impl (comments stripped)"""
    src = strip_comments(read(repo, VM))
    body = fn_body(src, r"fn eval_impl\s*\(")
    # arms start at `Instruction::Name` at the beginning of a pattern
    starts = [(m.start(), m.group(1)) for m in re.finditer(r"\n\s*(?:#\[cfg\([^\]]*\)\]\s*)?Instruction::(\w+)[^\n]*?=>", body)]
    if len(starts) < 40:
        raise KeyError("eval_impl instruction arms")
    arms = {}
    for i, (pos, name) in enumerate(starts):
        end = starts[i + 1][0] if i + 1 < len(starts) else len(body)
        arms[name] = body[pos:end]
    return body, arms


CALL = re.compile(r"undefined_behavior(?:\(\))?\s*\.\s*(%s)\s*\(\s*([^()]*(?:\([^()]*\))?[^()]*?)\s*\)" % "|".join(HELPERS), re.S)


def calls_in(text):
    out = []
    for m in CALL.finditer(text):
        arg = re.sub(r"\s+", "", m.group(2)).lstrip("&")
        out.append((m.group(1), arg))
    return out


@item("C12_VM_EMIT")
def _vm_emit(repo):
    body, arms = vm_arms(repo)
    m = re.search(r"let\s+strict_undefined\s*=\s*(matches!\([^;]*\))\s*;", body, re.S)
    if not m:
        raise KeyError("let strict_undefined = matches!(..)")
    modes = matches_modes(m.group(1))
    emit = re.sub(r"\s+", "", arms["Emit"])
    want = "ifstrict_undefined&&matches!(value.0,ValueRepr::Undefined(UndefinedType::Default))"
    if want not in emit or emit.count("strict_undefined") != 1:
        raise KeyError("Emit arm: `if strict_undefined && matches!(value.0, Undefined(Default))`")
    if "ifstate.env().is_default_formatter(){ifstrict_undefined" not in emit or "state.env().format(&value,state,out)" not in emit:
        raise KeyError("Emit arm: default-formatter / env.format split")
    others = [n for n, t in arms.items() if n != "Emit" and "strict_undefined" in t]
    if others:
        raise KeyError(f"strict_undefined is used outside Emit: {others}")
    return {"modes": modes, "kinds": [1]}, lean_rows("undefVmEmitFails", [(modes, [1], 0)])


@item("C12_VM_SLICE")
def _vm_slice(repo):
    body, arms = vm_arms(repo)
    t = re.sub(r"\s+", "", arms["Slice"])
    m = re.search(r"if(\w+)\.is_undefined\(\)&&(matches!\(undefined_behavior,[^)]*\))\{bail!\(Error::from\(ErrorKind::UndefinedError\)\);\}", t)
    if not m or m.group(1) != "a":
        raise KeyError("Slice arm: `if a.is_undefined() && matches!(undefined_behavior, ..) { bail!(UndefinedError) }`")
    modes = parse_modes(re.search(r"matches!\(undefined_behavior,(.*)\)", m.group(2)).group(1).replace("|", " | "))
    return {"modes": modes, "kinds": [1, 2]}, lean_rows("undefVmSliceFails", [(modes, [1, 2], 0)])


@item("C12_ENV_FORMAT")
def _env_format(repo):
    src = strip_comments(read(repo, ENVRS))
    body = fn_body(src, r"pub\(crate\) fn format\s*\(")
    if not re.search(r"match\s*\(\s*self\.undefined_behavior\s*,\s*&value\.0\s*\)", body):
        raise KeyError("Environment::format no longer matches on (self.undefined_behavior, &value.0)")
    rows = []
    for pat, expr in match_arms(body):
        e = re.sub(r"\s+", "", expr)
        # outcome 0 = Err(UndefinedError), 1 = the value is handed to the formatter (default or custom),
        # 2 = Ok(()) without consulting the formatter (nothing is written)
        if e == ERR:
            outcome = 0
        elif e == "Ok(())":
            outcome = 2
        elif re.fullmatch(r"ifself\.formatter_is_default\{write_escaped\(out,state\.auto_escape\(\),value\)\}else\{\(self\.formatter\)\(out,state,value\)\}", e):
            outcome = 1
        else:
            raise KeyError(f"format arm `{expr[:60]}`")
        for alt in split_top(pat, "|"):
            alt = alt.strip()
            if alt == "_":
                rows.append((sorted(MODE.values()), [0, 1, 2], outcome))
            else:
                parts = [x for x in split_top(alt[1:-1], ",") if x.strip()]
                rows.append((parse_modes(parts[0]), parse_second(parts[1], False), outcome))
    return rows, lean_rows("undefEnvFormat", rows)


@item("C12_VM_SITES")
def _vm_sites(repo):
    """every helper call in vm/mod.rs, by instruction arm (macros expanded by hand: op_binop!),
    CompareAndPreserve split by CompareOp, plus the free functions push_loop / merge_kwargs.
    The total must account for every helper call of the file."""
    src = strip_comments(read(repo, VM))
    body, arms = vm_arms(repo)
    sites = []
    mac = re.search(r"macro_rules!\s*op_binop\s*\{(.*?)\n\s{12}\}", body, re.S)
    if not mac:
        raise KeyError("op_binop! macro")
    mac_calls = calls_in(mac.group(1))
    prelude_end = body.find("match instr")
    for name, text in arms.items():
        if name == "CompareAndPreserve":
            subs = [(m.start(), m.group(1)) for m in re.finditer(r"((?:CompareOp::\w+\s*\|?\s*)+)=>", text)]
            for i, (pos, pat) in enumerate(subs):
                end = subs[i + 1][0] if i + 1 < len(subs) else len(text)
                cs = calls_in(text[pos:end])
                for op in re.findall(r"CompareOp::(\w+)", pat):
                    sites.append((f"CompareAndPreserve.{op}", cs))
            continue
        cs = calls_in(text)
        if re.search(r"\bop_binop!\(", text):
            cs = cs + mac_calls
        if cs:
            sites.append((name, cs))
    for fn in ("push_loop", "merge_kwargs"):
        fb = fn_body(src, r"fn\s+%s\s*(?:<[^>]*>)?\(" % fn + r"[^{]*\{")
        cs = calls_in(fb)
        if cs:
            sites.append((f"fn:{fn}", cs))
    # accounting: every textual helper call in the file is in exactly one site
    total = len(calls_in(src))
    seen = len(mac_calls) + len(calls_in(arms_text(arms))) + sum(len(calls_in(fn_body(src, r"fn\s+%s\s*(?:<[^>]*>)?\(" % fn + r"[^{]*\{"))) for fn in ("push_loop", "merge_kwargs"))
    if total != seen:
        raise KeyError(f"{total} helper calls in vm/mod.rs but only {seen} are inside instruction arms / op_binop! / push_loop / merge_kwargs")
    extra = len(re.findall(r"UndefinedBehavior::", src))
    lean = "def undefVmSites : List (String × List (String × String)) := [\n  " + ",\n  ".join(
        "(" + lean_str(n) + ", [" + ", ".join(f"({lean_str(h)}, {lean_str(a)})" for h, a in cs) + "])" for n, cs in sites) + "]\n" + \
        f"def undefVmInlineModeTests : Nat := {extra}"
    return {"sites": sites, "inline_mode_tests": extra}, lean


def arms_text(arms):
    return "\n".join(arms.values())


@item("C12_BUILTIN_NAMES")
def _builtin_names(repo):
    """names registered by defaults.rs (the check compares them with what the harness covers)"""
    src = strip_comments(read(repo, "minijinja/src/defaults.rs"))
    out = {}
    for kind, fn in (("filter", "build_builtin_filters"), ("test", "build_builtin_tests"), ("function", "build_globals")):
        body = fn_body(src, r"fn\s+%s\s*\(\s*\)[^{]*\{" % fn)
        names = re.findall(r"rv\s*\.\s*insert\(\s*\"([^\"]+)\"\s*\.into\(\)", body)
        if not names:
            raise KeyError(f"no names in {fn}")
        if len(names) != len(re.findall(r"rv\s*\.\s*insert\(", body)):
            raise KeyError(f"{fn}: an insert whose name is not a string literal")
        out[kind] = sorted(set(names))
    lean = "\n".join(
        f"def undefBuiltin{k.capitalize()}s : List String := [" + ", ".join(lean_str(n) for n in v) + "]"
        for k, v in out.items())
    return out, lean
