"""C09 table items: the glue around the slice arithmetic that the Lean model (`MJ.Sub`) interprets
instead of duplicating — which `ValueRepr`s `ops::slice` dispatches on and what it builds for
them, how bounds become `i64` (arms of `primitive_int_try_from!`, the clamp of `slice_bound`),
error kinds and message formats, the `usize::MAX` stand-in for iterables of unknown length, which
length function `get_item_opt` hands to `index` for each repr, the object-repr strategy table of
`get_item_opt`, `handle_undefined`, `ValueKind` display names and the repr → kind map.

Every item checks the *shape* of the code it summarises (raises KeyError otherwise = missing item =
broken tie), so the summary cannot silently drift from the source."""
import re
from extract_tables import item, read, fn_body, lean_str, const

OPS = "minijinja/src/value/ops.rs"
VMOD = "minijinja/src/value/mod.rs"
ARGT = "minijinja/src/value/argtypes.rs"
UTILS = "minijinja/src/utils.rs"
VM = "minijinja/src/vm/mod.rs"


def _lst(xs):
    return "[" + ", ".join(lean_str(x) for x in xs) + "]"


def _pairs(ps):
    return "[" + ", ".join("(%s, %s)" % (lean_str(a), lean_str(b)) for a, b in ps) + "]"


def _nocomment(s):
    return re.sub(r"//[^\n]*", "", s)


def _arms(body):
    """split the top level of a `match` body into (pattern, expression) pairs"""
    arms, depth, i, start = [], 0, 0, 0
    pat = None
    n = len(body)
    while i < n:
        c = body[i]
        if c in "({[":
            depth += 1
        elif c in ")}]":
            depth -= 1
            if depth == 0 and c == "}" and pat is not None:
                # a block arm ends at its closing brace (optional comma follows)
                j = i + 1
                while j < n and body[j] in " \n\t":
                    j += 1
                if j < n and body[j] == ",":
                    j += 1
                # only if the expression started with `{`
                if body[start:i + 1].lstrip().startswith("{"):
                    arms.append((pat.strip(), body[start:i + 1].strip()))
                    pat, start, i = None, j, j
                    continue
        elif depth == 0 and pat is None and body.startswith("=>", i):
            pat = body[start:i]
            start = i + 2
            i += 2
            continue
        elif depth == 0 and pat is not None and c == ",":
            arms.append((pat.strip(), body[start:i].strip()))
            pat, start = None, i + 1
        i += 1
    if pat is not None and body[start:].strip():
        arms.append((pat.strip(), body[start:].strip()))
    return arms


def _reprs(pat):
    return re.findall(r"ValueRepr::(\w+)", pat)


@item("C09_SLICE_DISPATCH")
def _slice_dispatch(repo):
    src = read(repo, OPS)
    body = _nocomment(fn_body(src, r"pub fn slice\(value: Value, start: Value, stop: Value, step: Value\)"))
    m = fn_body(body, r"match value\.0\s*\{")
    table, obj_reprs, default = [], None, None
    for pat, expr in _arms(m):
        if pat == "_":
            default = expr
            continue
        rs = _reprs(pat)
        if rs == ["Object"]:
            g = re.search(r"if matches!\(obj\.repr\(\),\s*([^)]*)\)", pat)
            if not g:
                raise KeyError("slice: object arm guard")
            obj_reprs = re.findall(r"ObjectRepr::(\w+)", g.group(1))
            # shape of the object arm: tuples stay tuples, the rest becomes a lazy iterable
            if "if is_tuple" not in expr or "Value::from(Tuple::from(values))" not in expr \
                    or expr.count("Value::make_object_iterable") != 2:
                raise KeyError("slice: object arm shape")
            continue
        if "collect::<String>()" in expr and "s.chars()" in expr and not re.search(r"(?<!\w)s\.len\(\)", expr) \
                and "as_bytes" not in expr and "|| s.chars().count()" in expr and "chars.len()" in expr:
            cls = "str"
        elif "Value::from_bytes" in expr and "b.len()" in expr:
            cls = "bytes"
        elif re.fullmatch(r"Ok\(Value::from\(Vec::<Value>::new\(\)\)\)", expr):
            cls = "empty"
        else:
            raise KeyError("slice: unknown arm " + pat)
        for r in rs:
            table.append((r, cls))
    if default != "error" or obj_reprs is None:
        raise KeyError("slice: default arm")
    # every arm: forward = get_offset_and_len + skip/take/step_by, backward = range_step_backwards
    if len(re.findall(r"get_offset_and_len\(start, stop,", m)) != 5 or len(re.findall(r"range_step_backwards\(", m)) != 4:
        raise KeyError("slice: arm structure (get_offset_and_len / range_step_backwards call sites)")
    if len(re.findall(r"\.skip\(start\)\s*\.take\(len\)\s*\.step_by\(step as usize\)", m)) != 5:
        raise KeyError("slice: skip/take/step_by chains")
    lean = ("def c09SliceDispatch : List (String × String) := %s\n"
            "def c09SliceObjectReprs : List String := %s" % (_pairs(table), _lst(obj_reprs)))
    return {"reprs": table, "object_reprs": obj_reprs}, lean


@item("C09_SLICE_PRELUDE")
def _slice_prelude(repo):
    """what happens before the dispatch: the three conversions in order, omitted = `is_none()`,
    zero step error, `usize::MAX` for unknown lengths, the `from_end` test"""
    src = read(repo, OPS)
    body = _nocomment(fn_body(src, r"pub fn slice\(value: Value, start: Value, stop: Value, step: Value\)"))
    head = body[:body.index("match value.0")]
    order = re.findall(r"let (start|stop|step) = if (\w+)\.is_none\(\) \{\s*(None|1i64)\s*\} else \{\s*(?:Some\()?ok!\(slice_bound\((\w+)\)\)\)?\s*\};", head)
    if [o[0] for o in order] != ["start", "stop", "step"] or any(o[0] != o[1] or o[0] != o[3] for o in order) \
            or [o[2] for o in order] != ["None", "None", "1i64"]:
        raise KeyError("slice: conversion prelude")
    z = re.search(r"if step == 0 \{\s*return Err\(Error::new\(\s*ErrorKind::(\w+),\s*\"([^\"]*)\",?\s*\)\);\s*\}", head)
    if not z:
        raise KeyError("slice: zero step error")
    e = re.search(r"let error = Err\(Error::new\(\s*ErrorKind::(\w+),\s*format!\(\"([^\"]*)\"\),?\s*\)\);", head)
    if not e or "let kind = value.kind();" not in head:
        raise KeyError("slice: unsliceable error")
    if head.index("step == 0") > head.index("let error"):
        raise KeyError("slice: order of zero-step check and dispatch")
    if "known_len.unwrap_or(usize::MAX)" not in body or "if known_len.is_none() && from_end" not in body \
            or "let from_end = start.map_or(false, |x| x < 0) || stop.map_or(false, |x| x < 0);" not in body \
            or "let known_len = obj.enumerator_len();" not in body:
        raise KeyError("slice: unsized iterable handling")
    isn = fn_body(read(repo, VMOD), r"pub fn is_none\(&self\) -> bool")
    if isn.strip() != "matches!(&self.0, ValueRepr::None)":
        raise KeyError("Value::is_none")
    val = {"zero_step": [z.group(1), z.group(2)], "unsliceable": [e.group(1), e.group(2)]}
    lean = ("def c09ZeroStepErr : String × String := (%s, %s)\n"
            "def c09UnsliceableErr : String × String := (%s, %s)\n"
            "def c09UnsizedLen : Nat := 18446744073709551615"
            % (lean_str(z.group(1)), lean_str(z.group(2)), lean_str(e.group(1)), lean_str(e.group(2))))
    return val, lean


@item("C09_INT_CONVERSION")
def _int_conv(repo):
    src = read(repo, ARGT)
    body = _nocomment(fn_body(src, r"macro_rules! primitive_int_try_from\s*\{"))
    inner = fn_body(body, r"primitive_try_from!\(\$ty,\s*\{")
    arms = []
    for pat, expr in _arms(inner):
        r = _reprs(pat)
        if len(r) != 1:
            raise KeyError("primitive_int_try_from arm " + pat)
        arms.append((r[0], re.sub(r"\s+", " ", pat.split("=>")[0]).strip(), expr))
    names = [a[0] for a in arms]
    shape = {"Bool": "val as usize", "I64": "val", "U64": "val", "I128": "val.0", "U128": "val.0", "F64": "val as i64"}
    for n, pat, expr in arms:
        if shape.get(n) != expr:
            raise KeyError("primitive_int_try_from arm body " + n)
        if n == "F64":
            if "if (val as i64 as f64 == val && val < i64::MAX as f64)" not in pat:
                raise KeyError("primitive_int_try_from F64 guard")
        elif " if " in pat:
            raise KeyError("primitive_int_try_from guard on " + n)
    ptf = fn_body(src, r"macro_rules! primitive_try_from\s*\{")
    if "TryFrom::try_from($expr).ok()" not in ptf or "_ => None" not in ptf \
            or ".ok_or_else(|| unsupported_conversion(value.kind(), stringify!($ty)))" not in ptf:
        raise KeyError("primitive_try_from shape")
    uc = fn_body(src, r"fn unsupported_conversion\(kind: ValueKind, target: &str\) -> Error")
    m = re.search(r"ErrorKind::(\w+),\s*format!\(\"([^\"]*)\"\)", uc)
    if not m:
        raise KeyError("unsupported_conversion")
    # Value::as_i64 / as_usize
    vm = read(repo, VMOD)
    if fn_body(vm, r"pub fn as_i64\(&self\) -> Option<i64>").strip() != "i64::try_from(self.clone()).ok()":
        raise KeyError("Value::as_i64")
    au = _nocomment(fn_body(vm, r"pub fn as_usize\(&self\) -> Option<usize>"))
    if not re.search(r"ValueRepr::I64\(val\) => TryFrom::try_from\(val\)\.ok\(\),\s*ValueRepr::U64\(val\) => TryFrom::try_from\(val\)\.ok\(\),\s*_ => self\.clone\(\)\.try_into\(\)\.ok\(\),", au):
        raise KeyError("Value::as_usize")
    # slice_bound: which reprs are clamped and how
    sb = _nocomment(fn_body(read(repo, OPS), r"fn slice_bound\(value: Value\) -> Result<i64, Error>"))
    cm = fn_body(sb, r"let clamped = match value\.0\s*\{")
    clamp = []
    for pat, expr in _arms(cm):
        if pat == "_":
            if expr != "return i64::try_from(value)":
                raise KeyError("slice_bound default arm")
            continue
        how = {"i64::MAX": "max", "i64::MIN": "min"}.get(expr)
        if how is None:
            raise KeyError("slice_bound arm " + pat)
        for r in _reprs(pat):
            if " if " in pat:
                if "if v.0 < 0" not in pat or how != "min":
                    raise KeyError("slice_bound guard")
                clamp.append((r, "min-if-negative"))
            else:
                clamp.append((r, how))
    if "Ok(i64::try_from(value).unwrap_or(clamped))" not in sb:
        raise KeyError("slice_bound tail")
    lean = ("def c09IntTryFromArms : List String := %s\n"
            "def c09ConversionErr : String × String := (%s, %s)\n"
            "def c09SliceBoundClamp : List (String × String) := %s"
            % (_lst(names), lean_str(m.group(1)), lean_str(m.group(2)), _pairs(clamp)))
    return {"arms": names, "error": [m.group(1), m.group(2)], "clamp": clamp}, lean


@item("C09_GET_ITEM")
def _get_item(repo):
    src = read(repo, VMOD)
    body = _nocomment(fn_body(src, r"pub\(crate\) fn get_item_opt\(&self, key: &Value\) -> Option<Value>"))
    idx = fn_body(body, r"fn index\(value: &Value, len: impl Fn\(\) -> Option<usize>\) -> Option<usize>")
    want = ("match value.as_i64().and_then(|v| isize::try_from(v).ok()) {"
            " Some(i) if i < 0 => some!(len()).checked_sub(i.unsigned_abs()),"
            " Some(i) => Some(i as usize), None => None, }")
    if re.sub(r"\s+", " ", idx).strip() != want:
        raise KeyError("get_item_opt::index")
    rest = body[body.index("match self.0"):]
    m = fn_body(rest, r"match self\.0\s*\{")
    lenfn, objs, default = [], [], None
    for pat, expr in _arms(m):
        if pat == "_":
            default = expr
            continue
        rs = _reprs(pat)
        if rs == ["Object"]:
            om = fn_body(expr, r"match dy\.repr\(\)\s*\{")
            for opat, oexpr in _arms(om):
                names = re.findall(r"ObjectRepr::(\w+)", opat)
                o = re.sub(r"\s+", " ", oexpr)
                if o == "dy.get_value(key)":
                    how = "get_value"
                elif "if let Some(rv) = dy.get_value(key) { return Some(rv); }" in o and "iter.nth(idx)" in o \
                        and "dy.enumerator_len() .or_else(|| dy.try_iter().map(|iter| iter.count()))" in o \
                        and o.index("index(key") < o.index("dy.try_iter().map(|iter| iter.count())") \
                        and "if let Some(idx) = index(key, || {" in o:
                    how = "get_value-then-nth(index,len-or-count-on-demand)"
                elif o == ("{ let idx = index(key, || { dy.enumerator_len() .or_else(|| dy.try_iter().map(|iter| iter.count())) }) "
                           ".map(Value::from); dy.get_value(idx.as_ref().unwrap_or(key)) }"):
                    # since fix dad5284 the length offered to `index` is the announced length or, on demand, the
                    # number of items (the model's `.seq xs` has exactly `xs.length` items either way)
                    how = "get_value(index-or-key)"
                else:
                    raise KeyError("get_item_opt object arm " + opat)
                for n in names:
                    objs.append((n, how))
            continue
        e = re.sub(r"\s+", " ", expr)
        g = re.search(r"let idx = some!\(index\(key, \|\| Some\(([^;]*)\)\)\);", e)
        if not g or len(rs) != 1:
            raise KeyError("get_item_opt arm " + pat)
        fn = g.group(1).replace("s.as_str().", "s.")
        if fn == "s.chars().count()":
            if not re.search(r"s(\.as_str\(\))?\.chars\(\)\.nth\(idx\)\.map\(Value::from\)", e):
                raise KeyError("get_item_opt string arm")
            fn = "chars"
        elif fn == "b.len()":
            if "b.get(idx).copied().map(Value::from)" not in e:
                raise KeyError("get_item_opt bytes arm")
            fn = "bytes"
        else:
            fn = "other:" + fn
        lenfn.append((rs[0], fn))
    if default != "None":
        raise KeyError("get_item_opt default")
    gi = re.sub(r"\s+", " ", fn_body(src, r"pub fn get_item\(&self, key: &Value\) -> Result<Value, Error>")).strip()
    if gi != ("if let ValueRepr::Undefined(_) = self.0 { Err(Error::from(ErrorKind::UndefinedError)) } else { "
              "Ok(self.get_item_opt(key).unwrap_or(Value::UNDEFINED)) }"):
        raise KeyError("Value::get_item")
    gbi = re.sub(r"\s+", " ", fn_body(src, r"pub fn get_item_by_index\(&self, idx: usize\) -> Result<Value, Error>")).strip()
    if gbi != "self.get_item(&Value(ValueRepr::U64(idx as _)))":
        raise KeyError("Value::get_item_by_index")
    ga = re.sub(r"\s+", " ", fn_body(src, r"pub fn get_attr\(&self, key: &str\) -> Result<Value, Error>")).strip()
    if ga != ("let value = match self.0 { ValueRepr::Undefined(_) => return Err(Error::from(ErrorKind::UndefinedError)), "
              "ValueRepr::Object(ref dy) => dy.get_value_by_str(key), _ => None, }; Ok(value.unwrap_or(Value::UNDEFINED))"):
        raise KeyError("Value::get_attr")
    # the sequences the engine builds answer `get_value` by `as_usize`
    obj = read(repo, "minijinja/src/value/object.rs")
    vecm = fn_body(obj, r"macro_rules! impl_value_vec\s*\{")
    if "self.get(some!(key.as_usize())).cloned().map(|v| v.into())" not in vecm:
        raise KeyError("impl_value_vec get_value")
    tup = read(repo, "minijinja/src/value/tuple.rs")
    if "self.get(key.as_usize()?).cloned()" not in tup:
        raise KeyError("Tuple get_value")
    lean = ("def c09GetItemLenFn : List (String × String) := %s\n"
            "def c09GetItemObject : List (String × String) := %s" % (_pairs(lenfn), _pairs(objs)))
    return {"lenfn": lenfn, "objects": objs}, lean


@item("C09_VM_SUBSCRIPT")
def _vm(repo):
    src = _nocomment(read(repo, VM))
    flat = re.sub(r"\s+", " ", src)
    gi = ("Instruction::GetItem => { a = stack.pop(); b = stack.pop(); stack.push(match b.get_item_opt(&a) { "
          "Some(value) => assert_valid!(value), None => ctx_ok!(undefined_behavior.handle_undefined(b.is_undefined())), }); }")
    ga = ("stack.push(match a.get_attr_fast(name) { Some(value) => assert_valid!(value), "
          "None => ctx_ok!(undefined_behavior.handle_undefined(a.is_undefined())), });")
    if gi not in flat:
        raise KeyError("vm GetItem arm")
    if ga not in flat:
        raise KeyError("vm GetAttr arm")
    m = re.search(r"Instruction::Slice => \{ let step = stack\.pop\(\); let stop = stack\.pop\(\); b = stack\.pop\(\); a = stack\.pop\(\); "
                  r"if a\.is_undefined\(\) && matches!\(undefined_behavior, ([^)]*)\) \{ bail!\(Error::from\(ErrorKind::(\w+)\)\); \} "
                  r"stack\.push\(ctx_ok!\(ops::slice\(a, b, stop, step\)\)\); \}", flat)
    if not m:
        raise KeyError("vm Slice arm")
    modes = re.findall(r"UndefinedBehavior::(\w+)", m.group(1))
    hu = _nocomment(fn_body(read(repo, UTILS), r"pub\(crate\) fn handle_undefined\(self, parent_was_undefined: bool\) -> Result<Value, Error>"))
    inner = fn_body(hu, r"match \(self, parent_was_undefined\)\s*\{")
    rows = []
    for pat, expr in _arms(inner):
        if expr == "Ok(Value::UNDEFINED)":
            res = "undefined"
        elif expr == "Err(Error::from(ErrorKind::UndefinedError))":
            res = "UndefinedError"
        else:
            raise KeyError("handle_undefined arm")
        for mode, flag in re.findall(r"\(UndefinedBehavior::(\w+), (false|true|_)\)", pat):
            for f in (["false", "true"] if flag == "_" else [flag]):
                rows.append((mode + ":" + f, res))
    if len(rows) != 8 or len(set(r[0] for r in rows)) != 8:
        raise KeyError("handle_undefined table")
    # omitted slice parts are compiled to `none`
    cg = re.sub(r"\s+", " ", _nocomment(read(repo, "minijinja/src/compiler/codegen.rs")))
    if cg.count("} else { self.add(Instruction::LoadConst(Value::from(()))); }") < 3:
        raise KeyError("codegen: omitted slice parts")
    lean = ("def c09VmSliceUndefinedErrModes : List String := %s\n"
            "def c09VmSliceUndefinedErr : String := %s\n"
            "def c09HandleUndefined : List (String × String) := %s"
            % (_lst(modes), lean_str(m.group(2)), _pairs(sorted(rows))))
    return {"slice_undefined_error_modes": modes, "handle_undefined": sorted(rows)}, lean


@item("C09_KINDS")
def _kinds(repo):
    src = read(repo, VMOD)
    disp = fn_body(src, r"impl fmt::Display for ValueKind\s*\{")
    names = re.findall(r"ValueKind::(\w+)\s*=>\s*\"([^\"]*)\"", disp)
    if len(names) < 11:
        raise KeyError("ValueKind Display")
    kb = _nocomment(fn_body(src, r"pub fn kind\(&self\) -> ValueKind"))
    inner = fn_body(kb, r"match self\.0\s*\{")
    rk = []
    for pat, expr in _arms(inner):
        rs = _reprs(pat)
        if rs == ["Object"]:
            for o, k in re.findall(r"ObjectRepr::(\w+)\s*=>\s*ValueKind::(\w+)", expr):
                rk.append(("Object:" + o, k))
            continue
        g = re.fullmatch(r"ValueKind::(\w+)", expr)
        if not g:
            raise KeyError("Value::kind arm " + pat)
        for r in rs:
            rk.append((r, g.group(1)))
    lean = ("def c09KindDisplay : List (String × String) := %s\n"
            "def c09ReprKind : List (String × String) := %s" % (_pairs(names), _pairs(sorted(rk))))
    return {"display": names, "repr_kind": sorted(rk)}, lean


@item("C09_INDEXABLE_OBJECTS")
def _indexable(repo):
    """every `impl Object for T` in minijinja/src that defines `get_value`, and whether that
    `get_value` has an integer-key path (`as_usize` / `as_i64` / forwards to `get_item` / `get_item_opt`).  The C09
    harness must subscript a value of each integer-indexable type (lib/props/c09.py checks it)."""
    import os
    root = os.path.join(repo, "minijinja", "src")
    found = []
    for dp, _, fs in sorted(os.walk(root)):
        for fn in sorted(fs):
            if not fn.endswith(".rs"):
                continue
            rel = os.path.relpath(os.path.join(dp, fn), repo)
            src = read(repo, rel)
            code = re.sub(r"^\s*//[/!].*$", "", src, flags=re.M)
            for m in re.finditer(r"\bimpl(?:<[^>{]*>)?\s+Object\s+for\s+([^\{]+?)\s*(?:\bwhere\b[^\{]*)?\{", code):
                name = re.sub(r"\s+", " ", m.group(1)).strip()
                body = fn_body(code[m.start():], r"\{")
                g = re.search(r"fn get_value\s*\(", body)
                if not g:
                    continue
                gv = fn_body(body[g.start():], r"\)\s*->\s*Option<Value>\s*\{")
                intpath = bool(re.search(r"as_usize\(\)|as_i64\(\)|\.get_item(?:_opt)?\(", gv))
                found.append((os.path.basename(rel) + ":" + name, "int" if intpath else "other"))
    if not found:
        raise KeyError("no Object impls with get_value")
    lean = "def c09IndexableObjects : List (String × String) := %s" % _pairs(found)
    return found, lean


# ------------------------------------------------------------------------------------------
# deepening round 5: conversion sites, every object implementation, repetitions, reversed views
INT_TYPES = ("u8", "u16", "u32", "u64", "u128", "i8", "i16", "i32", "i64", "i128", "usize", "isize")


def _triples(ps):
    return "[" + ", ".join("(%s, %s, %s)" % (lean_str(a), lean_str(b), lean_str(c)) for a, b, c in ps) + "]"


def _rs_files(repo, sub):
    import os
    root = os.path.join(repo, sub)
    for dp, _, fs in sorted(os.walk(root)):
        for fn in sorted(fs):
            if fn.endswith(".rs"):
                yield os.path.relpath(os.path.join(dp, fn), repo)


def _strip_docs(src):
    return re.sub(r"^\s*//[^\n]*$", "", src, flags=re.M)


@item("C09_CONVERSION_SITES")
def _conversion_sites(repo):
    """every place where a template value becomes a subscript, a slice bound / step, a position or
    a count: (site, conversion function, target type).  `slice_bound` for the three parts of a
    slice, `as_i64+isize` for `get_item_opt::index`, `as_usize` wherever the source says
    `.as_usize()` on a key / count, `try_from` for the integer-typed parameters and keyword
    arguments of filters, functions and tests (`ArgType` goes through `TryFrom<Value>`, i.e.
    `primitive_int_try_from!`), and the sites that take no value at all (`loop.cycle`,
    `get_item_by_index`, the numeric parts of attribute paths)."""
    sites = []
    ops = _nocomment(read(repo, OPS))
    body = fn_body(ops, r"pub fn slice\(value: Value, start: Value, stop: Value, step: Value\)")
    for part in ("start", "stop", "step"):
        if not re.search(r"ok!\(slice_bound\(%s\)\)" % part, body):
            raise KeyError("slice: conversion of " + part)
        sites.append(("ops::slice." + part, "slice_bound", "i64"))
    vm = _nocomment(read(repo, VMOD))
    gi = fn_body(vm, r"pub\(crate\) fn get_item_opt\(&self, key: &Value\) -> Option<Value>")
    if "value.as_i64().and_then(|v| isize::try_from(v).ok())" not in gi:
        raise KeyError("get_item_opt::index conversion")
    sites.append(("get_item_opt::index", "as_i64+isize", "isize"))
    if "self.get_item(&Value(ValueRepr::U64(idx as _)))" not in vm:
        raise KeyError("get_item_by_index")
    sites.append(("Value::get_item_by_index", "u64-wrap", "usize"))
    gp = fn_body(vm, r"pub\(crate\) fn get_path\(&self, path: &str\) -> Result<Value, Error>")
    if "part.parse::<usize>()" not in gp or "rv.get_item_by_index(num)" not in gp:
        raise KeyError("get_path")
    sites.append(("Value::get_path.part", "parse-usize", "usize"))
    # every `.as_usize()` / `.as_i64()` outside value/mod.rs's own definitions
    for rel in list(_rs_files(repo, "minijinja/src")) + list(_rs_files(repo, "minijinja-contrib/src")):
        src = _strip_docs(read(repo, rel))
        for m in re.finditer(r"(\w+)\.as_usize\(\)", src):
            # the enclosing fn
            fns = re.findall(r"fn\s+(\w+)\s*[<(]", src[:m.start()])
            fn = fns[-1] if fns else "?"
            owner = ""
            if fn == "get_value":
                impls = re.findall(r"impl(?:<[^>{]*>)?\s+Object\s+for\s+([^\{]+?)\s*(?:\bwhere\b[^\{]*)?\{", src[:m.start()])
                owner = (re.sub(r"\s+", " ", impls[-1]).strip() + "::") if impls else ""
            where = "%s:%s%s.%s" % (rel.split("/")[-1], owner, fn, m.group(1))
            if rel.endswith("vm/context.rs") or rel.endswith("vm/mod.rs") or rel.endswith("syntax.rs") or rel.endswith("serialize.rs"):
                continue    # internal bookkeeping values (closure handles, stack depth), never a template's subscript
            sites.append((where, "as_usize", "usize"))
    # typed parameters / keyword arguments
    for rel in ("minijinja/src/filters.rs", "minijinja/src/functions.rs", "minijinja/src/tests.rs",
                "minijinja-contrib/src/filters/mod.rs", "minijinja-contrib/src/globals.rs"):
        try:
            src = _strip_docs(read(repo, rel))
        except FileNotFoundError:
            continue
        for m in re.finditer(r"pub fn (\w+)\s*(?:<[^>]*>)?\s*\(([^)]*)\)", src):
            name, params = m.group(1), m.group(2)
            for pm in re.finditer(r"(\w+)\s*:\s*(?:Option<)?(%s)>?\s*(?:,|$)" % "|".join(INT_TYPES), params):
                sites.append(("%s:%s.%s" % (rel.split("/")[-1] if "contrib" not in rel else "contrib/" + rel.split("/")[-1], name, pm.group(1)), "try_from", pm.group(2)))
            body_m = src[m.end():]
            # keyword arguments read inside the function (up to the next `pub fn`)
            nxt = re.search(r"\n\s*pub fn ", body_m)
            fbody = body_m[:nxt.start()] if nxt else body_m
            for km in re.finditer(r"get::<(?:Option<)?(%s)>?>\(\"(\w+)\"\)" % "|".join(INT_TYPES), fbody):
                sites.append(("%s:%s.%s" % (rel.split("/")[-1] if "contrib" not in rel else "contrib/" + rel.split("/")[-1], name, km.group(2)), "try_from", km.group(1)))
    # loop.cycle: the loop's own counter modulo the number of arguments
    lo = _nocomment(read(repo, "minijinja/src/vm/loop_object.rs"))
    if not re.search(r"let idx = self\.idx\.load\(Ordering::Relaxed\);\s*match args\.get\(idx % args\.len\(\)\)", lo):
        raise KeyError("loop.cycle")
    sites.append(("loop.cycle", "internal-index", ""))
    # the integer types `TryFrom<Value>` exists for
    arg = read(repo, ARGT)
    types = re.findall(r"^primitive_int_try_from!\((\w+)\);", arg, re.M)
    if not types or any(t not in INT_TYPES for t in types):
        raise KeyError("primitive_int_try_from instances")
    seen, uniq = set(), []
    for s_ in sites:
        if s_ not in seen:
            seen.add(s_)
            uniq.append(s_)
    lean = ("def c09ConversionSites : List (String × String × String) := %s\n"
            "def c09IntTypes : List String := %s" % (_triples(uniq), _lst(types)))
    return {"sites": uniq, "types": types}, lean


@item("C09_REPEATED")
def _repeated(repo):
    """`ops::repeat_iterable` and `struct Repeated`: the limit, the normalisation of empty operands,
    the collapse of nested repetitions, what is enumerated and which length is announced"""
    src = _nocomment(read(repo, OPS))
    body = re.sub(r"\s+", " ", fn_body(src, r"fn repeat_iterable\(n: &Value, seq: &DynObject\) -> Result<Value, Error>"))
    need = ["let n = ok!(n.as_usize().ok_or_else(",
            "let len = ok!(seq.enumerator_len().ok_or_else(",
            "let total = match len.checked_mul(n) { Some(total) if total <= MAX_REPEATED_STRING_LEN => total,",
            "let n = if len == 0 { 0 } else { n };",
            "let (seq, len, n) = match seq.downcast_ref::<Repeated>() { Some(inner) => ( inner.seq.clone(), inner.len, if total == 0 { 0 } else { inner.n * n }, ), None => (seq.clone(), len, n), };",
            "Ok(Value::from_object(Repeated { seq, len, n, total }))"]
    pos = -1
    for piece in need:
        k = body.find(piece)
        if k < 0 or k < pos:
            raise KeyError("repeat_iterable shape: " + piece[:40])
        pos = k
    m = re.search(r"_ => \{ return Err\(Error::new\( ErrorKind::(\w+), \"(repeated sequence is too large)\", \)\) \}", body)
    if not m:
        raise KeyError("repeat_iterable: too-large error")
    rep = re.sub(r"\s+", " ", fn_body(src, r"impl Object for Repeated\s*\{"))
    if "ObjectRepr::Iterable" not in rep or "Box::new(LenIterWrap( this.total, (0..this.n).flat_map(move |_| { this.seq.try_iter()" not in rep:
        raise KeyError("Repeated::enumerate shape")
    liw = re.sub(r"\s+", " ", fn_body(src, r"impl<I: Iterator<Item = Value> \+ Send \+ Sync> Iterator for LenIterWrap<I>\s*\{"))
    if "(self.0, Some(self.0))" not in liw or "self.1.next()" not in liw:
        raise KeyError("LenIterWrap")
    mx = const(read(repo, OPS), "MAX_REPEATED_STRING_LEN")
    lean = ("def c09RepeatedMax : Nat := %d\n"
            "def c09RepeatedTooLarge : String × String := (%s, %s)" % (mx, lean_str(m.group(1)), lean_str(m.group(2))))
    return {"max": mx, "error": [m.group(1), m.group(2)]}, lean


@item("C09_OBJECT_IMPLS")
def _object_impls(repo):
    """every `impl Object for T` of the engine and of minijinja-contrib with its `ObjectRepr`
    (`dynamic` = decided at run time) and the enumerator it builds, the variants of `Enumerator`
    and `ObjectRepr`, and the macro instantiations that stamp out implementations for the std
    collections.  The C09 harness must slice and subscript a value of every implementation whose
    representation is `Seq` or `Iterable` (lib/props/c09.py checks it)."""
    import os
    found = []
    for rel in list(_rs_files(repo, "minijinja/src")) + list(_rs_files(repo, "minijinja-contrib/src")):
        src = read(repo, rel)
        code = re.sub(r"^\s*//[/!].*$", "", src, flags=re.M)
        code = re.sub(r"//[^\n]*", "", code)
        for m in re.finditer(r"\bimpl(?:<[^>{]*>)?\s+Object\s+for\s+([^\{]+?)\s*(?:\bwhere\b[^\{]*)?\{", code):
            name = re.sub(r"\s+", " ", m.group(1)).strip()
            body = fn_body(code[m.start():], r"\{")
            rm = re.search(r"fn repr\s*\(", body)
            if rm:
                rb = fn_body(body[rm.start():], r"\)\s*->\s*ObjectRepr\s*\{")
                reprs = re.findall(r"ObjectRepr::(\w+)", rb)
                repr_ = reprs[0] if len(set(reprs)) == 1 else "dynamic"
                if not reprs:
                    repr_ = "dynamic"
            else:
                repr_ = "Map"        # the default of the trait
            em = re.search(r"fn enumerate\s*\(", body)
            if em:
                eb = fn_body(body[em.start():], r"\)\s*->\s*Enumerator\s*\{")
                hows = re.findall(r"Enumerator::(\w+)|\b(mapped_(?:rev_)?(?:key_value_)?enumerator)\b|\.\$(enumerator)\b", eb)
                how = "+".join(sorted(set(x for t in hows for x in t if x))) or "other"
            else:
                how = "default"
            if "#[cfg(test)]" in code[:m.start()]:
                continue
            found.append(((("contrib/" if "contrib" in rel else "") + os.path.basename(rel) + ":" + name), repr_, how))
    if not found:
        raise KeyError("no Object impls")
    obj = read(repo, "minijinja/src/value/object.rs")
    code = re.sub(r"//[^\n]*", "", obj)
    variants = re.findall(r"^\s{4}([A-Z]\w*)(?:\(.*\))?,\s*$", fn_body(code, r"pub enum Enumerator\s*\{"), re.M)
    reprs = re.findall(r"^\s{4}([A-Z]\w*),\s*$", fn_body(code, r"pub enum ObjectRepr\s*\{"), re.M)
    macros = re.findall(r"^\s*(impl_value_vec|impl_value_iterable|impl_value_map|impl_str_map)!\((\w+)(?:,\s*(\w+))?\);", code, re.M)
    if len(variants) < 9 or len(reprs) != 4 or not macros:
        raise KeyError("Enumerator / ObjectRepr / collection macros")
    # the trait's default representation
    tr = fn_body(code, r"pub trait Object: fmt::Debug \+ Send \+ Sync\s*\{")
    dm = re.search(r"fn repr\(self: &Arc<Self>\) -> ObjectRepr \{\s*ObjectRepr::(\w+)\s*\}", tr)
    if not dm or dm.group(1) != "Map":
        raise KeyError("Object::repr default")
    # every arm of try_iter / query_len handles every variant
    ti = fn_body(code, r"\$vis fn try_iter\(self: \$self_ty\) -> Option<Box<dyn Iterator<Item = Value> \+ Send \+ Sync>>")
    ql = fn_body(code, r"fn query_len\(&self\) -> Option<usize>")
    for v in variants:
        if "Enumerator::" + v not in ti or "Enumerator::" + v not in ql:
            raise KeyError("try_iter / query_len arm for " + v)
    exact = re.findall(r"Enumerator::(\w+)\(i\) => match i\.size_hint\(\) \{\s*\(a, Some\(b\)\) if a == b => a,\s*_ => return None,\s*\}", ql)
    if sorted(exact) != ["Iter", "KeyValueIter", "RevIter", "RevKeyValueIter"]:
        raise KeyError("query_len: exact size hints")
    mac = [(a, b, c) for a, b, c in macros]
    lean = ("def c09ObjectImpls : List (String × String × String) := %s\n"
            "def c09EnumeratorVariants : List String := %s\n"
            "def c09ObjectReprs : List String := %s\n"
            "def c09CollectionMacros : List (String × String × String) := %s"
            % (_triples(found), _lst(variants), _lst(reprs), _triples(mac)))
    return {"impls": found, "variants": variants, "reprs": reprs, "macros": mac}, lean


@item("C09_REVERSE")
def _reverse(repo):
    """`Value::reverse`: one arm per `Enumerator` variant, each of which reverses"""
    src = _nocomment(read(repo, VMOD))
    body = fn_body(src, r"pub fn reverse\(&self\) -> Result<Value, Error>")
    om = fn_body(body, r"ValueRepr::Object\(ref o\) => match o\.enumerate\(\)\s*\{")
    arms = []
    for pat, expr in _arms(om):
        v = re.findall(r"Enumerator::(\w+)", pat)
        if len(v) != 1:
            raise KeyError("reverse arm " + pat)
        e = re.sub(r"\s+", " ", expr)
        if v[0] == "NonEnumerable":
            how = "none" if e == "None" else None
        elif v[0] == "Empty":
            how = "empty" if "None::<Value>.into_iter()" in e else None
        elif v[0] == "Seq":
            how = "positions-rev" if "(0..l).rev().map(move |idx|" in e else None
        elif v[0] in ("Iter", "KeyValueIter", "Values"):
            how = "collect-reverse" if "v.reverse();" in e and "Box::new(v.iter().cloned())" in e else None
        elif v[0] in ("RevIter", "RevKeyValueIter"):
            # `forward`: the double-ended iterator is boxed as it is, i.e. NOT reversed (the model and
            # the expectations follow what the source says; Python's answer is the oracle's)
            how = ("rev" if re.search(r"Box::new\(iter\.rev\(\)", e) else
                   "forward" if re.search(r"Box::new\(iter\) as Box<dyn Iterator", e) else None)
            if "for_restart.reverse()" not in e:
                how = None
        elif v[0] == "Str":
            how = "rev" if "s.iter().rev().copied()" in e else None
        else:
            how = None
        if how is None:
            raise KeyError("Value::reverse: arm %s does not reverse" % v[0])
        arms.append((v[0], how))
    flat = re.sub(r"\s+", " ", body)
    for piece in ("ValueRepr::String(ref s, _) => Some(Value::from(s.chars().rev().collect::<String>()))",
                  "Some(Value::from(s.as_str().chars().rev().collect::<String>()))",
                  "b.iter().rev().copied().collect::<Vec<_>>()"):
        if piece not in flat:
            raise KeyError("Value::reverse: string / bytes arm")
    lean = "def c09ReverseArms : List (String × String) := %s" % _pairs(arms)
    return arms, lean


@item("C09_MERGESEQ_FLATTEN")
def _mergeseq_flatten(repo):
    """`MergeSeq::with_repr` flattens nested chains beyond `MAX_DEPTH` with an explicit stack
    (`push_flattened_value`): pop the last pending value, replace a `MergeSeq` by its operands in
    REVERSE order (so that the first operand is popped first), append anything else"""
    src = _nocomment(read(repo, "minijinja/src/value/merge_object.rs"))
    pf = re.sub(r"\s+", " ", fn_body(src, r"fn push_flattened_value\(value: &Value, values: &mut Vec<Value>\)")).strip()
    want = ("let mut pending = vec![value.clone()]; while let Some(value) = pending.pop() { "
            "if let Some(seq) = value.downcast_object_ref::<Self>() { pending.extend(seq.values.iter().rev().cloned()); } "
            "else { values.push(value); } }")
    if pf != want:
        raise KeyError("MergeSeq::push_flattened_value shape")
    wr = re.sub(r"\s+", " ", fn_body(src, r"fn with_repr\(mut values: Vec<Value>, repr: ObjectRepr\) -> Self"))
    for piece in ("if depth > Self::MAX_DEPTH { let mut flattened = Vec::new(); for value in values.iter() { Self::push_flattened_value(value, &mut flattened); } values = flattened;",
                  "total_len: values.iter().map(|v| v.len()).sum(),"):
        if piece not in wr:
            raise KeyError("MergeSeq::with_repr shape: " + piece[:40])
    steps = ["pop-last", "merge:extend-operands-reversed", "other:push"]
    return steps, "def c09MergeFlatten : List String := %s" % _lst(steps)


# ------------------------------------------------------------------------------------------
# session 4: the enumerator layer under `ops::slice` / `get_item_opt` for objects
OBJ = "minijinja/src/value/object.rs"


@item("C09_ENUMERATOR_ARMS")
def _enumerator_arms(repo):
    """what objects hand to `ops::slice` and `get_item_opt`: the arms of `try_iter` (what an object of
    each `Enumerator` variant yields), of `Enumerator::query_len` (what it announces as its length),
    the default `enumerator_len`, the length `get_item_opt` offers to `index` for `ObjectRepr::Seq`
    objects, and the data flow of the non-tuple object arm of `ops::slice` (which length stands in
    where).  The Lean model of objects (`MJ.Sub.Obj`, MJ/Model/SubObj.lean) interprets these tables."""
    src = _nocomment(read(repo, OBJ))
    flat = lambda s: re.sub(r"\s+", " ", s).strip()
    helpers = fn_body(src, r"macro_rules! impl_object_helpers\s*\{")
    ti = fn_body(helpers, r"fn try_iter\(self: \$self_ty\) -> Option<Box<dyn Iterator<Item = Value> \+ Send \+ Sync>>\s*where\s*Self: 'static,\s*\{")
    tm = fn_body(ti, r"match self\.enumerate\(\)\s*\{")
    pairs_or_keys = "{ if let ObjectRepr::Map = self.repr() { Some(Box::new(iter.map(|(key, _)| key))) } else { Some(Box::new(iter.map(Value::from))) } }"
    want_iter = {
        "NonEnumerable": ("None", "none"),
        "Empty": ("Some(Box::new(None::<Value>.into_iter()))", "empty"),
        "Seq": ("{ let self_clone = self.clone(); Some(Box::new((0..l).map(move |idx| { self_clone.get_value(&Value::from(idx)).unwrap_or_default() }))) }",
                "get_value-by-position"),
        "Iter": ("Some(iter)", "iter"),
        "RevIter": ("Some(Box::new(iter))", "iter"),
        "KeyValueIter": (pairs_or_keys, "keys-if-map-else-pairs"),
        "RevKeyValueIter": (pairs_or_keys, "keys-if-map-else-pairs"),
        "Str": ("Some(Box::new(s.iter().copied().map(Value::from)))", "names"),
        "Values": ("Some(Box::new(v.into_iter()))", "values"),
    }
    iter_arms = []
    for pat, expr in _arms(tm):
        v = re.findall(r"Enumerator::(\w+)", pat)
        if len(v) != 1 or v[0] not in want_iter:
            raise KeyError("try_iter arm " + pat)
        text, how = want_iter[v[0]]
        if flat(expr) != text:
            raise KeyError("try_iter: arm %s changed" % v[0])
        iter_arms.append((v[0], how))
    ql = fn_body(src, r"fn query_len\(&self\) -> Option<usize>")
    qm = fn_body(ql, r"Some\(match self\s*\{")
    if not flat(ql).startswith("Some(match self {"):
        raise KeyError("query_len shape")
    hint = "match i.size_hint() { (a, Some(b)) if a == b => a, _ => return None, }"
    want_len = {"Empty": ("0", "zero"), "Values": ("v.len()", "len"), "Str": ("v.len()", "len"), "Iter": (hint, "exact-size-hint"),
                "KeyValueIter": (hint, "exact-size-hint"), "RevIter": (hint, "exact-size-hint"), "RevKeyValueIter": (hint, "exact-size-hint"),
                "Seq": ("*v", "announced"), "NonEnumerable": ("return None", "none")}
    len_arms = []
    for pat, expr in _arms(qm):
        v = re.findall(r"Enumerator::(\w+)", pat)
        if len(v) != 1 or v[0] not in want_len:
            raise KeyError("query_len arm " + pat)
        text, how = want_len[v[0]]
        if flat(expr) != text:
            raise KeyError("query_len: arm %s changed" % v[0])
        len_arms.append((v[0], how))
    el = flat(fn_body(src, r"fn enumerator_len\(self: &Arc<Self>\) -> Option<usize>"))
    if el != "self.enumerate().query_len()":
        raise KeyError("Object::enumerator_len default")
    # get_item_opt, Seq arm: which length `index` gets
    vm = _nocomment(read(repo, VMOD))
    gi = fn_body(vm, r"pub\(crate\) fn get_item_opt\(&self, key: &Value\) -> Option<Value>")
    sa = re.search(r"ObjectRepr::Seq => \{(.*?)\n                \}", gi, re.S)
    if not sa:
        raise KeyError("get_item_opt Seq arm")
    seq_arm = flat(sa.group(1))
    if seq_arm == ("let idx = index(key, || { dy.enumerator_len() .or_else(|| dy.try_iter().map(|iter| iter.count())) }) .map(Value::from); "
                   "dy.get_value(idx.as_ref().unwrap_or(key))"):
        seq_len = "len-or-count-on-demand"
    elif seq_arm == "let idx = index(key, || dy.enumerator_len()).map(Value::from); dy.get_value(idx.as_ref().unwrap_or(key))":
        seq_len = "len"
    else:
        raise KeyError("get_item_opt Seq arm changed")
    # ops::slice, the lazy (non-tuple) object arm
    ops = _nocomment(read(repo, OPS))
    sl = flat(fn_body(ops, r"pub fn slice\(value: Value, start: Value, stop: Value, step: Value\)"))
    flow = []
    for name, piece in [
        ("tuple:items", "let values = obj .try_iter() .map(|iter| iter.collect::<Vec<_>>()) .unwrap_or_default();"),
        ("tuple:forward-len", "get_offset_and_len(start, stop, || values.len());"),
        ("tuple:backward-len", "range_step_backwards(start, stop, step.unsigned_abs() as usize, values.len())"),
        ("forward:known-len", "if step > 0 { let known_len = obj.enumerator_len();"),
        ("forward:from-end", "let from_end = start.map_or(false, |x| x < 0) || stop.map_or(false, |x| x < 0);"),
        ("forward:collect-if", "if known_len.is_none() && from_end { let vec: Vec<Value> = iter.collect(); let (start, len) = get_offset_and_len(start, stop, || vec.len()); "
                               "Box::new(vec.into_iter().skip(start).take(len).step_by(step as usize)) }"),
        ("forward:lazy", "else { let (start, len) = get_offset_and_len(start, stop, || known_len.unwrap_or(usize::MAX)); "
                         "Box::new(iter.skip(start).take(len).step_by(step as usize)) }"),
        ("backward:collect", "if let Some(iter) = obj.try_iter() { let vec: Vec<Value> = iter.collect(); Box::new( range_step_backwards( start, stop, "
                             "step.unsigned_abs() as usize, vec.len(), ) .map(move |i| vec[i].clone()), ) }"),
        ("not-iterable:empty", "} else { Box::new(None.into_iter()) }"),
    ]:
        if piece not in sl:
            raise KeyError("ops::slice object arm: " + name)
        flow.append(name)
    if sl.count("} else { Box::new(None.into_iter()) }") != 2:
        raise KeyError("ops::slice object arm: not-iterable branches")
    lean = ("def c09TryIterArms : List (String × String) := %s\n"
            "def c09QueryLenArms : List (String × String) := %s\n"
            "def c09GetItemSeqLen : String := %s\n"
            "def c09SliceObjectFlow : List String := %s" % (_pairs(iter_arms), _pairs(len_arms), lean_str(seq_len), _lst(flow)))
    return {"try_iter": iter_arms, "query_len": len_arms, "seq_len": seq_len, "slice_flow": flow}, lean
