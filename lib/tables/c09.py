"""C09 table items: the glue around the slice arithmetic that the Lean model (`MJ.Sub`) interprets
instead of duplicating — which `ValueRepr`s `ops::slice` dispatches on and what it builds for
them, how bounds become `i64` (arms of `primitive_int_try_from!`, the clamp of `slice_bound`),
error kinds and message formats, the `usize::MAX` stand-in for iterables of unknown length, which
length function `get_item_opt` hands to `index` for each repr, the object-repr strategy table of
`get_item_opt`, `handle_undefined`, `ValueKind` display names and the repr → kind map.

Every item checks the *shape* of the code it summarises (raises KeyError otherwise = missing item =
broken tie), so the summary cannot silently drift from the source."""
import re
from extract_tables import item, read, fn_body, lean_str

OPS = "minijinja/src/value/ops.rs"
VMOD = "minijinja/src/value/mod.rs"
ARGT = "minijinja/src/value/argtypes.rs"
UTILS = "minijinja/src/utils.rs"
VM = "minijinja/src/vm/mod.rs"


def _lst(xs):
    return "[" + ", ".join(lean_str(x) for x in xs) + "]"


def _pairs(ps):
    return "[" + ", ".join("(%s, %s)" % (lean_str(a), lean_str(b)) for a, b in ps) + "]"


def _nocomment(s):
    return re.sub(r"//[^\n]*", "", s)


def _arms(body):
    """split the top level of a `match` body into (pattern, expression) pairs"""
    arms, depth, i, start = [], 0, 0, 0
    pat = None
    n = len(body)
    while i < n:
        c = body[i]
        if c in "({[":
            depth += 1
        elif c in ")}]":
            depth -= 1
            if depth == 0 and c == "}" and pat is not None:
                # a block arm ends at its closing brace (optional comma follows)
                j = i + 1
                while j < n and body[j] in " \n\t":
                    j += 1
                if j < n and body[j] == ",":
                    j += 1
                # only if the expression started with `{`
                if body[start:i + 1].lstrip().startswith("{"):
                    arms.append((pat.strip(), body[start:i + 1].strip()))
                    pat, start, i = None, j, j
                    continue
        elif depth == 0 and pat is None and body.startswith("=>", i):
            pat = body[start:i]
            start = i + 2
            i += 2
            continue
        elif depth == 0 and pat is not None and c == ",":
            arms.append((pat.strip(), body[start:i].strip()))
            pat, start = None, i + 1
        i += 1
    if pat is not None and body[start:].strip():
        arms.append((pat.strip(), body[start:].strip()))
    return arms


def _reprs(pat):
    return re.findall(r"ValueRepr::(\w+)", pat)


@item("C09_SLICE_DISPATCH")
def _slice_dispatch(repo):
    src = read(repo, OPS)
    body = _nocomment(fn_body(src, r"pub fn slice\(value: Value, start: Value, stop: Value, step: Value\)"))
    m = fn_body(body, r"match value\.0\s*\{")
    table, obj_reprs, default = [], None, None
    for pat, expr in _arms(m):
        if pat == "_":
            default = expr
            continue
        rs = _reprs(pat)
        if rs == ["Object"]:
            g = re.search(r"if matches!\(obj\.repr\(\),\s*([^)]*)\)", pat)
            if not g:
                raise KeyError("slice: object arm guard")
            obj_reprs = re.findall(r"ObjectRepr::(\w+)", g.group(1))
            # shape of the object arm: tuples stay tuples, the rest becomes a lazy iterable
            if "if is_tuple" not in expr or "Value::from(Tuple::from(values))" not in expr \
                    or expr.count("Value::make_object_iterable") != 2:
                raise KeyError("slice: object arm shape")
            continue
        if "collect::<String>()" in expr and "s.chars()" in expr and not re.search(r"(?<!\w)s\.len\(\)", expr) \
                and "as_bytes" not in expr and "|| s.chars().count()" in expr and "chars.len()" in expr:
            cls = "str"
        elif "Value::from_bytes" in expr and "b.len()" in expr:
            cls = "bytes"
        elif re.fullmatch(r"Ok\(Value::from\(Vec::<Value>::new\(\)\)\)", expr):
            cls = "empty"
        else:
            raise KeyError("slice: unknown arm " + pat)
        for r in rs:
            table.append((r, cls))
    if default != "error" or obj_reprs is None:
        raise KeyError("slice: default arm")
    # every arm: forward = get_offset_and_len + skip/take/step_by, backward = range_step_backwards
    if len(re.findall(r"get_offset_and_len\(start, stop,", m)) != 5 or len(re.findall(r"range_step_backwards\(", m)) != 4:
        raise KeyError("slice: arm structure (get_offset_and_len / range_step_backwards call sites)")
    if len(re.findall(r"\.skip\(start\)\s*\.take\(len\)\s*\.step_by\(step as usize\)", m)) != 5:
        raise KeyError("slice: skip/take/step_by chains")
    lean = ("def c09SliceDispatch : List (String × String) := %s\n"
            "def c09SliceObjectReprs : List String := %s" % (_pairs(table), _lst(obj_reprs)))
    return {"reprs": table, "object_reprs": obj_reprs}, lean


@item("C09_SLICE_PRELUDE")
def _slice_prelude(repo):
    """what happens before the dispatch: the three conversions in order, omitted = `is_none()`,
    zero step error, `usize::MAX` for unknown lengths, the `from_end` test"""
    src = read(repo, OPS)
    body = _nocomment(fn_body(src, r"pub fn slice\(value: Value, start: Value, stop: Value, step: Value\)"))
    head = body[:body.index("match value.0")]
    order = re.findall(r"let (start|stop|step) = if (\w+)\.is_none\(\) \{\s*(None|1i64)\s*\} else \{\s*(?:Some\()?ok!\(slice_bound\((\w+)\)\)\)?\s*\};", head)
    if [o[0] for o in order] != ["start", "stop", "step"] or any(o[0] != o[1] or o[0] != o[3] for o in order) \
            or [o[2] for o in order] != ["None", "None", "1i64"]:
        raise KeyError("slice: conversion prelude")
    z = re.search(r"if step == 0 \{\s*return Err\(Error::new\(\s*ErrorKind::(\w+),\s*\"([^\"]*)\",?\s*\)\);\s*\}", head)
    if not z:
        raise KeyError("slice: zero step error")
    e = re.search(r"let error = Err\(Error::new\(\s*ErrorKind::(\w+),\s*format!\(\"([^\"]*)\"\),?\s*\)\);", head)
    if not e or "let kind = value.kind();" not in head:
        raise KeyError("slice: unsliceable error")
    if head.index("step == 0") > head.index("let error"):
        raise KeyError("slice: order of zero-step check and dispatch")
    if "known_len.unwrap_or(usize::MAX)" not in body or "if known_len.is_none() && from_end" not in body \
            or "let from_end = start.map_or(false, |x| x < 0) || stop.map_or(false, |x| x < 0);" not in body \
            or "let known_len = obj.enumerator_len();" not in body:
        raise KeyError("slice: unsized iterable handling")
    isn = fn_body(read(repo, VMOD), r"pub fn is_none\(&self\) -> bool")
    if isn.strip() != "matches!(&self.0, ValueRepr::None)":
        raise KeyError("Value::is_none")
    val = {"zero_step": [z.group(1), z.group(2)], "unsliceable": [e.group(1), e.group(2)]}
    lean = ("def c09ZeroStepErr : String × String := (%s, %s)\n"
            "def c09UnsliceableErr : String × String := (%s, %s)\n"
            "def c09UnsizedLen : Nat := 18446744073709551615"
            % (lean_str(z.group(1)), lean_str(z.group(2)), lean_str(e.group(1)), lean_str(e.group(2))))
    return val, lean


@item("C09_INT_CONVERSION")
def _int_conv(repo):
    src = read(repo, ARGT)
    body = _nocomment(fn_body(src, r"macro_rules! primitive_int_try_from\s*\{"))
    inner = fn_body(body, r"primitive_try_from!\(\$ty,\s*\{")
    arms = []
    for pat, expr in _arms(inner):
        r = _reprs(pat)
        if len(r) != 1:
            raise KeyError("primitive_int_try_from arm " + pat)
        arms.append((r[0], re.sub(r"\s+", " ", pat.split("=>")[0]).strip(), expr))
    names = [a[0] for a in arms]
    shape = {"Bool": "val as usize", "I64": "val", "U64": "val", "I128": "val.0", "U128": "val.0", "F64": "val as i64"}
    for n, pat, expr in arms:
        if shape.get(n) != expr:
            raise KeyError("primitive_int_try_from arm body " + n)
        if n == "F64":
            if "if (val as i64 as f64 == val && val < i64::MAX as f64)" not in pat:
                raise KeyError("primitive_int_try_from F64 guard")
        elif " if " in pat:
            raise KeyError("primitive_int_try_from guard on " + n)
    ptf = fn_body(src, r"macro_rules! primitive_try_from\s*\{")
    if "TryFrom::try_from($expr).ok()" not in ptf or "_ => None" not in ptf \
            or ".ok_or_else(|| unsupported_conversion(value.kind(), stringify!($ty)))" not in ptf:
        raise KeyError("primitive_try_from shape")
    uc = fn_body(src, r"fn unsupported_conversion\(kind: ValueKind, target: &str\) -> Error")
    m = re.search(r"ErrorKind::(\w+),\s*format!\(\"([^\"]*)\"\)", uc)
    if not m:
        raise KeyError("unsupported_conversion")
    # Value::as_i64 / as_usize
    vm = read(repo, VMOD)
    if fn_body(vm, r"pub fn as_i64\(&self\) -> Option<i64>").strip() != "i64::try_from(self.clone()).ok()":
        raise KeyError("Value::as_i64")
    au = _nocomment(fn_body(vm, r"pub fn as_usize\(&self\) -> Option<usize>"))
    if not re.search(r"ValueRepr::I64\(val\) => TryFrom::try_from\(val\)\.ok\(\),\s*ValueRepr::U64\(val\) => TryFrom::try_from\(val\)\.ok\(\),\s*_ => self\.clone\(\)\.try_into\(\)\.ok\(\),", au):
        raise KeyError("Value::as_usize")
    # slice_bound: which reprs are clamped and how
    sb = _nocomment(fn_body(read(repo, OPS), r"fn slice_bound\(value: Value\) -> Result<i64, Error>"))
    cm = fn_body(sb, r"let clamped = match value\.0\s*\{")
    clamp = []
    for pat, expr in _arms(cm):
        if pat == "_":
            if expr != "return i64::try_from(value)":
                raise KeyError("slice_bound default arm")
            continue
        how = {"i64::MAX": "max", "i64::MIN": "min"}.get(expr)
        if how is None:
            raise KeyError("slice_bound arm " + pat)
        for r in _reprs(pat):
            if " if " in pat:
                if "if v.0 < 0" not in pat or how != "min":
                    raise KeyError("slice_bound guard")
                clamp.append((r, "min-if-negative"))
            else:
                clamp.append((r, how))
    if "Ok(i64::try_from(value).unwrap_or(clamped))" not in sb:
        raise KeyError("slice_bound tail")
    lean = ("def c09IntTryFromArms : List String := %s\n"
            "def c09ConversionErr : String × String := (%s, %s)\n"
            "def c09SliceBoundClamp : List (String × String) := %s"
            % (_lst(names), lean_str(m.group(1)), lean_str(m.group(2)), _pairs(clamp)))
    return {"arms": names, "error": [m.group(1), m.group(2)], "clamp": clamp}, lean


@item("C09_GET_ITEM")
def _get_item(repo):
    src = read(repo, VMOD)
    body = _nocomment(fn_body(src, r"pub\(crate\) fn get_item_opt\(&self, key: &Value\) -> Option<Value>"))
    idx = fn_body(body, r"fn index\(value: &Value, len: impl Fn\(\) -> Option<usize>\) -> Option<usize>")
    want = ("match value.as_i64().and_then(|v| isize::try_from(v).ok()) {"
            " Some(i) if i < 0 => some!(len()).checked_sub(i.unsigned_abs()),"
            " Some(i) => Some(i as usize), None => None, }")
    if re.sub(r"\s+", " ", idx).strip() != want:
        raise KeyError("get_item_opt::index")
    rest = body[body.index("match self.0"):]
    m = fn_body(rest, r"match self\.0\s*\{")
    lenfn, objs, default = [], [], None
    for pat, expr in _arms(m):
        if pat == "_":
            default = expr
            continue
        rs = _reprs(pat)
        if rs == ["Object"]:
            om = fn_body(expr, r"match dy\.repr\(\)\s*\{")
            for opat, oexpr in _arms(om):
                names = re.findall(r"ObjectRepr::(\w+)", opat)
                o = re.sub(r"\s+", " ", oexpr)
                if o == "dy.get_value(key)":
                    how = "get_value"
                elif "if let Some(rv) = dy.get_value(key) { return Some(rv); }" in o and "iter.nth(idx)" in o \
                        and "dy.enumerator_len() .or_else(|| dy.try_iter().map(|iter| iter.count()))" in o \
                        and o.index("index(key") < o.index("dy.try_iter().map(|iter| iter.count())") \
                        and "if let Some(idx) = index(key, || {" in o:
                    how = "get_value-then-nth(index,len-or-count-on-demand)"
                elif o == ("{ let idx = index(key, || dy.enumerator_len()).map(Value::from); "
                           "dy.get_value(idx.as_ref().unwrap_or(key)) }"):
                    how = "get_value(index-or-key)"
                else:
                    raise KeyError("get_item_opt object arm " + opat)
                for n in names:
                    objs.append((n, how))
            continue
        e = re.sub(r"\s+", " ", expr)
        g = re.search(r"let idx = some!\(index\(key, \|\| Some\(([^;]*)\)\)\);", e)
        if not g or len(rs) != 1:
            raise KeyError("get_item_opt arm " + pat)
        fn = g.group(1).replace("s.as_str().", "s.")
        if fn == "s.chars().count()":
            if not re.search(r"s(\.as_str\(\))?\.chars\(\)\.nth\(idx\)\.map\(Value::from\)", e):
                raise KeyError("get_item_opt string arm")
            fn = "chars"
        elif fn == "b.len()":
            if "b.get(idx).copied().map(Value::from)" not in e:
                raise KeyError("get_item_opt bytes arm")
            fn = "bytes"
        else:
            fn = "other:" + fn
        lenfn.append((rs[0], fn))
    if default != "None":
        raise KeyError("get_item_opt default")
    gi = re.sub(r"\s+", " ", fn_body(src, r"pub fn get_item\(&self, key: &Value\) -> Result<Value, Error>")).strip()
    if gi != ("if let ValueRepr::Undefined(_) = self.0 { Err(Error::from(ErrorKind::UndefinedError)) } else { "
              "Ok(self.get_item_opt(key).unwrap_or(Value::UNDEFINED)) }"):
        raise KeyError("Value::get_item")
    gbi = re.sub(r"\s+", " ", fn_body(src, r"pub fn get_item_by_index\(&self, idx: usize\) -> Result<Value, Error>")).strip()
    if gbi != "self.get_item(&Value(ValueRepr::U64(idx as _)))":
        raise KeyError("Value::get_item_by_index")
    ga = re.sub(r"\s+", " ", fn_body(src, r"pub fn get_attr\(&self, key: &str\) -> Result<Value, Error>")).strip()
    if ga != ("let value = match self.0 { ValueRepr::Undefined(_) => return Err(Error::from(ErrorKind::UndefinedError)), "
              "ValueRepr::Object(ref dy) => dy.get_value_by_str(key), _ => None, }; Ok(value.unwrap_or(Value::UNDEFINED))"):
        raise KeyError("Value::get_attr")
    # the sequences the engine builds answer `get_value` by `as_usize`
    obj = read(repo, "minijinja/src/value/object.rs")
    vecm = fn_body(obj, r"macro_rules! impl_value_vec\s*\{")
    if "self.get(some!(key.as_usize())).cloned().map(|v| v.into())" not in vecm:
        raise KeyError("impl_value_vec get_value")
    tup = read(repo, "minijinja/src/value/tuple.rs")
    if "self.get(key.as_usize()?).cloned()" not in tup:
        raise KeyError("Tuple get_value")
    lean = ("def c09GetItemLenFn : List (String × String) := %s\n"
            "def c09GetItemObject : List (String × String) := %s" % (_pairs(lenfn), _pairs(objs)))
    return {"lenfn": lenfn, "objects": objs}, lean


@item("C09_VM_SUBSCRIPT")
def _vm(repo):
    src = _nocomment(read(repo, VM))
    flat = re.sub(r"\s+", " ", src)
    gi = ("Instruction::GetItem => { a = stack.pop(); b = stack.pop(); stack.push(match b.get_item_opt(&a) { "
          "Some(value) => assert_valid!(value), None => ctx_ok!(undefined_behavior.handle_undefined(b.is_undefined())), }); }")
    ga = ("stack.push(match a.get_attr_fast(name) { Some(value) => assert_valid!(value), "
          "None => ctx_ok!(undefined_behavior.handle_undefined(a.is_undefined())), });")
    if gi not in flat:
        raise KeyError("vm GetItem arm")
    if ga not in flat:
        raise KeyError("vm GetAttr arm")
    m = re.search(r"Instruction::Slice => \{ let step = stack\.pop\(\); let stop = stack\.pop\(\); b = stack\.pop\(\); a = stack\.pop\(\); "
                  r"if a\.is_undefined\(\) && matches!\(undefined_behavior, ([^)]*)\) \{ bail!\(Error::from\(ErrorKind::(\w+)\)\); \} "
                  r"stack\.push\(ctx_ok!\(ops::slice\(a, b, stop, step\)\)\); \}", flat)
    if not m:
        raise KeyError("vm Slice arm")
    modes = re.findall(r"UndefinedBehavior::(\w+)", m.group(1))
    hu = _nocomment(fn_body(read(repo, UTILS), r"pub\(crate\) fn handle_undefined\(self, parent_was_undefined: bool\) -> Result<Value, Error>"))
    inner = fn_body(hu, r"match \(self, parent_was_undefined\)\s*\{")
    rows = []
    for pat, expr in _arms(inner):
        if expr == "Ok(Value::UNDEFINED)":
            res = "undefined"
        elif expr == "Err(Error::from(ErrorKind::UndefinedError))":
            res = "UndefinedError"
        else:
            raise KeyError("handle_undefined arm")
        for mode, flag in re.findall(r"\(UndefinedBehavior::(\w+), (false|true|_)\)", pat):
            for f in (["false", "true"] if flag == "_" else [flag]):
                rows.append((mode + ":" + f, res))
    if len(rows) != 8 or len(set(r[0] for r in rows)) != 8:
        raise KeyError("handle_undefined table")
    # omitted slice parts are compiled to `none`
    cg = re.sub(r"\s+", " ", _nocomment(read(repo, "minijinja/src/compiler/codegen.rs")))
    if cg.count("} else { self.add(Instruction::LoadConst(Value::from(()))); }") < 3:
        raise KeyError("codegen: omitted slice parts")
    lean = ("def c09VmSliceUndefinedErrModes : List String := %s\n"
            "def c09VmSliceUndefinedErr : String := %s\n"
            "def c09HandleUndefined : List (String × String) := %s"
            % (_lst(modes), lean_str(m.group(2)), _pairs(sorted(rows))))
    return {"slice_undefined_error_modes": modes, "handle_undefined": sorted(rows)}, lean


@item("C09_KINDS")
def _kinds(repo):
    src = read(repo, VMOD)
    disp = fn_body(src, r"impl fmt::Display for ValueKind\s*\{")
    names = re.findall(r"ValueKind::(\w+)\s*=>\s*\"([^\"]*)\"", disp)
    if len(names) < 11:
        raise KeyError("ValueKind Display")
    kb = _nocomment(fn_body(src, r"pub fn kind\(&self\) -> ValueKind"))
    inner = fn_body(kb, r"match self\.0\s*\{")
    rk = []
    for pat, expr in _arms(inner):
        rs = _reprs(pat)
        if rs == ["Object"]:
            for o, k in re.findall(r"ObjectRepr::(\w+)\s*=>\s*ValueKind::(\w+)", expr):
                rk.append(("Object:" + o, k))
            continue
        g = re.fullmatch(r"ValueKind::(\w+)", expr)
        if not g:
            raise KeyError("Value::kind arm " + pat)
        for r in rs:
            rk.append((r, g.group(1)))
    lean = ("def c09KindDisplay : List (String × String) := %s\n"
            "def c09ReprKind : List (String × String) := %s" % (_pairs(names), _pairs(sorted(rk))))
    return {"display": names, "repr_kind": sorted(rk)}, lean


@item("C09_INDEXABLE_OBJECTS")
def _indexable(repo):
    """every `impl Object for T` in minijinja/src that defines `get_value`, and whether that
    `get_value` has an integer-key path (`as_usize` / `as_i64` / forwards to `get_item`).  The C09
    harness must subscript a value of each integer-indexable type (lib/props/c09.py checks it)."""
    import os
    root = os.path.join(repo, "minijinja", "src")
    found = []
    for dp, _, fs in sorted(os.walk(root)):
        for fn in sorted(fs):
            if not fn.endswith(".rs"):
                continue
            rel = os.path.relpath(os.path.join(dp, fn), repo)
            src = read(repo, rel)
            code = re.sub(r"^\s*//[/!].*$", "", src, flags=re.M)
            for m in re.finditer(r"\bimpl(?:<[^>{]*>)?\s+Object\s+for\s+([^\{]+?)\s*(?:\bwhere\b[^\{]*)?\{", code):
                name = re.sub(r"\s+", " ", m.group(1)).strip()
                body = fn_body(code[m.start():], r"\{")
                g = re.search(r"fn get_value\s*\(", body)
                if not g:
                    continue
                gv = fn_body(body[g.start():], r"\)\s*->\s*Option<Value>\s*\{")
                intpath = bool(re.search(r"as_usize\(\)|as_i64\(\)|\.get_item\(", gv))
                found.append((os.path.basename(rel) + ":" + name, "int" if intpath else "other"))
    if not found:
        raise KeyError("no Object impls with get_value")
    lean = "def c09IndexableObjects : List (String × String) := %s" % _pairs(found)
    return found, lean
