"""C10 table items: the literals of the lexer / syntax configuration that MJ/Model/Lexer.lean
transcribes (default delimiters, validation order of the start delimiters, pattern -> marker map,
marker bytes, operator tables of tokenize_block_or_var, radix prefixes) and the list of all
substring / byte search call sites of lexer.rs (so that a new search helper or a new scan is
noticed: MJ/Props/C10.lean compares the list with the sites the model covers)."""
import re
from extract_tables import item, read, fn_body, lean_str, lean_char

LEXER = "minijinja/src/compiler/lexer.rs"
SYNTAX = "minijinja/src/syntax.rs"


def _unesc(s):
    return {"\\\\": "\\", "\\'": "'", "\\\"": '"', "\\n": "\n", "\\r": "\r", "\\t": "\t"}.get(s, s)


@item("C10_DEFAULT_DELIMS")
def _default_delims(repo):
    src = read(repo, SYNTAX)
    body = fn_body(src, r"const DEFAULT_DELIMS: Delims = Delims\s*\{")
    rows = re.findall(r"(\w+):\s*Cow::Borrowed\(\"((?:[^\"\\]|\\.)*)\"\)", body)
    order = ["block_start", "block_end", "variable_start", "variable_end", "comment_start", "comment_end",
             "line_statement_prefix", "line_comment_prefix"]
    d = dict(rows)
    if sorted(d) != sorted(order):
        raise KeyError("DEFAULT_DELIMS fields")
    vals = [d[k] for k in order]
    return d, "def c10DefaultDelims : List String := [" + ", ".join(lean_str(v) for v in vals) + "]"


@item("C10_VALIDATED_ORDER")
def _validated(repo):
    src = read(repo, SYNTAX)
    body = fn_body(src, r"fn validated_start_delims\(&self\)[^{]*\{")
    rows = re.findall(r"\(&self\.(\w+),\s*(true|false)\)", body)
    if len(rows) < 3:
        raise KeyError("validated_start_delims rows")
    lean = ("def c10ValidatedOrder : List (String × Bool) := ["
            + ", ".join(f"({lean_str(n)}, {b})" for n, b in rows) + "]")
    return rows, lean


@item("C10_PATTERN_TO_MARKER")
def _pattern_to_marker(repo):
    src = read(repo, SYNTAX)
    body = fn_body(src, r"pub\(crate\) fn pattern_to_marker\(&self, pattern: PatternID\) -> StartMarker\s*\{")
    inner = fn_body(body, r"match pattern\.as_usize\(\)\s*\{")
    heads = list(re.finditer(r"(?m)^\s*(\d+|_)\s*=>", inner))
    out = []
    for i, m in enumerate(heads):
        v = inner[m.end():heads[i + 1].start() if i + 1 < len(heads) else len(inner)]
        names = re.findall(r"StartMarker::(\w+)", v)
        out.append((m.group(1), names, "line_statement_prefix().is_some()" in v))
    if len(out) < 5:
        raise KeyError("pattern_to_marker arms")
    lean = ("def c10PatternToMarker : List (String × List String) := ["
            + ", ".join(f"({lean_str(k)}, [" + ", ".join(lean_str(n) for n in names) + "])" for k, names, _ in out) + "]")
    return out, lean


@item("C10_WS_FROM_BYTE")
def _from_byte(repo):
    src = read(repo, LEXER)
    body = fn_body(src, r"fn from_byte\(b: Option<u8>\) -> Whitespace\s*\{")
    rows = re.findall(r"Some\(b'(\\?.)'\)\s*=>\s*Whitespace::(\w+)", body)
    dflt = re.search(r"_\s*=>\s*Whitespace::(\w+)", body)
    if not rows or not dflt:
        raise KeyError("Whitespace::from_byte arms")
    lean = ("def c10WsFromByte : List (Char × String) := ["
            + ", ".join(f"({lean_char(_unesc(c))}, {lean_str(w)})" for c, w in rows) + "]\n"
            + f"def c10WsDefault : String := {lean_str(dflt.group(1))}")
    return {"rows": rows, "default": dflt.group(1)}, lean


@item("C10_OPERATORS")
def _operators(repo):
    src = read(repo, LEXER)
    body = fn_body(src, r"fn tokenize_block_or_var\(")
    two = re.findall(r"Some\(b\"(..)\"\)\s*=>\s*Some\(Token::(\w+)\)", body)
    single = []
    for c, rest in re.findall(r"Some\(b'(\\?.)'\)\s*=>\s*(Some\(Token::\w+\)|with_paren_balance!\(-?\d+,\s*Token::\w+\))", body):
        m = re.match(r"with_paren_balance!\((-?\d+)", rest)
        single.append((_unesc(c), int(m.group(1)) if m else 0))
    if len(two) < 4 or len(single) < 15:
        raise KeyError("operator tables")
    quotes = re.findall(r"Some\(b'(\\?.)'\)\s*=>\s*\{\s*return Ok\(ControlFlow::Break\(ok!\(self\.eat_string", body)
    lean = ("def c10TwoOps : List (Char × Char) := [" + ", ".join(f"({lean_char(a[0])}, {lean_char(a[1])})" for a, _ in two) + "]\n"
            + "def c10SingleOps : List (Char × Int) := [" + ", ".join(f"({lean_char(c)}, {d})" for c, d in single) + "]\n"
            + "def c10Quotes : List Char := [" + ", ".join(lean_char(_unesc(q)) for q in quotes) + "]")
    return {"two": two, "single": single, "quotes": quotes}, lean


@item("C10_RADIX_PREFIXES")
def _radix(repo):
    src = read(repo, LEXER)
    body = fn_body(src, r"fn eat_number\(&mut self\)[^{]*\{")
    rows = re.findall(r"Some\(((?:b\"..\"\s*\|?\s*)+)\)\s*=>\s*(\d+)", body)
    out = []
    for pats, radix in rows:
        for p in re.findall(r"b\"(..)\"", pats):
            out.append((p, int(radix)))
    if len(out) < 6:
        raise KeyError("radix prefixes")
    lean = ("def c10RadixPrefixes : List (Char × Char × Nat) := ["
            + ", ".join(f"({lean_char(p[0])}, {lean_char(p[1])}, {r})" for p, r in out) + "]")
    return out, lean


SEARCH_CALLS = ["memstr", "memchr", "find_overlapping", "find", "rfind", "starts_with", "ends_with", "strip_prefix",
                "strip_suffix", "trim_end_matches", "trim_start_matches", "trim_end", "trim_start", "trim", "position",
                "rposition", "take_while", "map_while", "skip_while", "split_once", "splitn", "contains", "windows",
                "matches", "match_indices"]


@item("C10_SEARCH_SITES")
def _search_sites(repo):
    src = read(repo, LEXER)
    cut = src.find("#[cfg(test)]\nmod tests")
    if cut > 0:
        src = src[:cut]
    # split into top-level / impl functions
    heads = [(m.start(), m.group(1)) for m in re.finditer(r"\n\s*(?:pub(?:\([^)]*\))?\s+)?fn\s+(\w+)\s*[<(]", src)]
    sites = {}
    for i, (pos, name) in enumerate(heads):
        end = heads[i + 1][0] if i + 1 < len(heads) else len(src)
        if name.startswith("verif_") and "#[cfg(" in src[max(0, pos - 200):pos] and "verif_hooks" in src[max(0, pos - 200):pos]:
            # instrumentation behind the cargo feature verif_hooks (not compiled for users): not a
            # mechanism of the lexer
            continue
        body = re.sub(r"//[^\n]*", "", src[pos:end])
        for call in SEARCH_CALLS:
            pat = (r"(?<![\w.])%s\(" % call) if call in ("memstr", "memchr") else (r"\.%s\(" % call)
            n = len(re.findall(pat, body))
            if n:
                sites[(name, call)] = sites.get((name, call), 0) + n
    if not sites:
        raise KeyError("search call sites")
    rows = sorted((f, c, n) for (f, c), n in sites.items())
    lean = ("def c10SearchSites : List (String × String × Nat) := ["
            + ", ".join(f"({lean_str(f)}, {lean_str(c)}, {n})" for f, c, n in rows) + "]")
    return rows, lean


UTILS = "minijinja/src/utils.rs"


@item("C10_UNESCAPE")
def _unescape(repo):
    """the escape table of utils::unescape (which character behind a backslash starts which kind of
    escape) and the numbers its helpers use: characters taken by \\u / \\x, further octal digits,
    radixes, the surrogate range"""
    src = read(repo, UTILS)
    body = fn_body(src, r"fn unescape\(mut self, s: &str\)[^{]*\{")
    inner = fn_body(body, r"Some\(d\) => match d\s*\{")
    arms = []
    for pat, rhs in re.findall(r"(?m)^\s*((?:'(?:\\.|[^'])'(?:\.\.='(?:\\.|[^'])')?(?:\s*\|\s*)?)+|_)\s*=>\s*(\{.*?\n\s*\}|[^\n]*)", inner, re.S):
        kind = ("u16" if "parse_u16" in rhs else "hex" if "parse_hex_byte" in rhs else "oct" if "parse_octal_byte" in rhs
                else "char" if "push_char" in rhs else "?")
        arms.append((re.sub(r"\s+", " ", pat.strip()), kind))
    if len(arms) < 8 or any(k == "?" for _, k in arms):
        raise KeyError("unescape arms")
    u16 = fn_body(src, r"fn parse_u16\(&self, chars: &mut Chars\)[^{]*\{")
    hexb = fn_body(src, r"fn parse_hex_byte\(&self, chars: &mut Chars\)[^{]*\{")
    octb = fn_body(src, r"fn parse_octal_byte\(&self, first_digit: char, chars: &mut Chars\)[^{]*\{")
    push = fn_body(src, r"fn push_u16\(&mut self, c: u16\)[^{]*\{")
    nums = [
        ("u16_take", int(re.search(r"\.take\((\d+)\)", u16).group(1))),
        ("u16_radix", int(re.search(r"u16::from_str_radix\(&hexnum,\s*(\d+)\)", u16).group(1))),
        ("hex_take", int(re.search(r"\.take\((\d+)\)", hexb).group(1))),
        ("hex_radix", int(re.search(r"u8::from_str_radix\(&hexnum,\s*(\d+)\)", hexb).group(1))),
        ("oct_more", int(re.search(r"for _ in 0\.\.(\d+)", octb).group(1))),
        ("oct_radix", int(re.search(r"u8::from_str_radix\(&octal_str,\s*(\d+)\)", octb).group(1))),
        ("surrogate_first", int(re.search(r"\(0x([0-9A-Fa-f]+)\.\.=0x([0-9A-Fa-f]+)\)\.contains", push).group(1), 16)),
        ("surrogate_last", int(re.search(r"\(0x([0-9A-Fa-f]+)\.\.=0x([0-9A-Fa-f]+)\)\.contains", push).group(2), 16)),
    ]
    lean = ("def c10UnescapeArms : List (String × String) := ["
            + ", ".join(f"({lean_str(p)}, {lean_str(k)})" for p, k in arms) + "]\n"
            + "def c10UnescapeNums : List (String × Nat) := [" + ", ".join(f"({lean_str(n)}, {v})" for n, v in nums) + "]")
    return {"arms": arms, "nums": nums}, lean
