"""C02 table items: the second escaping pre-filter (`needs_html_escaping`), the subtrahend of the
`HtmlEscape` range filter, the list of program points that create `Safe` strings, and the names of
all registered filters/functions (every one must be classified in MJ/Model/Safe.lean)."""
import os, re, glob
from extract_tables import item, read, fn_body, lean_str, lean_char


def _ch(tok):
    return tok[-1]


@item("HTML_NEEDS_ESCAPING")
def _needs(repo):
    src = read(repo, "minijinja/src/utils.rs")
    body = fn_body(src, r"fn needs_html_escaping\(s: &str\) -> bool\s*\{")
    m = re.search(r"b\.wrapping_sub\(b'(\\?.)'\)\s*<=\s*b'(\\?.)'\s*-\s*b'(\\?.)'", body)
    if not m:
        raise KeyError("needs_html_escaping range filter")
    mm = re.search(r"matches!\(\s*b\s*,([^)]*)\)", body)
    if not mm:
        raise KeyError("needs_html_escaping matches!")
    chars = [_ch(c) for c in re.findall(r"b'(\\?.)'", mm.group(1))]
    if not chars:
        raise KeyError("needs_html_escaping chars")
    # shape: `if <range> && matches!(..) { return true; }` inside a loop over bytes, else false
    if not re.search(r"for\s+&b\s+in\s+s\.as_bytes\(\)", body) or "return true" not in body:
        raise KeyError("needs_html_escaping shape")
    lo, hi, sub = _ch(m.group(1)), _ch(m.group(2)), _ch(m.group(3))
    lean = ("def htmlNeedsChars : List Char := [" + ", ".join(lean_char(c) for c in chars) + "]\n"
            f"def htmlNeedsLo : Nat := {ord(lo)}\ndef htmlNeedsHi : Nat := {ord(hi)}\ndef htmlNeedsSub : Nat := {ord(sub)}")
    return {"chars": chars, "lo": lo, "hi": hi, "sub": sub}, lean


@item("HTML_ESCAPE_FILTER_SUB")
def _sub(repo):
    src = read(repo, "minijinja/src/utils.rs")
    body = fn_body(src, r"impl fmt::Display for HtmlEscape<'_>\s*\{")
    m = re.search(r"b\.wrapping_sub\(b'(\\?.)'\)\s*<=\s*b'(\\?.)'\s*-\s*b'(\\?.)'", body)
    if not m:
        raise KeyError("HtmlEscape range filter")
    sub = _ch(m.group(3))
    # the string path of write_with_html_escaping must be `if !needs(s) {verbatim} else {HtmlEscape}`
    w = fn_body(src, r"fn write_with_html_escaping\(out: &mut Output, value: &Value\) -> fmt::Result\s*\{")
    if not re.search(r"if\s+!needs_html_escaping\(s\)\s*\{\s*out\.write_str\(s\)\s*\}\s*else\s*\{\s*write!\(out,\s*\"\{\}\",\s*HtmlEscape\(s\)\)", w):
        raise KeyError("write_with_html_escaping string path")
    return ord(sub), f"def htmlEscapeFilterSub : Nat := {ord(sub)}"


def _strip_comments(src):
    src = re.sub(r"/\*.*?\*/", "", src, flags=re.S)
    return "\n".join(re.sub(r"//.*", "", l) for l in src.splitlines())


def _cut_tests(src):
    i = src.find("#[cfg(test)]")
    return src if i < 0 else src[:i]


def _scan_sites(repo):
    """per (file, enclosing fn): how many times a Safe string is constructed (`mark`), how many
    `preserve_safety` calls (`preserve`), how many reads of the bit (`read`)"""
    out = {}
    files = (glob.glob(os.path.join(repo, "minijinja/src/**/*.rs"), recursive=True)
             + glob.glob(os.path.join(repo, "minijinja-contrib/src/**/*.rs"), recursive=True))
    for path in sorted(files):
        rel = os.path.relpath(path, repo)
        if "/tests/" in rel or rel.endswith("verif_hooks.rs"):
            continue
        src = _cut_tests(_strip_comments(open(path, encoding="utf-8").read()))
        cur = "?"
        for line in src.splitlines():
            m = re.search(r"\bfn\s+(\w+)", line)
            if m:
                cur = m.group(1)
            if re.search(r"\bfn\s+(from_safe_string|preserve_safety|is_safe)\b", line):
                continue
            n_mark = line.count("from_safe_string(")
            if "StringType::Safe" in line and not re.search(r"matches!|if let|=>|ref\s", line):
                n_mark += 1
            n_pres = line.count("preserve_safety(")
            n_read = len(re.findall(r"is_safe\(\)", line)) + len(re.findall(r"StringInput::is_safe\b", line))
            if "StringType::Safe" in line and re.search(r"matches!|if let|=>", line):
                n_read += 1
            for kind, n in (("mark", n_mark), ("preserve", n_pres), ("read", n_read)):
                if n:
                    out[(rel, cur, kind)] = out.get((rel, cur, kind), 0) + n
    return out


@item("SAFE_PRODUCER_SITES")
def _sites(repo):
    sc = _scan_sites(repo)
    prod = sorted(f"{rel}::{fn}::{kind}x{n}" for (rel, fn, kind), n in sc.items() if kind in ("mark", "preserve"))
    read = sorted(f"{rel}::{fn}::{kind}x{n}" for (rel, fn, kind), n in sc.items() if kind == "read")
    if not prod or not read:
        raise KeyError("no safe-string producer/reader found")
    lst = lambda xs: "[" + ", ".join(lean_str(x) for x in xs) + "]"
    return {"producers": prod, "readers": read}, (f"def safeProducerSites : List String := {lst(prod)}\n"
                                                   f"def safeBitReaderSites : List String := {lst(read)}")


@item("PYCOMPAT_METHODS")
def _pycompat(repo):
    src = _strip_comments(read(repo, "minijinja-contrib/src/pycompat.rs"))
    names = []
    for fn, kind in (("string_methods", "str"), ("map_methods", "dict"), ("seq_methods", "list")):
        body = fn_body(src, r"fn %s\([^)]*\)\s*->\s*Result<Value, Error>\s*\{" % fn)
        inner = fn_body(body, r"match method\s*\{")
        for arm in re.findall(r"^\s{8}((?:\"\w+\"\s*\|\s*)*\"\w+\")\s*=>", inner, re.M):
            names += [f"{kind}.{n}" for n in re.findall(r"\"(\w+)\"", arm)]
    # dispatch on the receiver kind
    disp = fn_body(src, r"pub fn unknown_method_callback\(")
    if not (re.search(r"ValueKind::String\s*=>\s*string_methods", disp) and re.search(r"ValueKind::Map\s*=>\s*map_methods", disp)
            and re.search(r"ValueKind::Seq\s*=>\s*seq_methods", disp)):
        raise KeyError("unknown_method_callback dispatch")
    if len(names) < 20:
        raise KeyError("pycompat method arms")
    return names, "def pycompatMethodNames : List String := [" + ", ".join(lean_str(n) for n in names) + "]"


@item("FILTER_NAMES")
def _filters(repo):
    src = read(repo, "minijinja/src/defaults.rs")
    body = fn_body(src, r"fn build_builtin_filters\(\)[^{]*\{")
    names = re.findall(r"rv\.insert\(\s*\"([^\"]+)\"\.into\(\)", body)
    if len(names) < 10:
        raise KeyError("builtin filter registrations")
    csrc = read(repo, "minijinja-contrib/src/lib.rs")
    cbody = fn_body(csrc, r"pub fn add_to_environment\(env: &mut Environment\)\s*\{")
    cnames = re.findall(r"env\.add_filter\(\s*\"([^\"]+)\"", cbody)
    cfuncs = re.findall(r"env\.add_function\(\s*\"([^\"]+)\"", cbody)
    fbody = fn_body(src, r"fn build_globals\(\)[^{]*\{")
    gnames = re.findall(r"rv\.insert\(\s*\"([^\"]+)\"\.into\(\)", fbody)
    names, cnames, funcs = sorted(set(names)), sorted(set(cnames)), sorted(set(gnames + cfuncs))
    lst = lambda xs: "[" + ", ".join(lean_str(x) for x in xs) + "]"
    lean = (f"def builtinFilterNames : List String := {lst(names)}\n"
            f"def contribFilterNames : List String := {lst(cnames)}\n"
            f"def globalFunctionNames : List String := {lst(funcs)}")
    return {"builtin": names, "contrib": cnames, "functions": funcs}, lean


@item("AUTOESCAPE_BY_NAME")
def _autoescape(repo):
    src = read(repo, "minijinja/src/defaults.rs")
    m = re.search(r"const IGNORED_EXTENSIONS:\s*\[&str;\s*\d+\]\s*=\s*\[([^\]]*)\];", src)
    if not m:
        raise KeyError("IGNORED_EXTENSIONS")
    ignored = re.findall(r"\"([^\"]*)\"", m.group(1))
    body = fn_body(src, r"pub fn default_auto_escape_callback\(mut name: &str\) -> AutoEscape\s*\{")
    mh = re.search(r"Some\(([^)]*)\)\s*=>\s*AutoEscape::Html", body)
    mj = re.search(r"Some\(([^)]*)\)\s*=>\s*AutoEscape::Json", body)
    if not mh or not mj or not re.search(r"_\s*=>\s*AutoEscape::None", body):
        raise KeyError("default_auto_escape_callback arms")
    html = re.findall(r"\"([^\"]*)\"", mh.group(1))
    jsn = re.findall(r"\"([^\"]*)\"", mj.group(1))
    lst = lambda xs: "[" + ", ".join(lean_str(x) for x in xs) + "]"
    lean = (f"def c02AutoEscapeIgnoredExts : List String := {lst(ignored)}\n"
            f"def c02AutoEscapeHtmlExts : List String := {lst(html)}\n"
            f"def c02AutoEscapeJsonExts : List String := {lst(jsn)}")
    return {"ignored": ignored, "html": html, "json": jsn}, lean


@item("AUTOESCAPE_SHAPE")
def _autoescape_shape(repo):
    """the control structure of default_auto_escape_callback that MJ.Safe.autoEscapeOfName transcribes
    (kept apart from the extension lists so that the model still builds and the name probes give
    failing inputs when only the shape changes)"""
    src = read(repo, "minijinja/src/defaults.rs")
    body = fn_body(src, r"pub fn default_auto_escape_callback\(mut name: &str\) -> AutoEscape\s*\{")
    if not re.search(r"for ext in IGNORED_EXTENSIONS\s*\{\s*if let Some\(stripped\) = name\.strip_suffix\(ext\)\s*\{\s*name = stripped;\s*break;", body):
        raise KeyError("default_auto_escape_callback: suffix stripping loop")
    if not re.search(r"match name\.rsplit\('\.'\)\.next\(\)\s*\{", body):
        raise KeyError("default_auto_escape_callback: extension = text after the last dot")
    return True, "def c02AutoEscapeShapeOk : Bool := true"


@item("C02_VALUE_REPR_VARIANTS")
def _repr_variants(repo):
    src = read(repo, "minijinja/src/value/mod.rs")
    body = fn_body(src, r"pub\(crate\) enum ValueRepr\s*\{")
    body = re.sub(r"//.*", "", body)
    names = re.findall(r"^\s*([A-Z]\w*)\s*(?:\([^)]*\))?\s*,", body, re.M)
    if len(names) < 8:
        raise KeyError("ValueRepr variants")
    # Value::kind(): variant -> ValueKind (objects by their repr)
    kb = fn_body(src, r"pub fn kind\(&self\) -> ValueKind\s*\{")
    kinds = {}
    for pats, kind in re.findall(r"((?:ValueRepr::\w+(?:\([^)]*\))?\s*\|?\s*)+)=>\s*ValueKind::(\w+)", kb):
        for v in re.findall(r"ValueRepr::(\w+)", pats):
            kinds[v] = kind
    kinds["Object"] = "Object"
    if set(kinds) != set(names):
        raise KeyError(f"Value::kind arms {sorted(kinds)} vs variants {sorted(names)}")
    # Value::as_str(): which variants have text without conversion
    ab = fn_body(src, r"pub fn as_str\(&self\) -> Option<&str>\s*\{")
    arms = re.findall(r"ValueRepr::(\w+)\([^)]*\)\s*=>\s*([^,\n]+),", ab)
    as_str = [f"{v}:{'utf8' if 'from_utf8' in rhs else 'some'}" for v, rhs in arms]
    if not re.search(r"_\s*=>\s*None", ab) or not as_str:
        raise KeyError("Value::as_str arms")
    pairs = [f"{n}:{kinds[n]}" for n in names]
    lst = lambda xs: "[" + ", ".join(lean_str(x) for x in xs) + "]"
    lean = (f"def c02ValueReprKinds : List String := {lst(pairs)}\n"
            f"def c02AsStrArms : List String := {lst(as_str)}")
    return {"variants": pairs, "as_str": as_str}, lean


@item("C02_WRITE_ESCAPED_DISPATCH")
def _dispatch(repo):
    """the decision structure of write_escaped / write_with_html_escaping as a list of tokens, in
    source order; MJ.Safe.modelDispatch must be equal to it"""
    src = _strip_comments(read(repo, "minijinja/src/utils.rs"))
    toks = []
    we = fn_body(src, r"pub fn write_escaped\(")
    m = re.match(r"\s*if let ValueRepr::String\(ref s, StringType::Safe\) = value\.0\s*\{\s*return out\.write_str\(s\)", we)
    if not m:
        raise KeyError("write_escaped: safe-string bypass is not the first statement")
    toks.append("safe-string:raw")
    mm = fn_body(we, r"match auto_escape\s*\{")
    for mode, rhs in re.findall(r"AutoEscape::(\w+)(?:\(\w+\))?\s*=>\s*([^\n]+),\s*$", mm, re.M):
        if "write_with_html_escaping" in rhs:
            act = "html"
        elif "json_escape_write" in rhs:
            act = "json"
        elif "invalid_autoescape" in rhs:
            act = "error"
        elif re.search(r'write!\(out,\s*"\{value\}"\)', rhs):
            act = "display"
        else:
            act = "?" + rhs.strip()
        toks.append(f"mode:{mode}:{act}")
    wh = fn_body(src, r"fn write_with_html_escaping\(out: &mut Output, value: &Value\) -> fmt::Result\s*\{")
    first = fn_body(wh, r"match value\.0\s*\{")
    fast = re.findall(r"ValueRepr::(\w+)\(v\)(\s+if\s[^\n]+?)?\s+=>", first)
    if not fast:
        raise KeyError("write_with_html_escaping: fast-path arms")
    for v, guard in fast:
        toks.append(f"fast:{v}{':guarded' if guard.strip() else ''}:raw")
    if not re.search(r"_\s*=>\s*\{\s*\}", first):
        raise KeyError("write_with_html_escaping: fast-path match has no empty default")
    rest = wh[wh.index(first) + len(first):]
    if re.search(r"if let ValueRepr::SmallStr\(ref s\) = value\.0\s*\{\s*let s = s\.as_str\(\);\s*if is_ascii_integer_str\(s\)\s*\{\s*return out\.write_str\(s\);", rest):
        toks.append("smallstr-ascii-integer:raw")
    chain = re.search(r"if let Some\(s\) = value\.as_str\(\)\s*\{(.*)$", rest, re.S)
    if not chain:
        raise KeyError("write_with_html_escaping: as_str branch")
    c = chain.group(1)
    if re.match(r"\s*if !needs_html_escaping\(s\)\s*\{\s*out\.write_str\(s\)\s*\}\s*else\s*\{\s*write!\(out,\s*\"\{\}\",\s*HtmlEscape\(s\)\)\s*\}", c):
        toks.append("as_str:prefilter-or-escape")
    else:
        toks.append("as_str:?")
    # the else-if / else chain after the string branch
    tail = c
    for cond, body in re.findall(r"\}\s*else if\s+(.*?)\s*\{\s*(write![^\n]*)\s*", tail, re.S):
        cond = re.sub(r"\s+", " ", cond)
        km = re.match(r"matches!\( value\.kind\(\), ((?:ValueKind::\w+\s*\|?\s*)+)\)", cond)
        if km:
            what = "kind[" + ",".join(re.findall(r"ValueKind::(\w+)", km.group(1))) + "]"
        else:
            what = "cond[" + cond + "]"
        act = "display" if re.search(r'write!\(out,\s*"\{value\}"\)', body) else ("escape-to_string" if "HtmlEscape(&value.to_string())" in body else "?")
        toks.append(f"{what}:{act}")
    em = re.search(r"\}\s*else\s*\{\s*(write![^\n]*)\s*\}\s*$", tail.rstrip().rstrip("}").rstrip() + "}", re.S)
    last = re.findall(r"\}\s*else\s*\{\s*(?://[^\n]*\s*)*(write![^\n]*)", tail)
    if not last:
        raise KeyError("write_with_html_escaping: final else")
    body = last[-1]
    act = "display" if re.search(r'write!\(out,\s*"\{value\}"\)', body) else ("escape-to_string" if "HtmlEscape(&value.to_string())" in body else "?")
    toks.append(f"else:{act}")
    return toks, "def c02WriteEscapedDispatch : List String := [" + ", ".join(lean_str(t) for t in toks) + "]"


# ------------------------------------------------------------------ the complete callable table
_SCALAR_RETS = ("String", "bool", "usize", "i64", "u64", "f64", "u32", "i32")


def _find_fn(src, name):
    """(signature text, return type, body) of `fn name(...)` in comment-stripped source, or None"""
    for m in re.finditer(r"\bfn\s+%s\s*(?:<[^>{(]*>)?\s*\(" % re.escape(name), src):
        i = m.end() - 1
        depth, j = 0, i
        while j < len(src):
            if src[j] == "(":
                depth += 1
            elif src[j] == ")":
                depth -= 1
                if depth == 0:
                    break
            j += 1
        k = src.index("{", j)
        head = src[j + 1:k]
        rm = re.match(r"\s*->\s*(.*?)\s*(?:where\b.*)?$", head, re.S)
        ret = re.sub(r"\s+", " ", rm.group(1)).strip() if rm else "()"
        d, e = 0, k
        while e < len(src):
            if src[e] == "{":
                d += 1
            elif src[e] == "}":
                d -= 1
                if d == 0:
                    break
            e += 1
        return src[m.start():k], ret, src[k + 1:e]
    return None


def _facts(body):
    mark = body.count("from_safe_string(")
    for line in body.splitlines():
        if "StringType::Safe" in line and not re.search(r"matches!|if let|=>|ref\s", line):
            mark += 1
    reads = len(re.findall(r"is_safe\(\)", body)) + len(re.findall(r"StringInput::is_safe\b", body))
    for line in body.splitlines():
        if "StringType::Safe" in line and re.search(r"matches!|if let|=>", line):
            reads += 1
    return {
        "preserve": body.count("preserve_safety("),
        "mark": mark,
        "reads": reads,
        "stateFormat": len(re.findall(r"state\.format\(|\.format\(state\)|\bjoin_safe\b|env\(\)\.format\(", body)),
        "escFormatter": body.count("escape_formatter"),
        "writeEscaped": body.count("write_escaped("),
        "dyn": len(re.findall(r"apply_filter\(|perform_test\(|get_filter\(|get_test\(|\.call\(|call_method\(", body)),
    }


def _registered(repo):
    """[(kind, name, crate, module, fn)] of everything the two crates register"""
    out = []
    src = _strip_comments(read(repo, "minijinja/src/defaults.rs"))
    for kind, builder, default_mod in (("filter", "build_builtin_filters", "filters"), ("test", "build_builtin_tests", "tests"),
                                       ("function", "build_globals", "functions")):
        body = fn_body(src, r"fn %s\(\)[^{]*\{" % builder)
        lets = {v: (m, f) for v, m, f in re.findall(r"let\s+(\w+)\s*=\s*Value::from_function\(\s*(\w+)::(\w+)\s*,?\s*\)", body)}
        n_ins = 0
        for name, rhs in re.findall(r"rv\.insert\(\s*\"([^\"]+)\"\.into\(\)\s*,\s*(.*?)\s*,?\s*\)\s*;", body, re.S):
            n_ins += 1
            m = re.match(r"Value::from_function\(\s*(\w+)::(\w+)\s*,?\s*\)$", rhs) or \
                re.match(r"BoxedFunction::new\(\s*(\w+)::(\w+)\s*,?\s*\)\s*\.to_value\(\)$", rhs)
            if m:
                out.append((kind, name, "minijinja", m.group(1), m.group(2)))
                continue
            m = re.match(r"(\w+)(?:\.clone\(\))?$", rhs)
            if m and m.group(1) in lets:
                out.append((kind, name, "minijinja", lets[m.group(1)][0], lets[m.group(1)][1]))
                continue
            raise KeyError(f"{builder}: registration of {name!r} not understood: {rhs!r}")
        if n_ins != len(re.findall(r"rv\.insert\(", body)):
            raise KeyError(f"{builder}: some rv.insert(..) not parsed")
    csrc = _strip_comments(read(repo, "minijinja-contrib/src/lib.rs"))
    cbody = fn_body(csrc, r"pub fn add_to_environment\(env: &mut Environment\)\s*\{")
    regs = re.findall(r"env\.add_(filter|function|test|global)\(\s*\"([^\"]+)\"\s*,\s*([\w:]+)\s*,?\s*\)", cbody)
    if len(regs) != len(re.findall(r"env\.add_\w+\(", cbody)):
        raise KeyError("add_to_environment: some env.add_*(..) not parsed")
    for k, name, path in regs:
        parts = path.split("::")
        mod = parts[-2] if len(parts) > 1 else "lib"
        out.append((k, name, "minijinja-contrib", mod, parts[-1]))
    return out


_MOD_FILES = {
    ("minijinja", "filters"): ["minijinja/src/filters.rs"],
    ("minijinja", "tests"): ["minijinja/src/tests.rs"],
    ("minijinja", "functions"): ["minijinja/src/functions.rs"],
    ("minijinja-contrib", "filters"): ["minijinja-contrib/src/filters/mod.rs", "minijinja-contrib/src/filters/datetime.rs"],
    ("minijinja-contrib", "globals"): ["minijinja-contrib/src/globals.rs"],
    ("minijinja-contrib", "lib"): ["minijinja-contrib/src/lib.rs"],
}


def _callables(repo):
    rows = []
    cache = {}

    def src_of(rel):
        if rel not in cache:
            cache[rel] = _cut_tests(_strip_comments(read(repo, rel)))
        return cache[rel]

    for kind, name, crate, mod, fn in _registered(repo):
        found = None
        for rel in _MOD_FILES.get((crate, mod), []):
            r = _find_fn(src_of(rel), fn)
            if r:
                found = (rel, r)
                break
        if not found:
            raise KeyError(f"implementation of {kind} {name!r} ({crate}::{mod}::{fn}) not found")
        rel, (_sig, ret, body) = found
        rows.append({"kind": kind, "name": name, "file": rel, "fn": fn, "ret": ret, "body": body})
    # pycompat methods: one row per match arm
    prel = "minijinja-contrib/src/pycompat.rs"
    psrc = src_of(prel)
    disp = fn_body(psrc, r"pub fn unknown_method_callback\(")
    if not (re.search(r"ValueKind::String\s*=>\s*string_methods", disp) and re.search(r"ValueKind::Map\s*=>\s*map_methods", disp)
            and re.search(r"ValueKind::Seq\s*=>\s*seq_methods", disp)):
        raise KeyError("unknown_method_callback dispatch")
    for fn, kindname in (("string_methods", "str"), ("map_methods", "dict"), ("seq_methods", "list")):
        sig, ret, body = _find_fn(psrc, fn)
        inner = fn_body(body, r"match method\s*\{")
        arms = list(re.finditer(r"^\s{8}((?:\"\w+\"\s*\|\s*)*\"\w+\"|_)\s*=>", inner, re.M))
        for i, a in enumerate(arms):
            if a.group(1) == "_":
                continue
            arm_body = inner[a.end():arms[i + 1].start() if i + 1 < len(arms) else len(inner)]
            for n in re.findall(r"\"(\w+)\"", a.group(1)):
                rows.append({"kind": "method", "name": f"{kindname}.{n}", "file": prel, "fn": f"{fn}#{n}", "ret": ret, "body": arm_body})
    if sum(1 for r in rows if r["kind"] == "method") < 20:
        raise KeyError("pycompat method arms")
    # facts, direct calls to other registered implementations, nested fns
    impl_names = {}
    for r in rows:
        if r["kind"] in ("filter", "function"):
            impl_names.setdefault(r["fn"], r)
    for r in rows:
        b = r["body"]
        r.update(_facts(b))
        calls = set(re.findall(r"filters::(\w+)\s*\(", b))
        for other in impl_names:
            if other != r["fn"] and impl_names[other]["file"] == r["file"] and re.search(r"(?<![\w.:!])%s\s*\(" % re.escape(other), b):
                calls.add(other)
        r["calls"] = sorted(c for c in calls if c in impl_names and c != r["fn"])
        r["nested"] = sorted(set(re.findall(r"\bfn\s+(\w+)", b)))
    prod = {r["fn"] for r in rows if r["preserve"] or r["mark"]}
    # transitive closure over direct calls
    via = {r["fn"]: set() for r in rows}
    changed = True
    while changed:
        changed = False
        for r in rows:
            for c in r["calls"]:
                new = ({c} if c in prod else set()) | via.get(c, set())
                if not new <= via[r["fn"]]:
                    via[r["fn"]] |= new
                    changed = True
    for r in rows:
        r["via"] = sorted(via[r["fn"]])
        del r["body"]
    return rows


def _from_string_is_normal(repo):
    """`Value::from(String / &str / Cow / Arc<str>)` builds an unmarked string"""
    src = _strip_comments(read(repo, "minijinja/src/value/argtypes.rs"))
    b1 = fn_body(src, r"impl<'a> From<&'a str> for Value\s*\{")
    b2 = fn_body(src, r"impl From<String> for Value\s*\{")
    b3 = fn_body(src, r"impl From<Arc<str>> for Value\s*\{")
    ok = ("StringType::Normal" in b1 and "StringType::Safe" not in b1 and "SmallStr" in b1
          and re.search(r"Value::from\(val\.as_str\(\)\)", b2) and "StringType::Normal" in b3 and "StringType::Safe" not in b3)
    if not ok:
        raise KeyError("From<String>/From<&str>/From<Arc<str>> for Value no longer build StringType::Normal")
    return True


@item("C02_CALLABLES")
def _callable_table(repo):
    rows = _callables(repo)
    _from_string_is_normal(repo)
    sc = _scan_sites(repo)
    sites = sorted((rel, fn, kind, n) for (rel, fn, kind), n in sc.items() if kind in ("mark", "preserve"))
    b = lambda x: "true" if x else "false"
    lst = lambda xs: "[" + ", ".join(lean_str(x) for x in xs) + "]"
    rec = []
    for r in rows:
        rec.append("  { kind := %s, name := %s, file := %s, fn := %s, ret := %s, preserve := %s, mark := %s, reads := %s, "
                   "stateFormat := %s, escFormatter := %s, writeEscaped := %s, dyn := %s, calls := %s, via := %s, nested := %s }"
                   % (lean_str(r["kind"]), lean_str(r["name"]), lean_str(r["file"]), lean_str(r["fn"]), lean_str(r["ret"]),
                      b(r["preserve"]), b(r["mark"]), b(r["reads"]), b(r["stateFormat"]), b(r["escFormatter"]), b(r["writeEscaped"]),
                      b(r["dyn"]), lst(r["calls"]), lst(r["via"]), lst(r["nested"])))
    lean = ("structure C02Callable where\n  kind : String\n  name : String\n  file : String\n  fn : String\n  ret : String\n"
            "  preserve : Bool\n  mark : Bool\n  reads : Bool\n  stateFormat : Bool\n  escFormatter : Bool\n  writeEscaped : Bool\n"
            "  dyn : Bool\n  calls : List String\n  via : List String\n  nested : List String\n"
            "def c02Callables : List C02Callable := [\n" + ",\n".join(rec) + "]\n"
            "def c02FromStringIsNormal : Bool := true\n"
            "def c02ProducerSiteRows : List (String × String × String × Nat) := ["
            + ", ".join(f"({lean_str(rel)}, {lean_str(fn)}, {lean_str(kind)}, {n})" for rel, fn, kind, n in sites) + "]")
    return {"callables": rows, "sites": [list(s) for s in sites]}, lean


def _scan_output_sites(repo):
    """per (file, enclosing fn) in crate minijinja: how the rendered text can reach an `Output` —
    `raw` = a direct write to an `Output` (`out.write_str(` / `write!(out` / `writeln!(out` / `out.write_fmt(`),
    `escaped` = a call of `write_escaped(`, `formatter` = a call of the environment's formatter
    (`env().format(`), `sink` = an `Output::new(` (a new place text is collected in)"""
    out = {}
    files = glob.glob(os.path.join(repo, "minijinja/src/**/*.rs"), recursive=True)
    for path in sorted(files):
        rel = os.path.relpath(path, repo)
        if "/tests/" in rel or rel.endswith("verif_hooks.rs"):
            continue
        src = _cut_tests(_strip_comments(open(path, encoding="utf-8").read()))
        cur = "?"
        for line in src.splitlines():
            m = re.search(r"\bfn\s+(\w+)", line)
            if m:
                cur = m.group(1)
                if cur == "write_escaped":
                    continue
            n_raw = len(re.findall(r"\bout\.write_str\(|\bout\.write_fmt\(|\bout\.write_char\(|\bwrite!\(\s*out\b|\bwriteln!\(\s*out\b", line))
            n_esc = len(re.findall(r"\bwrite_escaped\(", line))
            n_fmt = len(re.findall(r"env\(\)\s*\.format\(|\benv\.format\(", line))
            n_new = len(re.findall(r"\bOutput::new\(", line))
            for kind, n in (("raw", n_raw), ("escaped", n_esc), ("formatter", n_fmt), ("sink", n_new)):
                if n:
                    out[(rel, cur, kind)] = out.get((rel, cur, kind), 0) + n
    return out


@item("C02_OUTPUT_WRITE_SITES")
def _output_sites(repo):
    """ALL program points of crate minijinja through which text reaches an `Output`: a new raw write
    (a fast path that bypasses `write_escaped`), a new caller of `write_escaped` / of the formatter, or
    a new sink breaks `MJ.C02.all_output_write_sites_modelled`"""
    sc = _scan_output_sites(repo)
    rows = sorted(f"{rel}::{fn}::{kind}x{n}" for (rel, fn, kind), n in sc.items())
    if not any("::escaped" in r for r in rows) or not any("::raw" in r for r in rows):
        raise KeyError("no output write site found")
    # the multi-line formatter call of Instruction::Emit (`state.env().format(&value, state, out)`) and of
    # State::format / the escape filter must be among them
    if not any(r.startswith("minijinja/src/vm/mod.rs::") and "::formatter" in r for r in rows):
        raise KeyError("Instruction::Emit no longer calls the environment's formatter in the scanned form")
    return rows, "def c02OutputWriteSites : List String := [" + ", ".join(lean_str(x) for x in rows) + "]"


def _call_args(src, start):
    """the top-level comma separated arguments of the call whose `(` is at src[start]; cfg attributes dropped"""
    depth, j, cur, args = 0, start, "", []
    while j < len(src):
        c = src[j]
        if c in "([{":
            depth += 1
            if depth > 1:
                cur += c
        elif c in ")]}":
            depth -= 1
            if depth == 0:
                if cur.strip():
                    args.append(cur)
                break
            cur += c
        elif c == "," and depth == 1:
            args.append(cur)
            cur = ""
        else:
            cur += c
        j += 1
    clean = []
    for a in args:
        a = re.sub(r"#\[cfg\([^\]]*\)\]", "", a)
        clean.append(" ".join(a.split()))
    return clean


def _resolve_local(src, pos, expr):
    """a bare identifier argument is replaced by the initialiser of its nearest preceding `let`"""
    if not re.fullmatch(r"[a-z_]+", expr):
        return expr
    before = src[:pos]
    ms = list(re.finditer(r"let\s+%s\s*=\s*([^;]+);" % re.escape(expr), before))
    if ms and pos - ms[-1].start() < 1500:
        return " ".join(ms[-1].group(1).split())
    return "param:" + expr


@item("C02_MODE_SOURCES")
def _mode_sources(repo):
    """every program point of crate minijinja that supplies the auto-escape mode an execution starts in
    (`State::new`, `vm::eval`, `with_execution_state`, the compiled template's flag), with the expression
    it supplies — rows `file::fn::callee::expr`"""
    rows = []
    files = glob.glob(os.path.join(repo, "minijinja/src/**/*.rs"), recursive=True)
    for path in sorted(files):
        rel = os.path.relpath(path, repo)
        if "/tests/" in rel or rel.endswith("verif_hooks.rs"):
            continue
        src = _cut_tests(_strip_comments(open(path, encoding="utf-8").read()))
        fns = [(m.start(), m.group(1)) for m in re.finditer(r"\bfn\s+(\w+)", src)]

        def enclosing(pos):
            cur = "?"
            for st, name in fns:
                if st <= pos:
                    cur = name
            return cur
        for callee, idx in (("with_execution_state", 1), ("State::new", 1), ("vm::eval", 5)):
            for m in re.finditer(r"(?<![\w:])(?:crate::)?%s\(" % re.escape(callee), src):
                if re.search(r"fn\s+$", src[max(0, m.start() - 4):m.start()]) or src[max(0, m.start() - 3):m.start()] == "fn ":
                    continue
                args = _call_args(src, m.end() - 1)
                if len(args) <= idx:
                    raise KeyError(f"{rel}: call of {callee} with {len(args)} arguments")
                expr = _resolve_local(src, m.start(), args[idx])
                rows.append(f"{rel}::{enclosing(m.start())}::{callee}::{expr}")
        # the mode a capture ends in decides whether the captured text is marked
        for m in re.finditer(r"\.end_capture\(", src):
            args = _call_args(src, m.end() - 1)
            if len(args) != 1:
                raise KeyError(f"{rel}: end_capture with {len(args)} arguments")
            rows.append(f"{rel}::{enclosing(m.start())}::end_capture::{_resolve_local(src, m.start(), args[0])}")
        for m in re.finditer(r"\binitial_auto_escape\s*:\s*([^,\n]+),", src):
            if "AutoEscape" in m.group(1) and "(" not in m.group(1):
                continue   # the field declaration
            rows.append(f"{rel}::{enclosing(m.start())}::field::{' '.join(m.group(1).split())}")
        # the accessors the sites above go through
        for m in re.finditer(r"fn\s+initial_auto_escape\s*\(", src):
            body = fn_body(src[m.start():], r"fn\s+initial_auto_escape\s*\([^)]*\)\s*->\s*AutoEscape\s*\{")
            rows.append(f"{rel}::initial_auto_escape::returns::{' '.join(body.strip().strip('{}').split())}")
    import collections
    rows = sorted(f"{r} x{n}" for r, n in collections.Counter(rows).items())
    if len(rows) < 8:
        raise KeyError("mode sources: too few sites found")
    return rows, "def c02ModeSources : List String := [" + ", ".join(lean_str(x) for x in rows) + "]"
