"""C02 table items: the second escaping pre-filter (`needs_html_escaping`), the subtrahend of the
`HtmlEscape` range filter, the list of program points that create `Safe` strings, and the names of
all registered filters/functions (every one must be classified in MJ/Model/Safe.lean)."""
import os, re, glob
from extract_tables import item, read, fn_body, lean_str, lean_char


def _ch(tok):
    return tok[-1]


@item("HTML_NEEDS_ESCAPING")
def _needs(repo):
    src = read(repo, "minijinja/src/utils.rs")
    body = fn_body(src, r"fn needs_html_escaping\(s: &str\) -> bool\s*\{")
    m = re.search(r"b\.wrapping_sub\(b'(\\?.)'\)\s*<=\s*b'(\\?.)'\s*-\s*b'(\\?.)'", body)
    if not m:
        raise KeyError("needs_html_escaping range filter")
    mm = re.search(r"matches!\(\s*b\s*,([^)]*)\)", body)
    if not mm:
        raise KeyError("needs_html_escaping matches!")
    chars = [_ch(c) for c in re.findall(r"b'(\\?.)'", mm.group(1))]
    if not chars:
        raise KeyError("needs_html_escaping chars")
    # shape: `if <range> && matches!(..) { return true; }` inside a loop over bytes, else false
    if not re.search(r"for\s+&b\s+in\s+s\.as_bytes\(\)", body) or "return true" not in body:
        raise KeyError("needs_html_escaping shape")
    lo, hi, sub = _ch(m.group(1)), _ch(m.group(2)), _ch(m.group(3))
    lean = ("def htmlNeedsChars : List Char := [" + ", ".join(lean_char(c) for c in chars) + "]\n"
            f"def htmlNeedsLo : Nat := {ord(lo)}\ndef htmlNeedsHi : Nat := {ord(hi)}\ndef htmlNeedsSub : Nat := {ord(sub)}")
    return {"chars": chars, "lo": lo, "hi": hi, "sub": sub}, lean


@item("HTML_ESCAPE_FILTER_SUB")
def _sub(repo):
    src = read(repo, "minijinja/src/utils.rs")
    body = fn_body(src, r"impl fmt::Display for HtmlEscape<'_>\s*\{")
    m = re.search(r"b\.wrapping_sub\(b'(\\?.)'\)\s*<=\s*b'(\\?.)'\s*-\s*b'(\\?.)'", body)
    if not m:
        raise KeyError("HtmlEscape range filter")
    sub = _ch(m.group(3))
    # the string path of write_with_html_escaping must be `if !needs(s) {verbatim} else {HtmlEscape}`
    w = fn_body(src, r"fn write_with_html_escaping\(out: &mut Output, value: &Value\) -> fmt::Result\s*\{")
    if not re.search(r"if\s+!needs_html_escaping\(s\)\s*\{\s*out\.write_str\(s\)\s*\}\s*else\s*\{\s*write!\(out,\s*\"\{\}\",\s*HtmlEscape\(s\)\)", w):
        raise KeyError("write_with_html_escaping string path")
    return ord(sub), f"def htmlEscapeFilterSub : Nat := {ord(sub)}"


def _strip_comments(src):
    src = re.sub(r"/\*.*?\*/", "", src, flags=re.S)
    return "\n".join(re.sub(r"//.*", "", l) for l in src.splitlines())


def _cut_tests(src):
    i = src.find("#[cfg(test)]")
    return src if i < 0 else src[:i]


@item("SAFE_PRODUCER_SITES")
def _sites(repo):
    sites = set()
    files = (glob.glob(os.path.join(repo, "minijinja/src/**/*.rs"), recursive=True)
             + glob.glob(os.path.join(repo, "minijinja-contrib/src/**/*.rs"), recursive=True))
    for path in sorted(files):
        rel = os.path.relpath(path, repo)
        if "/tests/" in rel or rel.endswith("verif_hooks.rs"):
            continue
        src = _cut_tests(_strip_comments(open(path, encoding="utf-8").read()))
        cur = "?"
        for line in src.splitlines():
            m = re.search(r"\bfn\s+(\w+)", line)
            if m:
                cur = m.group(1)
            if re.search(r"\bfn\s+from_safe_string\b", line):
                continue
            produces = "from_safe_string(" in line
            # direct construction (not a pattern: patterns bind with `ref`/`_` or sit in matches!/if let)
            if "StringType::Safe" in line and not re.search(r"matches!|if let|=>|ref\s", line):
                produces = True
            if produces:
                sites.add(f"{rel}::{cur}")
    if not sites:
        raise KeyError("no safe-string producer found")
    sites = sorted(sites)
    return sites, "def safeProducerSites : List String := [" + ", ".join(lean_str(s) for s in sites) + "]"


@item("FILTER_NAMES")
def _filters(repo):
    src = read(repo, "minijinja/src/defaults.rs")
    body = fn_body(src, r"fn build_builtin_filters\(\)[^{]*\{")
    names = re.findall(r"rv\.insert\(\s*\"([^\"]+)\"\.into\(\)", body)
    if len(names) < 10:
        raise KeyError("builtin filter registrations")
    csrc = read(repo, "minijinja-contrib/src/lib.rs")
    cbody = fn_body(csrc, r"pub fn add_to_environment\(env: &mut Environment\)\s*\{")
    cnames = re.findall(r"env\.add_filter\(\s*\"([^\"]+)\"", cbody)
    cfuncs = re.findall(r"env\.add_function\(\s*\"([^\"]+)\"", cbody)
    fbody = fn_body(src, r"fn build_globals\(\)[^{]*\{")
    gnames = re.findall(r"rv\.insert\(\s*\"([^\"]+)\"\.into\(\)", fbody)
    names, cnames, funcs = sorted(set(names)), sorted(set(cnames)), sorted(set(gnames + cfuncs))
    lst = lambda xs: "[" + ", ".join(lean_str(x) for x in xs) + "]"
    lean = (f"def builtinFilterNames : List String := {lst(names)}\n"
            f"def contribFilterNames : List String := {lst(cnames)}\n"
            f"def globalFunctionNames : List String := {lst(funcs)}")
    return {"builtin": names, "contrib": cnames, "functions": funcs}, lean


@item("AUTOESCAPE_BY_NAME")
def _autoescape(repo):
    src = read(repo, "minijinja/src/defaults.rs")
    m = re.search(r"const IGNORED_EXTENSIONS:\s*\[&str;\s*\d+\]\s*=\s*\[([^\]]*)\];", src)
    if not m:
        raise KeyError("IGNORED_EXTENSIONS")
    ignored = re.findall(r"\"([^\"]*)\"", m.group(1))
    body = fn_body(src, r"pub fn default_auto_escape_callback\(mut name: &str\) -> AutoEscape\s*\{")
    # shape: strip the first matching ignored suffix, then look at what follows the LAST dot
    if not re.search(r"for ext in IGNORED_EXTENSIONS\s*\{\s*if let Some\(stripped\) = name\.strip_suffix\(ext\)\s*\{\s*name = stripped;\s*break;", body):
        raise KeyError("default_auto_escape_callback: suffix stripping loop")
    if not re.search(r"match name\.rsplit\('\.'\)\.next\(\)\s*\{", body):
        raise KeyError("default_auto_escape_callback: extension = text after the last dot")
    mh = re.search(r"Some\(([^)]*)\)\s*=>\s*AutoEscape::Html", body)
    mj = re.search(r"Some\(([^)]*)\)\s*=>\s*AutoEscape::Json", body)
    if not mh or not mj or not re.search(r"_\s*=>\s*AutoEscape::None", body):
        raise KeyError("default_auto_escape_callback arms")
    html = re.findall(r"\"([^\"]*)\"", mh.group(1))
    jsn = re.findall(r"\"([^\"]*)\"", mj.group(1))
    lst = lambda xs: "[" + ", ".join(lean_str(x) for x in xs) + "]"
    lean = (f"def autoEscapeIgnoredExts : List String := {lst(ignored)}\n"
            f"def autoEscapeHtmlExts : List String := {lst(html)}\n"
            f"def autoEscapeJsonExts : List String := {lst(jsn)}")
    return {"ignored": ignored, "html": html, "json": jsn}, lean
